"""Reference model for C20 part (h): the registry model of part (e) for handler
sections that may NAME THE SAME FILE and whose handlers are USED (a record is
logged through a handler every time the application obtains it from its factory).

Written from the property statement ("reopening or closing log files acts on
exactly the file handlers still alive": a set of HANDLERS, not of files or of
file names - two handler sections are two handlers, whatever they have in
common, up to being the same section text twice) and from the documentation of
logging.FileHandler ("if delay is true, file opening is deferred until the first
call to emit()"):

 * which file a section names plays no role for what a factory call creates,
   for the registry, or for the set of handlers reopenFiles() / closeFiles()
   act on: the model of part (e) is taken over unchanged, the path assignment
   is simply not an input of it;
 * a record logged through a created, unclosed (= registered) handler leaves its
   file open, delayed or not; reopenFiles() then acts on the delayed handler
   like on any other (old stream closed; a delayed handler opens its file again
   only with the next record);
 * what logging a record through a handler that closeFiles() has closed does
   to it is not fixed by the statement (the standard library opens the file of
   an 'a'-mode handler again): `use` answers UNSPECIFIED and the observed
   stream state is adopted.  Such a handler is not registered: reopenFiles() /
   closeFiles() must leave it alone.
"""
from vz.ref.logmodel import RegistryModel

OPEN, UNSPECIFIED = "open", "unspecified"


def partitions(n):
    """All assignments of n sections to files up to renaming the files:
    restricted growth strings ([0, 1] = two files, [0, 0] = one file)."""
    out = [[0]] if n else [[]]
    for _ in range(1, n):
        out = [p + [k] for p in out for k in range(max(p) + 2)]
    return out


class UsageModel(RegistryModel):
    def __init__(self, delays, paths):
        RegistryModel.__init__(self, delays)
        self.paths = list(paths)

    def use(self, j):
        """A record is logged through the handler of slot j (which exists)."""
        s = self.slots[j]
        if s["registered"]:
            s["open"] = True
            return OPEN
        return UNSPECIFIED

    def adopt(self, j, is_open):
        self.slots[j]["open"] = bool(is_open)

    # -- classes of the situation an R / C operation meets (vacuity guards)
    def registered_on_one_file(self):
        """Largest number of registered handlers that name the same file."""
        n = {}
        for j in self.order:
            n[self.paths[j]] = n.get(self.paths[j], 0) + 1
        return max(n.values()) if n else 0

    def registered_delayed_open(self):
        return [j for j in self.order if self.delay[j] and self.slots[j]["open"]]

    def unregistered_open(self):
        return [j for j, s in enumerate(self.slots)
                if s is not None and not s["registered"] and s["open"]]
