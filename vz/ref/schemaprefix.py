"""Reference for the RESOLUTION of dotted and dot-relative datatype / keytype names of a schema document (C10, wave 5,
axis P).  Nothing here imports ZConfig or the packages the names refer to.

Transcribed from docs/writing-schema.rst:

* prefix (schema / component / sectiontype): "Prefix to be pre-pended in front of partial dotted-names that start with
  a period.  The value of this attribute is used in all contexts within the element if it hasn't been overridden by an
  inner element with a prefix attribute" / for a sectiontype: "used in all contexts in the sectiontype element.  If
  omitted, the prefix specified by a containing context is used if specified."  A prefix that itself starts with a
  period continues the prefix of the containing context.
* datatype / keytype (schema, sectiontype, key, multikey): "basic-key or dotted-name ... If the value is a dotted-name
  that begins with a period, the value of prefix will be pre-pended, if set."

Hence: every element has an EFFECTIVE prefix - its own prefix= when it has one (relative: appended to the effective
prefix of the containing context), else the containing context's; the containing context of a section type is the
document element of the FILE it is written in (an imported component and a base schema are documents of their own:
nothing of the importing / extending document reaches into them, and nothing of them reaches back).  A name written on
an element - the element that carries the prefix= attribute included - is resolved against that element's effective
prefix.  A resolved (or absolute) dotted name is a datatype iff the module part is importable and publishes the last
component.  A relative name where no prefix is set is not a dotted-name at all.

Expectations (see vz.ref.schemanames): accept / reject as there;
    unfound   a well-formed dotted name that names nothing: the document must NOT be accepted; it is refused while the
              schema is loaded, with SchemaError or with the exception of the failed import (Registry.get documents an
              unspecified exception for names it cannot find - DESIGN 8.3)
"""

A = "vz.harness.c10r"
B = A + ".inner"
C = B + ".inner"
O = "vz.harness.c10s"
P = O + ".inner"

# what the packages under vz/harness/ publish (checked against the real packages by the check before it runs)
PUBLISHED = {
    A: ("conv", "only_a"),
    B: ("conv", "only_b"),
    C: ("conv", "only_c"),
    O: ("conv", "only_o"),
    P: ("conv", "only_p"),
}
SUBPACKAGES = {A: ("inner",), B: ("inner",), C: (), O: ("inner",), P: ()}

STOCK = ("string",)               # a documented stock name usable as value datatype, section datatype and key type

# every relative spelling that names something under at least one effective prefix, and two that never do
RELATIVE_NAMES = (".conv", ".only_a", ".only_b", ".only_c", ".only_o", ".only_p",
                  ".inner.conv", ".inner.only_b", ".inner.only_c", ".inner.only_p", ".inner.inner.only_c",
                  ".nosuch", ".inner.nosuch")
ABSOLUTE_NAMES = (A + ".only_a", B + ".only_b", A + ".only_b", P + ".only_p", O + ".only_p")
NAMES = STOCK + RELATIVE_NAMES + ABSOLUTE_NAMES
# quick tier: without the spellings whose verdict pattern over the effective prefixes repeats another one's
NAMES_QUICK = tuple(n for n in NAMES if n not in (".inner.inner.only_c", ".inner.nosuch", A + ".only_a", O + ".only_p"))
# the smaller alphabet used when two slots are filled at once (thorough tier)
PAIR_NAMES = (".conv", ".only_a", ".only_b", ".inner.only_b", ".only_p", B + ".only_b")


def eff_prefix(outer, own):
    """Effective prefix of an element whose containing context has effective prefix `outer` ('' = none).
    None: a relative prefix where no prefix is set (left open by the documentation; not generated)."""
    if not own:
        return outer
    if own.startswith("."):
        return outer + own if outer else None
    return own


def exists(full):
    mod, _, leaf = full.rpartition(".")
    return leaf in PUBLISHED.get(mod, ())


def judge_name(name, eff):
    """-> (expectation, clause) for `name` written on an element whose effective prefix is `eff`."""
    if "." not in name:
        return ("accept", "stock-datatype") if name in STOCK else ("reject", "unknown-datatype-name")
    if name.startswith("."):
        if not eff:
            return "reject", "relative-name-where-no-prefix-is-set"
        full = eff + name
        return ("accept", "relative-name-resolves-under-the-effective-prefix") if exists(full) else \
            ("unfound", "relative-name-names-nothing-under-the-effective-prefix")
    return ("accept", "absolute-name-resolves") if exists(name) else ("unfound", "absolute-name-names-nothing")


# ---------------------------------------------------------------------------
# documents.  A description is (layout, p0, pI, pt1, pd, pt2):
#   p0   prefix of the document element of the file that holds section type t1
#   pI   prefix of the OTHER document (the importing / extending schema); unused in layout 'schema'
#   pt1  prefix of section type t1 (items k1, m1)
#   pd   prefix of d1, a type derived from t1 (item k2)
#   pt2  prefix of t2, a later sibling type (item k3)
# and the main schema has the items k0 (key) and m0 (multikey) AFTER everything else.

MAIN = "file:///v/schema.xml"
BASE = "file:///v/base1.xml"
COMPONENT_PACKAGE = A                      # <import package=...>: any importable package; its component.xml is served
COMPONENT = "package:%s:component.xml" % COMPONENT_PACKAGE

TYPE_ITEMS = {"t1": (("k1", "key"), ("m1", "multikey")), "d1": (("k2", "key"),), "t2": (("k3", "key"),)}
TYPE_PREFIX_VAR = {"t1": 3, "d1": 4, "t2": 5}
TYPE_EXTENDS = {"d1": "t1"}

# layout -> files in the order (url, root tag, root id, index of its prefix in the description, link, children)
LAYOUTS = {
    "schema": ((MAIN, "schema", "S", 1, None, ("t1", "d1", "t2", "k0", "m0")),),
    "component": ((MAIN, "schema", "S", 2, "import", ("k0", "m0")),
                  (COMPONENT, "component", "C", 1, None, ("t1", "d1", "t2"))),
    "base-file": ((MAIN, "schema", "S", 2, "extends", ("d1", "t2", "k0", "m0")),
                  (BASE, "schema", "B", 1, None, ("t1", "kb"))),
}
ITEM_KIND = {"k0": "key", "m0": "multikey", "kb": "key"}


def slots(layout):
    """[(slot id, element id, attribute)] in document order of the layout's files (main file first)."""
    out = []
    for url, tag, rid, pv, link, children in LAYOUTS[layout]:
        if tag == "schema":
            out += [(rid + ".datatype", rid, "datatype"), (rid + ".keytype", rid, "keytype")]
        for c in children:
            if c in TYPE_ITEMS:
                out += [(c + ".datatype", c, "datatype"), (c + ".keytype", c, "keytype")]
                out += [("%s/%s.datatype" % (c, i), i, "datatype") for i, _ in TYPE_ITEMS[c]]
            else:
                out.append((c + ".datatype", c, "datatype"))
    return out


def site_prefixes(desc):
    """element id -> effective prefix ('' = none), or None if the description has a relative prefix where none is
    set (not generated)."""
    out = {}
    for url, tag, rid, pv, link, children in LAYOUTS[desc[0]]:
        root = eff_prefix("", desc[pv])
        if root is None:
            return None
        out[rid] = root
        for c in children:
            if c in TYPE_ITEMS:
                e = eff_prefix(root, desc[TYPE_PREFIX_VAR[c]])
                if e is None:
                    return None
                out[c] = e
                for i, _ in TYPE_ITEMS[c]:
                    out[i] = e
            else:
                out[c] = root
    return out


def _attrs(elem, fill, prefix=None):
    s = ""
    if prefix:
        s += ' prefix="%s"' % prefix
    for a in ("datatype", "keytype"):
        v = fill.get((elem, a))
        if v is not None:
            s += ' %s="%s"' % (a, v)
    return s


def render(desc, fill):
    """fill: {(element id, attribute): name}.  -> {url: text} (main document under MAIN)."""
    files = {}
    for url, tag, rid, pv, link, children in LAYOUTS[desc[0]]:
        head = "<%s%s%s>\n" % (tag, ' extends="base1.xml"' if link == "extends" else "", _attrs(rid, fill, desc[pv]))
        body = []
        if link == "import":
            body.append('  <import package="%s"/>\n' % COMPONENT_PACKAGE)
        for c in children:
            if c in TYPE_ITEMS:
                ext = ' extends="%s"' % TYPE_EXTENDS[c] if c in TYPE_EXTENDS else ""
                body.append('  <sectiontype name="%s"%s%s>\n' % (c, ext, _attrs(c, fill, desc[TYPE_PREFIX_VAR[c]])))
                for i, kind in TYPE_ITEMS[c]:
                    body.append('    <%s name="%s"%s/>\n' % (kind, i, _attrs(i, fill)))
                body.append('  </sectiontype>\n')
            else:
                body.append('  <%s name="%s"%s/>\n' % (ITEM_KIND[c], c, _attrs(c, fill)))
        files[url] = head + "".join(body) + "</%s>\n" % tag
    return files


_RANK = {"accept": 0, "unfound": 1, "reject": 2}


def judge(desc, fill, effs=None):
    """-> (expectation, clause, [(element, attribute, name, effective prefix, expectation)]).  With several names
    filled in: accepted iff every one resolves; if some do not, 'reject' only when every failing one is a 'reject'."""
    effs = effs or site_prefixes(desc)
    per = []
    for (elem, attr), name in sorted(fill.items()):
        e, clause = judge_name(name, effs[elem])
        per.append((elem, attr, name, effs[elem], e, clause))
    bad = [p for p in per if p[4] != "accept"]
    if not bad:
        return "accept", (per[-1][5] if per else "no-dotted-name"), per
    if all(p[4] == "reject" for p in bad):
        return "reject", bad[0][5], per
    return "unfound", [p for p in bad if p[4] == "unfound"][0][5], per


def other_prefixes(desc, effs, elem):
    """The effective prefixes that are 'in play' in the files of the description but are NOT the one the name on
    `elem` is to be resolved against ('' included when some context has none)."""
    return sorted(set(effs.values()) - {effs[elem]})
