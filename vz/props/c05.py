"""C05 - %define names form one case-insensitive, define-before-use, write-once namespace.

Engine E2: breadth-first search over histories of {%define n v, use n, enter an
%include-d resource, return from it}; a state is (defines mapping, include
depth) of the reference model, validated against the implementation at every new
state by probing each name; every transition's text is loaded twice in a row
against the same schema object and compared with the reference DefineSpace.

Wave 2 adds two axes.  (1) The NAME position of a %define is drawn from its own
alphabet (every '$'-form that the value position knows, written where the name
belongs, next to the other illegal names), so "an illegal name is refused"
is explored for every history of definitions read before it.  (2) Sessions: all
ordered pairs / triples of texts (every history of <= 2 events over a reduced
alphabet that also has one event per way a load can fail) are loaded one after
the other on ONE loader object (plain, extended, loadFile / loadURL entry, and
fresh loaders sharing only the schema); every load of a session must give
what the reference says for that text alone and exactly what a first load on a
new loader gives.

Wave 3 adds the CODE POINT axis of the name position.  Whether a letter or digit
outside ASCII may be part of a name is not fixed by the statement, so such tokens
are judged by consistency: a token is accepted by '%define' exactly when the
public ZConfig.substitution.isname accepts it, and a name that '%define'
accepts is a full member of the namespace (a use '$N' and '${N}' resolves to its
value, from the defining resource and from the includer; it cannot be re-defined
with another value).  Tokens without such a character (ASCII, marks, symbols)
are judged by the reference directly.  Enumerated: every Unicode scalar value
at the positions alone / first / middle / last of a name; every string of <= 3
characters over an alphabet with one representative per character class in five
contexts; six such tokens as events of the breadth-first search.
"""
import io

from vz import core
from vz.harness import load as H
from vz.ref import subst as RS

SCHEMA = "<schema>\n  <multikey name='u'/>\n  <key name='n' datatype='integer' default='0'/>\n  <key name='o' default='d'/>\n</schema>\n"
NAMES = ["a", "b", "ab"]
SPELL = {"a": ["a", "A"], "b": ["B", "b"], "ab": ["Ab", "aB"]}
MAIN = "file:///v/main.conf"

# one line per way a load can fail that is not a %define / reference matter:
# at the scanner, at the matcher while parsing, when a resource is opened, and
# after the last line when the values are converted (SchemaMatcher.finish)
FAULTS = {"junk": "<<<", "unknown-key": "zz 1", "no-file": "%include nofile.conf", "finish": "n notint"}

# what may be written where the NAME of a %define belongs and is not a name
FIXED_ILLEGAL = ["a-b", "1a", "$$a", "a$b", "a$$"]


# wave 3 - tokens with a character outside ASCII as events of the breadth-first search:
# after the name 'a' a letter, a decimal digit, an ordinal mark and a combining mark;
# a letter before it; a letter inside 'ab'
BFS_TOKENS = ["a\u00e9", "a\u0661", "a\u00ba", "a\u0301", "\u00e9a", "a\u00e9b"]


def impl_isname(tok):
    """The implementation's own, public statement of what a legal name is."""
    from ZConfig.substitution import isname
    return bool(isname(tok))


def token_class(tok):
    """-> (class, verdict).  'delimiter': the token holds a character that Python regards
    as white space - where the name ends is then a matter of line syntax, not of this
    property (totality only).  'definite': the statement decides (verdict True: ASCII
    letters, digits, underscores, not starting with a digit; verdict False: some
    character is neither that nor a letter / digit of another script).  'open':
    everything else, i.e. a would-be name with a letter or digit outside ASCII - the
    statement says "letter" and leaves open whether that one counts."""
    if not tok or any(c.isspace() for c in tok):
        return "delimiter", None
    if RS.is_name(tok) == (True, False):
        return "definite", True
    for c in tok:
        if c not in RS.NAME_CHAR and not RS._unspec_char(c):
            return "definite", False
    if tok[0] in "0123456789":
        return "definite", False          # "may not start with a digit"
    return "open", None


def lowercases_to_ascii_name(tok):
    """Violation tag: a token outside ASCII whose lower-cased spelling is an ASCII name."""
    low = tok.lower()
    return (not tok.isascii()) and low.isascii() and RS.is_name(low) == (True, False)


def illegal_names():
    out = list(FIXED_ILLEGAL)
    for n in NAMES:
        out.append("$" + SPELL[n][0])
        out.append("${" + SPELL[n][1] + "}")
    return out


def alphabet(tier):
    evs = []
    for n in NAMES:
        others = [m for m in NAMES if m != n]
        vals = ["lit", "", " padded "]
        for o in others:
            vals += ["$" + SPELL[o][1], "$$" + o, "${" + SPELL[o][0] + "}x"]
            # a reference at the edge of the value next to a blank: with an empty (or padded) referent the EXPANDED
            # value begins / ends with a blank although the written one cannot
            vals += ["w $" + SPELL[o][0], "${" + SPELL[o][1] + "} w"]
        if tier != "quick":
            vals += ["$" + n, "lit$$"]
        for sp in SPELL[n]:
            for v in vals:
                evs.append(("def", sp, v))
    for bad in illegal_names():
        evs.append(("def", bad, "lit"))
    if tier != "quick":
        for bad in illegal_names():
            if "$" in bad:
                evs.append(("def", bad, ""))
    for tok in BFS_TOKENS:
        evs.append(("def", tok, "lit"))
    for n in NAMES:
        for sp in SPELL[n]:
            evs.append(("use", sp))
    evs.append(("use{}", "A"))
    evs.append(("push",))
    evs.append(("pop",))
    return evs


def build_files(hist):
    """history -> dict url -> text ; includes are written relative to the includer."""
    files = {MAIN: []}
    stack = [MAIN]
    count = 0
    for ev in hist:
        cur = files[stack[-1]]
        if ev[0] == "def":
            cur.append(("%define " + ev[1] + " " + ev[2]).rstrip() if ev[2] == "" else "%define " + ev[1] + " " + ev[2])
        elif ev[0] == "use":
            cur.append("u $" + ev[1])
        elif ev[0] == "use{}":
            cur.append("u ${" + ev[1] + "}-")
        elif ev[0] == "fault":
            cur.append(FAULTS[ev[1]])
        elif ev[0] == "push":
            count += 1
            name = "inc%d.conf" % count
            sub = "sub/" if len(stack) == 1 else ""
            url = stack[-1].rsplit("/", 1)[0] + "/" + sub + name
            cur.append("%include " + sub + name)
            files[url] = []
            stack.append(url)
        elif ev[0] == "pop":
            stack.pop()
    return {u: "\n".join(l) + ("\n" if l else "") for u, l in files.items()}


def ref_run(hist):
    """-> (outcome, DefineSpace, depth, alive, at).  outcome: ('ok', [values of u]) |
    ('syntax',) | ('missing', lname) | ('rejected',) | ('unspec',); `at` is the index of
    the event at which reading stopped (None: read to the end).  ('rejected',): the load
    must fail with a configuration error whose kind is not this property's subject."""
    ds = RS.DefineSpace()
    depth = 0
    uses = []
    pending = False          # a value that cannot be converted once the text has been read
    for i, ev in enumerate(hist):
        if ev[0] == "def":
            raw = ev[2].strip()
            if token_class(ev[1])[0] == "open":
                # a letter / digit outside ASCII in the name: the reading is the one the
                # implementation's public isname() states for this token
                if not impl_isname(ev[1]):
                    return ("syntax",), ds, depth, False, i
                if "$" in raw:
                    return ("unspec",), ds, depth, False, i
                return ("open-legal", list(uses), raw), ds, depth, False, i
            r = ds.define(ev[1], raw)
            if r == "ok":
                continue
            if r == "unspec" or isinstance(r, list):
                return ("unspec",), ds, depth, False, i
            if r == "syntax":
                return ("syntax",), ds, depth, False, i
            if isinstance(r, tuple) and r[0] == "missing":
                return ("missing", r[1].lower()), ds, depth, False, i
            return ("unspec",), ds, depth, False, i
        elif ev[0] in ("use", "use{}"):
            txt = "$" + ev[1] if ev[0] == "use" else "${" + ev[1] + "}-"
            r = ds.expand(txt)
            if r[0] == RS.OK:
                uses.append(r[1])
            elif r[0] == RS.MISSING:
                return ("missing", r[1].lower()), ds, depth, False, i
            else:
                return ("unspec",), ds, depth, False, i
        elif ev[0] == "fault":
            if ev[1] == "junk":
                return ("syntax",), ds, depth, False, i
            if ev[1] != "finish" or pending:
                return ("rejected",), ds, depth, False, i
            pending = True
        elif ev[0] == "push":
            depth += 1
        elif ev[0] == "pop":
            depth -= 1
    if pending:
        return ("rejected",), ds, depth, False, None
    return ("ok", uses), ds, depth, True, None


def reference(hist):
    return ref_run(hist)[:4]


def outcome_of(e):
    import ZConfig
    if isinstance(e, ZConfig.SubstitutionReplacementError):
        return ("missing", e.name)
    if isinstance(e, ZConfig.ConfigurationSyntaxError):
        return ("syntax",)
    return ("other-config-error", type(e).__name__)


def observe(sch, files):
    r = H.load_mem(sch, files, MAIN)
    if r[0] == "ok":
        return ("ok", list(r[1].u))
    if r[0] == "rejected":
        return outcome_of(r[1])
    return ("internal", core.exc_desc(r[1]))


def features(hist):
    """What kind of history this is (used in violation tags)."""
    f = set()
    seen = {}
    for ev in hist:
        if ev[0] == "def":
            ln = ev[1].lower()
            if ln in seen:
                f.add("redefinition")
                if "$" in ev[2] or "$" in seen[ln]:
                    f.add("redefinition-with-dollar")
            seen[ln] = ev[2]
            if "$" in ev[1]:
                f.add("dollar-in-name")
        if ev[0] == "push":
            f.add("include")
    return sorted(f)


def name_position_class(hist, acc):
    """Vacuity counters of the name-position axis: a reference written where the name
    of a %define belongs, by what the referenced name holds at that point."""
    ev = hist[-1]
    if ev[0] != "def" or "$" not in ev[1] or "$$" in ev[1]:
        return
    ds = ref_run(hist[:-1])[1]
    refs = [k for kind, k in RS.references(ev[1]) if kind == "d"]
    if not refs:
        return
    v = ds.lookup(refs[0])
    if v is None:
        acc.extra["name_position_reference_undefined"] += 1
    elif RS.is_name(v)[0]:
        acc.extra["name_position_reference_to_a_legal_name"] += 1
    else:
        acc.extra["name_position_reference_to_other_text"] += 1


def check(sch, hist, acc):
    files = build_files(hist)
    exp, ds, depth, alive, at = ref_run(hist)
    acc.ev(2)
    case = {"history": [list(e) for e in hist], "files": files}
    o1 = observe(sch, files)
    o2 = observe(sch, files)
    nd = sum(1 for e in hist if e[0] == "def")
    nu = sum(1 for e in hist if e[0].startswith("use"))
    fs = features(hist)
    if nd >= 1 and (nu >= 1 or "redefinition" in fs):
        acc.nt()
    acc.sample(lambda: dict(case, expected=list(exp)))
    acc.cls("ref=%s impl=%s" % (exp[0], o1[0]))
    name_position_class(hist, acc)
    if o1 != o2:
        acc.violation("second-load-differs", case, [o1, o2], "same outcome twice",
                      tags={"kind": "carry-over", "features": fs})
        return False
    if exp[0] == "unspec":
        if o1[0] == "internal":
            acc.violation("internal-error", case, o1[1], "configuration error", tags={"kind": "internal-error"})
        return False
    if at == len(hist) - 1 and hist[-1][0] == "def" and token_class(hist[-1][1])[0] == "open":
        bfs_open_token(sch, hist, exp, o1, case, acc)
        return False
    if not agrees(o1, exp, hist, at):
        acc.violation("define-namespace-outcome", case, list(o1), list(exp),
                      tags={"kind": "define-namespace", "expected": exp[0], "observed": o1[0],
                            "redefinition_with_dollar": "redefinition-with-dollar" in fs,
                            "dollar_in_name": "dollar-in-name" in fs})
        return False
    return alive


def bfs_open_token(sch, hist, exp, o1, case, acc):
    """Last event: %define of a token with a letter / digit outside ASCII, after a
    history the reference accepts.  isname() refuses it -> the line is refused as a
    syntax error; isname() accepts it -> the line is accepted and the name can be
    referred to from here on."""
    tok = hist[-1][1]
    prefix = tok[:RS.scan_name(tok, 0)[0]].lower()
    held = ref_run(hist[:-1])[1].lookup(prefix) if prefix else None
    acc.extra["bfs_non_ascii_name_after_its_ascii_prefix_was_%s" % ("undefined" if held is None else "defined")] += 1
    tags = {"kind": "name-consistency", "class": "open", "context": "history",
            "lowercases_to_ascii_name": lowercases_to_ascii_name(tok)}
    if exp[0] == "syntax":
        if o1[0] not in ("syntax", "missing"):
            acc.violation("name-token", case, list(o1), "refused as a syntax error: isname(%s) is false" % ascii(tok),
                          tags=dict(tags, what="define-accepts-what-isname-refuses" if o1[0] == "ok"
                                    else "refusal-is-not-a-syntax-error"))
        return
    want = ("ok", exp[1])
    if o1 != want:
        acc.violation("name-token", case, list(o1), list(want),
                      tags=dict(tags, what="define-refuses-what-isname-accepts"))
        return
    h2 = hist + (("use", tok), ("use{}", tok))
    got = observe(sch, build_files(h2))
    acc.ev()
    want = ("ok", exp[1] + [exp[2], exp[2] + "-"])
    if got != want:
        acc.violation("name-token", {"history": [list(e) for e in h2], "files": build_files(h2)}, list(got),
                      list(want), tags=dict(tags, what="accepted-name-not-referable"))


def agrees(obs, exp, hist, at="?"):
    """ok: same values.  A use of an undefined name must be the replacement error
    carrying that name (letter case of .name is C04's subject).  A refused
    %define is 'rejected as a syntax error': the replacement error is a
    ConfigurationSyntaxError too, and which of two causes is reported is open.
    ('rejected',): any configuration error."""
    if exp[0] == "ok":
        return list(obs) == list(exp)
    if at == "?":
        at = ref_run(hist)[4]
    if exp[0] == "rejected":
        return obs[0] in ("syntax", "missing", "other-config-error")
    if at is not None and hist[at][0] == "def":
        return obs[0] in ("syntax", "missing")
    if exp[0] == "missing":
        return obs[0] == "missing" and str(obs[1]).lower() == exp[1]
    return obs[0] == exp[0]


def probe_state(sch, hist, ds, acc):
    """Validate the merge key against the implementation: each name resolves (or
    fails to) in the implementation exactly as the reference state says."""
    for n in NAMES:
        h2 = hist + (("use", n),)
        exp = reference(h2)[0]
        got = observe(sch, build_files(h2))
        acc.ev()
        acc.extra["state_probes"] += 1
        if exp[0] == "ok" and got[0] == "ok":
            if exp[1][-1:] != got[1][-1:]:
                acc.violation("state-probe-differs", {"history": [list(e) for e in h2]}, got, exp,
                              tags={"kind": "state-probe"})
                return False
        elif exp[0] != got[0]:
            acc.violation("state-probe-differs", {"history": [list(e) for e in h2]}, got, exp,
                          tags={"kind": "state-probe"})
            return False
    return True


def bfs_shard(arg, acc):
    first, depth, tier = arg
    sch = H.load_schema(SCHEMA)
    A = alphabet(tier)
    root = (first,)
    if first[0] == "pop":
        return acc
    if not check(sch, root, acc):
        acc.transitions += 1
        acc.traces = acc.transitions
        return acc
    acc.transitions += 1
    seen = set()
    exp, ds, d0, alive = reference(root)
    seen.add((tuple(sorted(ds.defs.items())), d0))
    frontier = [root]
    for level in range(1, depth):
        nxt = []
        for hist in frontier:
            _, ds0, dep, _ = reference(hist)
            for ev in A:
                if ev[0] == "pop" and dep == 0:
                    continue
                if ev[0] == "push" and dep >= 2:
                    continue
                h2 = hist + (ev,)
                acc.current = h2
                alive = check(sch, h2, acc)
                acc.transitions += 1
                if alive and level + 1 < depth:
                    _, ds2, dep2, _ = reference(h2)
                    key = (tuple(sorted(ds2.defs.items())), dep2)
                    if key not in seen:
                        seen.add(key)
                        if probe_state(sch, h2, ds2, acc):
                            nxt.append(h2)
        frontier = nxt
    acc.states += len(seen)
    acc.traces = acc.transitions
    return acc


# ---------------------------------------------------------------------------
# sessions: several loads, one after the other, on one loader object

VARIANTS = [("plain", "file"), ("plain", "url"), ("extended", "file"), ("extended", "url"), ("fresh", "file")]


def session_alphabet(tier):
    """Reduced event alphabet of the texts of a session: two names, each defined with
    three different values in two spellings, an illegal name, uses, include
    boundaries, and one event per way a load can fail."""
    evs = []
    two = ["a", "b"]
    for n in two:
        o = [m for m in two if m != n][0]
        evs.append(("def", SPELL[n][0], "lit"))
        evs.append(("def", SPELL[n][1], "$" + SPELL[o][0]))
        evs.append(("def", SPELL[n][1], ""))
        if tier != "quick":
            evs.append(("def", SPELL[n][0], "${" + o + "}x"))
            evs.append(("def", SPELL[n][1], "$$" + o))
    evs.append(("def", "$a", "lit"))
    if tier != "quick":
        evs.append(("def", "1a", "lit"))
    evs.append(("use", "a"))
    evs.append(("use", "B"))
    evs.append(("use{}", "A"))
    evs.append(("push",))
    evs.append(("pop",))
    for k in FAULTS:
        evs.append(("fault", k))
    return evs


def texts(R, maxlen):
    """Every history of 1..maxlen events over R (no return from a resource that was
    never entered), as a list of lists T[len]; all of them, whatever their outcome."""
    levels = [[()]]
    for _ in range(maxlen):
        nxt = []
        for h in levels[-1]:
            dep = sum(1 for e in h if e[0] == "push") - sum(1 for e in h if e[0] == "pop")
            for ev in R:
                if ev[0] == "pop" and dep == 0:
                    continue
                nxt.append(h + (ev,))
        levels.append(nxt)
    return levels[1:]


class Text:
    __slots__ = ("hist", "files", "exp", "at", "residue", "touches", "fresh")

    def __init__(self, hist):
        self.hist = hist
        self.files = build_files(hist)
        exp, ds, _, alive, at = ref_run(hist)
        self.exp = exp
        self.at = at
        # names the reference had read when a refused load stopped
        self.residue = frozenset(ds.defs) if exp[0] != "ok" else frozenset()
        t = set()
        for ev in hist:
            if ev[0] in ("def", "use", "use{}") and "$" not in ev[1] and RS.is_name(ev[1])[0]:
                t.add(ev[1].lower())
        self.touches = frozenset(t)
        self.fresh = None


def make_loader(sch, kind):
    """A loader whose public openResource serves file:///v/... from the dict in
    `.files`, which the session replaces before each load."""
    import ZConfig
    import ZConfig.loader
    base = ZConfig.loader.ConfigLoader
    if kind == "extended":
        from ZConfig import cmdline
        base = cmdline.ExtendedConfigLoader
    cls = _LOADER_CLASSES.get(kind)
    if cls is None:
        class SessionLoader(base):
            files = None

            def openResource(self, url):
                url = str(url)
                if url in self.files:
                    return self.createResource(io.StringIO(self.files[url]), url)
                if url.startswith("file:///v/"):
                    raise ZConfig.ConfigurationError("error opening file %s: no such file" % url, url)
                return base.openResource(self, url)
        cls = _LOADER_CLASSES[kind] = SessionLoader
    ld = cls(sch)
    if kind == "extended":
        ld.addOption(OPTION)       # so that the extended matcher is really used
    return ld


_LOADER_CLASSES = {}
OPTION = "o=7"


def session_load(ld, files, entry):
    """-> (outcome, message): one load through the public entry point `entry`."""
    import ZConfig
    ld.files = files
    try:
        if entry == "url":
            cfg, _ = ld.loadURL(MAIN)
        else:
            cfg, _ = ld.loadFile(io.StringIO(files[MAIN]), MAIN)
        return ("ok", list(cfg.u)), ""
    except ZConfig.ConfigurationError as e:
        return outcome_of(e), str(e)
    except Exception as e:
        return ("internal", core.exc_desc(e)), ""


def run_session(sch, variant, ts, acc):
    """Load the texts `ts` in this order on one loader (variant 'fresh': on a new
    loader each, sharing the schema object and the process only)."""
    kind, entry = variant
    ld = None if kind == "fresh" else make_loader(sch, kind)
    acc.extra["sessions"] += 1
    acc.extra["sessions_%s_%s_len%d" % (kind, entry, len(ts))] += 1
    if any(e[0] == "def" for e in ts[0].hist) and any(e[0] in ("def", "use", "use{}") for e in ts[-1].hist):
        acc.nt()
    for i in range(1, len(ts)):
        if ts[i - 1].residue & ts[i].touches:
            acc.extra["sessions_text_after_refused_load_that_had_read_its_names"] += 1
            break
    prev = "first"
    alone = "extended" if kind == "extended" else "plain"
    for i, t in enumerate(ts):
        l = make_loader(sch, "plain") if ld is None else ld
        got = session_load(l, t.files, entry)
        acc.ev()
        acc.transitions += 1
        acc.cls("session after=%s ref=%s impl=%s" % (prev, t.exp[0], got[0][0]))
        bad = None
        if got[0][0] == "internal":
            bad = "internal-error"
        elif t.exp[0] != "unspec" and not agrees(got[0], t.exp, t.hist, t.at):
            bad = "outcome-differs-from-reference"
        elif got != t.fresh[alone]:
            bad = "outcome-differs-from-first-load-on-new-loader"
        if bad:
            case = {"session": [[list(e) for e in x.hist] for x in ts], "variant": list(variant),
                    "load": i, "files": t.files}
            acc.violation("session-" + bad, case, [list(got[0]), got[1]],
                          {"reference": list(t.exp), "alone_on_new_loader": [list(t.fresh[alone][0]), t.fresh[alone][1]]},
                          tags={"kind": "session", "what": bad, "after": prev, "expected": t.exp[0],
                                "observed": got[0][0], "loader": kind, "entry": entry})
            return
        prev = "ok" if t.exp[0] == "ok" else "refused"
    acc.sample(lambda: {"session": [[list(e) for e in x.hist] for x in ts], "variant": list(variant),
                        "expected": [list(x.exp) for x in ts]})


def session_plan(tier):
    """-> (R, table T1, T2, T3-or-None).  Texts are numbered; sessions are index tuples."""
    R = session_alphabet(tier)
    lv = texts(R, 3 if tier != "quick" else 2)
    T1 = [Text(h) for h in lv[0]]
    T2 = T1 + [Text(h) for h in lv[1]]
    T3 = None
    if tier != "quick":
        # deeper first texts over the quick alphabet
        Rq = session_alphabet("quick")
        T3 = [Text(h) for l in texts(Rq, 3) for h in l]
    return R, T1, T2, T3


_PLAN = None


def session_shard(arg, acc):
    """arg = (what, tier, lo, hi): first texts lo..hi-1 of the enumeration `what`."""
    what, tier, lo, hi = arg
    R, T1, T2, T3 = _PLAN
    sch = H.load_schema(SCHEMA)
    if what == "singles":
        # every text of the session table alone, twice, against the reference
        for t in T2[lo:hi]:
            acc.current = t.hist
            check(sch, t.hist, acc)
            acc.transitions += 1
    elif what == "pairs2":
        for t1 in T2[lo:hi]:
            for t2 in T2:
                acc.current = (t1.hist, t2.hist)
                run_session(sch, VARIANTS[0], (t1, t2), acc)
                if tier != "quick":
                    for v in VARIANTS[1:]:
                        run_session(sch, v, (t1, t2), acc)
    elif what == "pairs1":
        for t1 in T1[lo:hi]:
            for t2 in T1:
                for v in VARIANTS[1:]:
                    acc.current = (t1.hist, t2.hist, v)
                    run_session(sch, v, (t1, t2), acc)
    elif what == "triples1":
        vs = VARIANTS[:1] if tier == "quick" else VARIANTS
        for t1 in T1[lo:hi]:
            for t2 in T1:
                for t3 in T1:
                    for v in vs:
                        acc.current = (t1.hist, t2.hist, t3.hist, v)
                        run_session(sch, v, (t1, t2, t3), acc)
    elif what == "pairs3":
        for t1 in T3[lo:hi]:
            for t2 in T2:
                acc.current = (t1.hist, t2.hist)
                run_session(sch, VARIANTS[0], (t1, t2), acc)
    acc.traces = acc.transitions
    return acc


# ---------------------------------------------------------------------------
# wave 3: the name position by code point

POSITIONS = ("alone", "first", "middle", "last")
CONTEXTS = ("plain", "after-prefix", "included", "redefined", "empty-value", "after-twin")

# one representative per class of character that some notion of "identifier" tells apart
SIGMA_QUICK = [
    "a", "B", "_", "1", "-",
    "\u00e9",        # Ll  small letter
    "\u00c9",        # Lu  capital letter (its small form is not ASCII either)
    "\u00df",        # Ll  letter whose capital / folded form is two ASCII letters
    "\u212a",        # Lu  letter whose small form is an ASCII letter
    "\u0130",        # Lu  letter whose small form is an ASCII letter and a combining mark
    "\u0661",        # Nd  decimal digit
    "\u00b2",        # No  superscript digit
    "\u2167",        # Nl  letter number
    "\u00ba",        # Lo  ordinal mark
    "\u0301",        # Mn  combining mark
    "\u200d",        # Cf  joiner
    "\u00b7",        # Po  punctuation that identifiers may continue with
    "\uff41",        # Ll  compatibility form of an ASCII letter
    "\U0001d41a",    # Ll  letter outside the basic plane
    "\u4e2d",        # Lo  ideograph
    "\u20ac",        # Sc  symbol
    "\ufb01",        # Ll  ligature of two ASCII letters
]
SIGMA_MORE = [
    "\u00aa", "\u03a9", "\u01c5", "\u02b0", "\u0903", "\u20dd", "\u203f", "\u00ad", "\ufeff",
    "\u2118", "\u0e33", "\u037a", "\U0001f600", "\u00b5", "\u017f",
]


def sigma(tier):
    return SIGMA_QUICK + (SIGMA_MORE if tier != "quick" else [])


def positioned(pos, c):
    return {"alone": c, "first": c + "a", "middle": "a" + c + "b", "last": "a" + c}[pos]


def sweep_shaped(tok):
    """Is this token also one of the code point sweep?"""
    n = len(tok)
    return n == 1 or (n == 2 and "a" in tok) or (n == 3 and tok[0] == "a" and tok[2] == "b")


def scenario(tok, ctx, legal):
    """-> list of (what-a-mismatch-means, files, expected) steps, or None when the context
    does not apply.  expected: ('ok', [values of u]) | 'refused'.  The steps after the
    first only exist when the name is legal."""
    d = "%define " + tok
    uses = "u $" + tok + "\nu ${" + tok + "}-\n"
    acc_or_ref = lambda vals: ("ok", vals) if legal else "refused"
    if ctx == "plain":
        steps = [("define", {MAIN: d + " lit\n"}, acc_or_ref([]))]
        if legal:
            steps.append(("refer", {MAIN: d + " lit\n" + uses}, ("ok", ["lit", "lit-"])))
    elif ctx == "after-prefix":
        # the longest ASCII name the token starts with holds another value already
        k = RS.scan_name(tok, 0)[0]
        if k == 0 or k == len(tok):
            return None
        pre = "%define " + tok[:k] + " one\n"
        steps = [("define", {MAIN: pre + d + " two\n"}, acc_or_ref([]))]
        if legal:
            steps.append(("refer", {MAIN: pre + d + " two\n" + uses}, ("ok", ["two", "two-"])))
    elif ctx == "included":
        inc = {"file:///v/sub/inc1.conf": d + " lit\n"}
        steps = [("define", dict(inc, **{MAIN: "%include sub/inc1.conf\n"}), acc_or_ref([]))]
        if legal:
            steps.append(("refer", dict(inc, **{MAIN: "%include sub/inc1.conf\n" + uses}), ("ok", ["lit", "lit-"])))
    elif ctx == "redefined":
        steps = [("define", {MAIN: d + " lit\n" + d + " lit\n"}, acc_or_ref([])),
                 ("redefine", {MAIN: d + " lit\n" + d + " other\n"}, "refused")]
    elif ctx == "after-twin":
        # the lower-cased form of the token is a name that already holds the SAME value (so that a legal token in
        # another letter case is an accepted re-definition): legality must be judged whatever the history says
        twin = tok.lower()
        if twin == tok or not lowercases_to_ascii_name(tok):
            return None
        pre = "%define " + twin + " lit\n"
        steps = [("define", {MAIN: pre + d + " lit\n"}, acc_or_ref([])),
                 ("define", {"file:///v/sub/inc1.conf": d + " lit\n", MAIN: pre + "%include sub/inc1.conf\n"},
                  acc_or_ref([]))]
    elif ctx == "empty-value":
        steps = [("define", {MAIN: d + "\n"}, acc_or_ref([]))]
        if legal:
            steps.append(("refer", {MAIN: d + "\n" + uses}, ("ok", ["", "-"])))
    return steps


def observe_files(sch, files):
    if len(files) > 1:
        return observe(sch, files)
    r = H.load(sch, files[MAIN], MAIN)
    if r[0] == "ok":
        return ("ok", list(r[1].u))
    if r[0] == "rejected":
        return outcome_of(r[1])
    return ("internal", core.exc_desc(r[1]))


def judge_token(sch, tok, ctx, acc, count_nt=True):
    """One token in the name position of a %define, in one context."""
    cls, verdict = token_class(tok)
    case = {"name_token": tok, "context": ctx, "code_points": ["U+%04X" % ord(c) for c in tok]}
    tags = {"kind": "name-consistency", "class": cls, "context": ctx,
            "lowercases_to_ascii_name": lowercases_to_ascii_name(tok)}
    acc.extra["name_tokens_%s" % cls] += 1
    try:
        said = impl_isname(tok)
    except Exception as e:
        acc.ev()
        acc.violation("name-token", case, core.exc_desc(e), "isname() answers", tags=dict(tags, what="internal-error"))
        return
    if cls == "delimiter":
        # totality only: where the token ends is not this property's subject
        files = {MAIN: "%define " + tok + " lit\n"}
        got = observe_files(sch, files)
        acc.ev()
        acc.transitions += 1
        acc.cls("name-token delimiter impl=%s" % got[0])
        if got[0] == "internal":
            acc.violation("name-token", dict(case, files=files), got[1], "configuration error or accepted",
                          tags=dict(tags, what="internal-error"))
        return
    if cls == "definite" and said != verdict:
        acc.ev()
        acc.violation("name-token", case, {"isname": said}, {"isname": verdict},
                      tags=dict(tags, what="isname-differs-from-reference"))
        return
    legal = verdict if cls == "definite" else said
    steps = scenario(tok, ctx, legal)
    if steps is None:
        acc.extra["name_token_context_not_applicable"] += 1
        return
    if count_nt and not tok.isascii():
        acc.nt()
    for what, files, want in steps:
        got = observe_files(sch, files)
        acc.ev()
        acc.transitions += 1
        if what == "define":
            acc.cls("name-token %s legal=%s impl=%s" % (cls, legal, got[0]))
        elif got[0] == "ok":
            acc.extra["name_token_accepted_and_referred_to"] += 1
        bad = None
        if got[0] == "internal":
            bad = "internal-error"
        elif want == "refused":
            if got[0] == "ok":
                bad = "accepted-name-redefinable" if what == "redefine" else \
                    ("define-accepts-illegal-name" if cls == "definite" else "define-accepts-what-isname-refuses")
            elif got[0] not in ("syntax", "missing"):
                bad = "refusal-is-not-a-syntax-error"
        elif got != want:
            bad = "accepted-name-not-referable" if what == "refer" else \
                ("define-refuses-legal-name" if cls == "definite" else "define-refuses-what-isname-accepts")
        if bad:
            acc.violation("name-token", dict(case, files=files, isname=said), list(got),
                          want if want == "refused" else list(want), tags=dict(tags, what=bad),
                          size=len(tok) * 1000 + len(repr(files)))
            return
    acc.sample(lambda: dict(case, isname=said, legal=legal))


def sweep_shard(arg, acc):
    """arg = ('sweep', position, lo, hi): every scalar value lo..hi-1 at that position."""
    _, pos, lo, hi = arg
    sch = H.load_schema(SCHEMA)
    for cp in range(lo, hi):
        if 0xD800 <= cp <= 0xDFFF:
            continue
        tok = positioned(pos, chr(cp))
        acc.current = (pos, cp)
        judge_token(sch, tok, "plain", acc)
    acc.traces = acc.transitions
    return acc


def strings_shard(arg, acc):
    """arg = ('strings', tier, first character): every string of <= 3 characters over
    sigma(tier) that starts with it, in every context."""
    _, tier, c0 = arg
    sch = H.load_schema(SCHEMA)
    S = sigma(tier)
    toks = [c0] + [c0 + c for c in S] + [c0 + c + e for c in S for e in S]
    for tok in toks:
        for ctx in CONTEXTS:
            acc.current = (tok, ctx)
            judge_token(sch, tok, ctx, acc, count_nt=not (ctx == "plain" and sweep_shaped(tok)))
    acc.traces = acc.transitions
    return acc


def sweep_plan(tier):
    """-> {position: number of planes swept}."""
    if tier == "quick":
        return {"alone": 1, "first": 1, "middle": 1, "last": 2}
    return {p: 17 for p in POSITIONS}


def shard(arg, acc):
    if arg[0] == "bfs":
        return bfs_shard(arg[1:], acc)
    if arg[0] == "sweep":
        return sweep_shard(arg, acc)
    if arg[0] == "strings":
        return strings_shard(arg, acc)
    return session_shard(arg, acc)


def chunks(what, tier, n, k):
    step = max(1, -(-n // k))
    return [(what, tier, lo, min(n, lo + step)) for lo in range(0, n, step)]


def run(tier):
    global _PLAN
    depth = 4 if tier == "quick" else 6
    A = alphabet(tier)
    _PLAN = session_plan(tier)
    R, T1, T2, T3 = _PLAN
    # the differential side of a session: each text alone, first load on a new loader of
    # either class (computed once, before the workers are forked; the texts themselves
    # are compared with the reference by the 'singles' shards)
    sch = H.load_schema(SCHEMA)
    for tab in (T2, T3 or []):
        for t in tab:
            t.fresh = {k: session_load(make_loader(sch, k), t.files, "file") for k in ("plain", "extended")}
    ill = illegal_names()
    S = sigma(tier)
    plan = sweep_plan(tier)
    run = core.Run(
        "C05", tier, "model_checking",
        rule="(1) breadth-first search over histories of up to %d steps from an alphabet of %d events (%%define of 3 "
             "names in 2 spellings each x literal / empty / padded / $other / $$other / ${other}x / 'w $other' / '${other} w' values; %d tokens "
             "that are not names written in the NAME position of a %%define: %s - i.e. every '$'-form of every name "
             "where the name belongs, so that the refusal is explored after every history that has / has not "
             "defined the referenced name; uses of every spelling; enter / leave an %%include-d resource to depth "
             "2); state = (defines mapping of the reference model, include depth), each new state validated against "
             "the implementation by probing every name; every transition's files are loaded twice against one "
             "schema object and compared with the reference DefineSpace.  Search trees are rooted at each first "
             "event (shards), so histories are distinct.  (2) sessions = loads one after the other on ONE loader "
             "object: texts T1 / T2 = every history of 1 / <= 2 events over a reduced alphabet of %d events (2 names "
             "x 3 values in 2 spellings, an illegal name, 3 uses, enter / leave an include, and one event per way a "
             "load fails: scanner error, unknown key, resource that cannot be opened, value refused after the last "
             "line) = %d / %d texts, each also checked alone; %s.  Every load of a session must agree with the "
             "reference of its text alone AND equal (outcome and message) the first load of that text on a new "
             "loader of the same class (the ExtendedConfigLoader carries one override of an unrelated key, so its "
             "own schema matcher is in use).  (3) the NAME position by code point.  A token is 'definite' when the "
             "statement decides it (a legal ASCII name; or it holds a character that is neither an ASCII name "
             "character nor a letter / digit of another script; or it starts with an ASCII digit), 'open' when it "
             "is a would-be name with a letter / digit outside ASCII (the statement says 'letter'), 'delimiter' when "
             "it holds white space (totality only).  Oracle: legal := the reference verdict (definite; the public "
             "ZConfig.substitution.isname must say the same) or what isname says (open); '%%define N v' is accepted "
             "exactly when N is legal, otherwise refused as a syntax error; an accepted N is a member of the "
             "namespace: 'u $N' and 'u ${N}-' after it give v and v-, and '%%define N other' after it is refused.  "
             "(3a) sweep: every Unicode scalar value c as the token c / c+'a' / 'a'+c+'b' / 'a'+c: %s.  (3b) every "
             "string of 1..3 characters over %d characters (ASCII a B _ 1 - and one representative per class: small / "
             "capital letter, letter whose small form is ASCII (U+212A) or ASCII + mark (U+0130), letter with an ASCII "
             "two-letter capital, decimal / superscript / letter digit, ordinal mark, combining mark, joiner, "
             "identifier punctuation U+00B7, compatibility and non-BMP forms of 'a', ideograph, symbol, ligature) = "
             "%d tokens, each in %d contexts: alone in the text; after its longest ASCII-name prefix was defined "
             "with another value; defined in an included resource and used by the includer; defined twice with "
             "the same / another value; defined without a value.  (3c) the tokens %s are events of the search (1), "
             "i.e. tried after every reachable namespace state.  Non-trivial = history"
             " with >= 1 define and >= 1 use or redefinition; session whose first text "
             "has a define and whose last text a define or use; name token of (3) with a character outside ASCII "
             "(each token x context counted once)."
             % (depth, len(A), len(ill), " ".join(ill), len(R), len(T1), len(T2),
                "all ordered pairs over T2 on a plain ConfigLoader through loadFile; all ordered pairs over T1 on "
                "plain / loadURL, ExtendedConfigLoader / loadFile and loadURL, and on new loaders sharing the "
                "schema; all ordered triples over T1 on the plain loader" if tier == "quick" else
                "all ordered pairs over T2 and all ordered triples over T1 in each of 5 loader variants (plain or "
                "ExtendedConfigLoader x loadFile or loadURL, and new loaders sharing the schema); all pairs "
                "(first text of <= 3 events over the quick alphabet: %d texts) x T2 on the plain loader" % len(T3),
                "; ".join("%s: planes 0..%d" % (p, n - 1) for p, n in sorted(sweep_plan(tier).items())),
                len(S), len(S) + len(S) ** 2 + len(S) ** 3, len(CONTEXTS),
                " ".join(ascii(t) for t in BFS_TOKENS)),
        bounds={"depth": depth, "alphabet": len(A), "include_depth": 2, "name_position_tokens": len(ill),
                "session_alphabet": len(R), "session_texts_len1": len(T1), "session_texts_le2": len(T2),
                "session_texts_le3": len(T3) if T3 else 0, "session_lengths": [2, 3],
                "name_token_sweep_planes_per_position": plan,
                "name_token_sweep_excludes": "surrogate code points U+D800..U+DFFF",
                "name_token_alphabet": [ascii(c) for c in S], "name_token_string_length": 3,
                "name_token_contexts": list(CONTEXTS), "name_tokens_in_search": [ascii(t) for t in BFS_TOKENS],
                "loader_variants": ["%s/%s" % v for v in VARIANTS]},
        assumptions=["reference DefineSpace vz/ref/subst.py", "resources served in memory through the public "
                     "openResource override; relative include resolution is C06's subject",
                     "a load that must fail for a reason outside this property (unknown key, unopenable resource, "
                     "unconvertible value) is only required to raise a ConfigurationError"])
    shards = [("bfs", ev, depth, tier) for ev in A]
    shards += chunks("singles", tier, len(T2), 4)
    shards += chunks("pairs2", tier, len(T2), 64 if tier == "quick" else 256)
    if tier == "quick":           # (thorough: the pairs over T2 already run in every variant)
        shards += chunks("pairs1", tier, len(T1), 4)
    shards += chunks("triples1", tier, len(T1), len(T1))
    if T3:
        shards += chunks("pairs3", tier, len(T3), 512)
    for pos in POSITIONS:
        for lo in range(0, plan[pos] * 0x10000, 0x2000):
            shards.append(("sweep", pos, lo, lo + 0x2000))
    shards += [("strings", tier, c) for c in S]
    core.pmap(shard, shards, run.acc, shard_budget=3000.0)
    a = run.acc
    run.require(a.classes.get("ref=ok impl=ok", 0) > 500, "few accepted histories")
    run.require(a.classes.get("ref=syntax impl=syntax", 0) > 100, "few refused redefinitions")
    run.require(a.classes.get("ref=missing impl=missing", 0) > 100, "few undefined uses")
    run.require(a.extra.get("name_position_reference_to_a_legal_name", 0) > 200,
                "few %define lines whose name position refers to a name defined as a legal name")
    run.require(a.extra.get("name_position_reference_undefined", 0) > 200,
                "few %define lines whose name position refers to an undefined name")
    run.require(a.extra.get("sessions_text_after_refused_load_that_had_read_its_names", 0) > 1000,
                "few sessions in which a text follows a refused load that had read a definition of a name it mentions")
    run.require(a.classes.get("session after=refused ref=missing impl=missing", 0) > 1000,
                "few undefined uses after a refused load on the same loader")
    run.require(a.classes.get("session after=ok ref=ok impl=ok", 0) > 1000, "few accepted loads after accepted loads")
    swept = sum(plan.values()) * 0x10000 - len(POSITIONS) * 0x800
    run.require(a.extra.get("name_tokens_open", 0) + a.extra.get("name_tokens_definite", 0)
                + a.extra.get("name_tokens_delimiter", 0) == swept + len(CONTEXTS) * (len(S) + len(S) ** 2 + len(S) ** 3),
                "the code point sweep / the token strings did not run completely")
    run.require(a.classes.get("name-token open legal=False impl=syntax", 0) > 150000,
                "few name tokens with a letter / digit outside ASCII that isname() and %define refuse alike")
    run.require(a.classes.get("name-token definite legal=False impl=syntax", 0) > 100000,
                "few name tokens that the statement refuses")
    run.require(a.classes.get("name-token definite legal=True impl=ok", 0) > 200
                and a.extra.get("name_token_accepted_and_referred_to", 0) > 200,
                "few legal name tokens that were defined and then referred to")
    run.require(a.extra.get("bfs_non_ascii_name_after_its_ascii_prefix_was_defined", 0) > 1000
                and a.extra.get("bfs_non_ascii_name_after_its_ascii_prefix_was_undefined", 0) > 1000,
                "few histories that end in a %define of a name with a character outside ASCII")
    for v in VARIANTS:
        run.require(a.extra.get("sessions_%s_%s_len2" % v, 0) >= len(T1) * len(T1), "loader variant %s/%s not run" % v)
    return run


def replay(body):
    case = body["case"]
    sch = H.load_schema(SCHEMA)
    if "session" in case:
        return replay_session(sch, case)
    if "name_token" in case:
        return replay_token(sch, case)
    hist = tuple(tuple(e) for e in case["history"])
    rc = 0
    for _ in range(2):
        files = build_files(hist)
        for u, t in files.items():
            print("--- %s\n%s" % (u, t), end="")
        got = observe(sch, files)
        exp = reference(hist)[0]
        print("observed:", got, " reference:", exp)
        if any(e[0] == "def" and token_class(e[1])[0] == "open" for e in hist):
            # judged by consistency with isname(): run the check's own verdict on the history
            # up to and including that %define
            n = [i for i, e in enumerate(hist) if e[0] == "def" and token_class(e[1])[0] == "open"][0]
            acc = core.Acc()
            check(sch, hist[:n + 1], acc)
            for v in acc.violations.values():
                print("isname(%s) = %s;" % (ascii(hist[n][1]), impl_isname(hist[n][1])), v["tags"].get("what"),
                      "observed:", v["observed"], "expected:", v["expected"])
                rc = 1
        elif exp[0] != "unspec" and not agrees(got, exp, hist):
            rc = 1
    return rc


def replay_token(sch, case):
    tok, ctx = case["name_token"], case["context"]
    rc = 0
    for _ in range(2):
        acc = core.Acc()
        cls, verdict = token_class(tok)
        print("token %s (%s) context=%s class=%s reference verdict=%s isname()=%s" % (
            ascii(tok), " ".join("U+%04X" % ord(c) for c in tok), ctx, cls, verdict, impl_isname(tok)))
        judge_token(sch, tok, ctx, acc)
        for v in acc.violations.values():
            for u, x in v["case"].get("files", {}).items():
                print("--- %s\n%s" % (u, x), end="")
            print(v["tags"].get("what"), "observed:", v["observed"], "expected:", v["expected"])
            rc = 1
    return rc


def replay_session(sch, case):
    ts = [Text(tuple(tuple(e) for e in h)) for h in case["session"]]
    kind, entry = case["variant"]
    rc = 0
    for _ in range(2):
        ld = None if kind == "fresh" else make_loader(sch, kind)
        for i, t in enumerate(ts):
            alone = session_load(make_loader(sch, "extended" if kind == "extended" else "plain"), t.files, "file")
            got = session_load(make_loader(sch, "plain") if ld is None else ld, t.files, entry)
            print("=== load %d of the session (%s loader, %s)" % (i + 1, kind, entry))
            for u, x in t.files.items():
                print("--- %s\n%s" % (u, x), end="")
            print("observed:", got, "\nalone on a new loader:", alone, "\nreference:", t.exp)
            if got[0][0] == "internal" or got != alone or \
                    (t.exp[0] != "unspec" and not agrees(got[0], t.exp, t.hist, t.at)):
                rc = 1
    return rc
