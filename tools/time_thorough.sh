#!/bin/bash
# time_thorough.sh OUT CHECK... : run thorough tiers one after the other (evidence goes to a scratch dir), log rc, wall, cpu
out=$1; shift
mkdir -p /dev/shm/thorough_out
for c in "$@"; do
  s=$(date +%s)
  VZ_OUT=/dev/shm/thorough_out /usr/bin/time -f "%U user %S sys" -o /dev/shm/thorough_out/$c.time timeout ${THOROUGH_CAP:-3600} /verif/check $c --tier thorough --jobs ${JOBS:-4} > /dev/shm/thorough_out/$c.log 2> /dev/shm/thorough_out/$c.err
  rc=$?
  e=$(date +%s)
  echo "$c rc=$rc wall=$((e-s))s jobs=${JOBS:-4} cpu=[$(tail -1 /dev/shm/thorough_out/$c.time)] $(tail -1 /dev/shm/thorough_out/$c.log | cut -c1-160)" >> $out
done
