"""C14 - command-line overrides act like editing the addressed keys in the text.

Engine E3 (deviation-bounded): seeds are the accepted texts of corpus T that hold
at least one section; for each seed a specifier alphabet is derived from its
section tree and the schema model (existing / absent / disallowed / wildcard
keys, by section name / by type / in mixed case, at every depth, convertible /
unconvertible / empty / '$'-holding values, absent sections, malformed
specifiers); ALL lists of <= n specifiers are tried.  Oracle: differential -
loadConfigFile(S, T, overrides=L) vs loadConfigFile(S, edit(T, L)) where edit()
is computed on the event tree by the rule in the statement - cross-checked with
the reference conformance model on the edited text.
"""
import itertools

from vz import core
from vz.gen import corpus as C
from vz.gen import schema as M
from vz.harness import load as H
from vz.ref import match as R


class Node:
    def __init__(self, type_, name):
        self.type = type_
        self.name = name
        self.children = []      # ('k', key, value) tuples and Node objects
        self.over = []          # [(key, value)] overrides addressed to this container


def to_tree(events):
    top = Node(None, None)
    st = [top]
    for ev in events:
        if ev[0] == "k":
            st[-1].children.append(ev)
        elif ev[0] in ("o", "e"):
            n = Node(ev[1], ev[2])
            st[-1].children.append(n)
            if ev[0] == "o":
                st.append(n)
        elif ev[0] == "c":
            st.pop()
    return top


def to_events(node, out=None, top=True):
    out = [] if out is None else out
    for ch in node.children:
        if isinstance(ch, Node):
            out.append(("o", ch.type, ch.name))
            to_events(ch, out, False)
            out.append(("c",))
        else:
            out.append(ch)
    return out


class MustReject(Exception):
    pass


def parse_spec(spec):
    """-> (components, value) or raises MustReject for specifiers that must be
    refused when they are added."""
    if "=" not in spec:
        raise MustReject("no-equals")
    path, val = spec.split("=", 1)
    comps = path.split("/")
    if "" in comps:
        raise MustReject("empty-component")
    return comps, val


def edit(S, events, specs):
    """The statement's rule, on the event tree.  Returns the edited event list;
    raises MustReject where the statement says the load is rejected."""
    top = to_tree(events)
    for spec in specs:
        comps, val = parse_spec(spec)
        node = top
        for comp in comps[:-1]:
            bk = R.kt_basic_key(comp)
            hit = None
            for ch in node.children:
                if isinstance(ch, Node):
                    if (ch.name and comp.lower() == ch.name.lower()) or (bk is not None and bk == ch.type.lower()):
                        hit = ch
                        break
            if hit is None:
                raise MustReject("section-not-present")
            node = hit
        node.over.append((comps[-1], val))

    def apply(node):
        kt = R.KEYTYPES[M.eff_keytype(S, node.type.lower() if node.type else None)]
        if node.over:
            norm = []
            for k, v in node.over:
                nk = kt(k)
                if nk is None:
                    raise MustReject("key-refused-by-keytype")
                norm.append(nk)
            kept = []
            for ch in node.children:
                if not isinstance(ch, Node) and kt(ch[1]) in norm:
                    continue
                kept.append(ch)
            for k, v in node.over:
                kept.append(("k", k, v.replace("$", "$$")))
            node.children = kept
        for ch in node.children:
            if isinstance(ch, Node):
                apply(ch)
    apply(top)
    return to_events(top)


def spec_alphabet(S, events):
    """Specifiers derived from the seed's section tree and the schema model."""
    top = to_tree(events)
    specs = []
    paths = [((), top)]

    def walk(node, prefix, depth):
        seen_first = set()
        for ch in node.children:
            if isinstance(ch, Node):
                variants = []
                if ch.name:
                    variants += [ch.name, ch.name.upper()]
                variants += [ch.type, ch.type.upper()]
                for v in variants:
                    paths.append((prefix + (v,), ch))
                if depth < 3:
                    walk(ch, prefix + (ch.name or ch.type,), depth + 1)
    walk(top, (), 1)
    for prefix, node in paths:
        tname = node.type.lower() if node.type else None
        if tname is not None and tname not in M.type_table(S):
            continue
        items = M.eff_items(S, tname)
        declared = [(it.name, it.datatype) for it in items if isinstance(it, (M.Key, M.MultiKey)) and it.name != "+"]
        wild = [it for it in items if M.is_wild(it)]
        keys = []
        for nm, dt in declared:
            toks = M.VALUE_TOKENS[dt]
            vals = [toks[0], ""]
            bad = [t for t in toks if R.convert(dt, t) is R.BAD]
            if bad:
                vals.append(bad[0])
            if dt == "string":
                # every metacharacter of the specifier syntax inside the VALUE ("verbatim"): '$', '=', '/'
                vals += ["a$b", "p=q", "$$x", "p/q", "/r/s", "u/v=w"]
            for v in vals:
                keys.append((nm, v))
            keys.append((nm.upper(), toks[0]))
        keys.append(("qq", "v"))
        if wild:
            keys.append(("zz", M.VALUE_TOKENS[wild[0].datatype][0]))
        keys.append(("1x", "v"))
        for k, v in keys:
            specs.append("/".join(prefix + (k,)) + "=" + v)
    specs.append("nosuch/k1=v")
    specs.append("1/k1=v")
    first = [p for p, n in paths if p]
    if first:
        specs.append("/".join(first[0]) + "/nosuch/k1=v")
        specs.append("/".join(first[0]) + "//k1=v")
    specs += ["k1", "/k1=v", "=v"]
    out = []
    for s in specs:
        if s not in out:
            out.append(s)
    return out


def same_target_groups(S, events, specs):
    """Groups of specifiers (distinct values) addressing one key of one section node through
    different path spellings."""
    top = to_tree(events)
    groups = {}
    for sp in specs:
        try:
            comps, val = parse_spec(sp)
        except MustReject:
            continue
        if len(comps) < 2 or val == "":
            continue
        node = top
        ok = True
        for comp in comps[:-1]:
            bk = R.kt_basic_key(comp)
            hit = None
            for ch in node.children:
                if isinstance(ch, Node) and ((ch.name and comp.lower() == ch.name.lower()) or
                                             (bk is not None and bk == ch.type.lower())):
                    hit = ch
                    break
            if hit is None:
                ok = False
                break
            node = hit
        if ok:
            groups.setdefault((id(node), comps[-1].lower()), []).append((tuple(comps[:-1]), sp))
    out = []
    for (_, key), members in groups.items():
        # one specifier per distinct path spelling, each with its own value so that order is observable
        seen, g = set(), []
        for i, (path, sp) in enumerate(members):
            if path in seen:
                continue
            seen.add(path)
            g.append(sp.split("=", 1)[0] + "=" + ("%d" % (i + 1) if sp.split("=", 1)[1].isdigit() else "val%d" % (i + 1)))
        if len(g) >= 2:
            out.append(g[:5])
    return out[:6]


def outcome(obs):
    if obs[0] == "ok":
        return ("tree", H.tree(obs[1]))
    if obs[0] == "rejected":
        return ("rejected", type(obs[1]).__name__)
    return ("internal", core.exc_desc(obs[1]))


def load_twice_on_one_loader(sch, text, specs, text2):
    """One ExtendedConfigLoader object carrying the overrides serves two loads (text, then text2).
    -> (outcome of load 1, outcome of load 2), or ('add-refused', exc) when a specifier is refused."""
    import io
    import ZConfig
    import ZConfig.cmdline
    ld = ZConfig.cmdline.ExtendedConfigLoader(sch)
    try:
        for sp in specs:
            ld.addOption(sp)
    except ZConfig.ConfigurationError as e:
        return None
    except Exception as e:
        return None
    out = []
    for t in (text, text2):
        try:
            cfg, h = ld.loadFile(io.StringIO(t), H.URL)
            out.append(("ok", cfg, h))
        except ZConfig.ConfigurationError as e:
            out.append(("rejected", e, None))
        except Exception as e:
            out.append(("internal", e, None))
    return out


def check_reload(sch, text, specs, text2, acc, mid):
    """The same override list must act on EVERY load made through the loader that carries it."""
    r = load_twice_on_one_loader(sch, text, specs, text2)
    if r is None:
        return
    acc.ev()
    acc.transitions += 1
    acc.nt()
    first, second = outcome(r[0]), outcome(r[1])
    # (the first load on a new loader is what loadConfigFile(..., overrides=) does: compared by check_list)
    want2 = outcome(H.load(sch, text2, overrides=list(specs)))
    acc.cls("reload:%s/%s" % (second[0], want2[0]))
    case = {"member": mid, "text": text, "overrides": list(specs), "second_text": text2}
    if second != want2:
        acc.violation("second-load-on-same-loader-differs", case, [second[0], repr(second[1])[:300]],
                      [want2[0], repr(want2[1])[:300]], tags={"kind": "loader-reuse", "step": 2,
                                                               "first": first[0], "second": second[0]})


def check_list(S, sch, events, text, specs, acc, mid, resolved_any):
    import ZConfig
    acc.ev()
    acc.current = (text, specs)
    case = {"member": mid, "text": text, "overrides": list(specs)}
    obs = outcome(H.load(sch, text, overrides=list(specs)))
    try:
        edited = edit(S, events, specs)
        exp_reject = None
    except MustReject as e:
        edited = None
        exp_reject = str(e)
    if resolved_any:
        acc.nt()
    acc.sample(lambda: dict(case, edited=H.render_events(edited) if edited is not None else "must be rejected: " + exp_reject))
    if obs[0] == "internal":
        acc.cls("internal")
        acc.violation("internal-error", case, obs[1], "tree or configuration error",
                      tags={"kind": "internal-error", "exc": obs[1]["class"], "where": obs[1]["where"]})
        return
    if exp_reject is not None:
        acc.cls("must-reject:" + exp_reject)
        if obs[0] != "rejected":
            acc.violation("override-accepted-but-must-be-rejected", case, "accepted", exp_reject,
                          tags={"kind": "must-reject", "why": exp_reject})
        elif exp_reject in ("no-equals", "empty-component") and obs[1] != "ConfigurationSyntaxError":
            acc.violation("malformed-specifier-wrong-error", case, obs[1], "ConfigurationSyntaxError",
                          tags={"kind": "malformed-specifier-error-class"})
        return
    etext = H.render_events(edited)
    exp = outcome(H.load(sch, etext))
    ref = R.decide(S, edited)
    acc.cls("edit:%s override:%s" % (exp[0], obs[0]))
    if ref.verdict != "U":
        want = "tree" if ref.verdict == "A" else "rejected"
        if exp[0] != want:
            acc.extra["edited_text_disagrees_with_reference(C01's)"] += 1
            return
    if exp[0] == "internal":
        return
    if obs[0] != exp[0] or (obs[0] == "tree" and obs[1] != exp[1]):
        acc.violation("override-differs-from-edited-text", dict(case, edited=etext),
                      [obs[0], repr(obs[1])[:300]], [exp[0], repr(exp[1])[:300]],
                      tags={"kind": "differs", "override": obs[0], "edited": exp[0]})
        return
    if len(specs) == 1 and exp[0] == "rejected" and exp[1] == "DataConversionError" and ref.clause == "value-unconvertible":
        if obs[1] != "DataConversionError":
            acc.violation("unconvertible-override-not-a-conversion-error", case, obs[1], "DataConversionError",
                          tags={"kind": "conversion-error-class"})


def shard(member, acc):
    name, S, root, depth, lean, tier = member
    xml = M.render(S)
    sch = H.load_schema(xml)
    mid = {"name": name, "schema": xml}
    nseeds = 0
    prev_text = None
    maxseeds = 40 if tier == "quick" else 100
    pair_alpha = 8 if tier == "quick" else 12
    for events, d in C.nodes(S, root, depth, lean):
        if d.verdict != "A" or not any(e[0] in ("o", "e") for e in events):
            continue
        if len(events) < 2:
            continue
        text = H.render_events(events)
        if H.load(sch, text)[0] != "ok":
            acc.extra["seed_disagreements"] += 1
            continue
        nseeds += 1
        if nseeds > maxseeds:
            acc.extra["seeds_beyond_bound_not_used"] += 1
            continue
        acc.states += 1
        specs = spec_alphabet(S, events)
        resolves = {}
        for s in specs:
            try:
                comps, _ = parse_spec(s)
                edit(S, events, [s])
                resolves[s] = len(comps) > 1
            except MustReject:
                resolves[s] = False
        for s in specs:
            check_list(S, sch, events, text, (s,), acc, mid, resolves[s])
            acc.transitions += 1
        # one loader object, two loads: the same text again, and the previous seed of this schema
        for s in specs:
            if resolves[s] or "/" not in s.split("=", 1)[0]:
                check_reload(sch, text, (s,), text, acc, mid)
                if prev_text is not None:
                    check_reload(sch, prev_text, (s,), text, acc, mid)
        prev_text = text
        # pairs (and triples in the thorough tier) over a sub-alphabet chosen to interact
        sub = [s for s in specs if resolves[s]][:pair_alpha // 2] + [s for s in specs if not resolves[s]][:pair_alpha // 2]
        for a, b in itertools.product(sub, repeat=2):
            check_list(S, sch, events, text, (a, b), acc, mid, resolves[a] or resolves[b])
            acc.transitions += 1
        # every pair / triple of specifiers that reach the SAME key of the SAME section through different
        # spellings of the path (by name, by type, upper case), with distinct values: order, dropping and
        # consumption interact exactly there
        for group in same_target_groups(S, events, specs):
            for a, b in itertools.permutations(group, 2):
                check_list(S, sch, events, text, (a, b), acc, mid, True)
                acc.transitions += 1
            if len(group) >= 3:
                for tr in itertools.permutations(group[:4], 3):
                    check_list(S, sch, events, text, tr, acc, mid, True)
                    acc.transitions += 1
        if tier != "quick":
            sub3 = sub[:5]
            for tr in itertools.product(sub3, repeat=3):
                check_list(S, sch, events, text, tr, acc, mid, any(resolves[x] for x in tr))
                acc.transitions += 1
            if nseeds <= 12:
                for q in itertools.product(sub3[:5], repeat=4):
                    check_list(S, sch, events, text, q, acc, mid, any(resolves[x] for x in q))
                    acc.transitions += 1
    acc.traces = acc.transitions
    return acc


def mixed_keytype_members(tier):
    """Containers whose key type differs from the schema's (and from the intermediate section's): the key of a
    specifier must be normalised by the key type of the section it ADDRESSES."""
    out = []
    env = M.type_env()
    for lab, items in M.selections(1, full=(tier != "quick")):
        if not items or isinstance(items[0], M.Sect):
            continue
        for p in (1, 2):
            for skt, ckt in ((None, "identifier"), ("identifier", None), ("identifier", "vz.harness.dt.lower_key")):
                S, root = M.place(items, p, env, cut_keytype=ckt, schema_keytype=skt)
                out.append(("+".join(lab) + "@%d[schema:%s,cut:%s]" % (p, skt, ckt), S, tuple(root), 3, False))
    return out


def run(tier):
    # both tiers use the quick schema family (the full two-item family x 150 seeds x triples is > 5 CPU-hours);
    # the thorough tier goes deeper per schema: more seeds, triples, quadruples
    base = C.members("quick")
    mem = [m + (tier,) for m in base] + [m + (tier,) for m in mixed_keytype_members(tier)]
    run = core.Run(
        "C14", tier, "model_checking",
        rule="seeds = accepted texts of corpus T (reference BFS over the schema family, two rich schemas, and every key-like "
             "item one / two levels down under a key type that differs from the schema's: basic-key vs identifier vs a "
             "custom lower-casing key type) with "
             ">= 1 section, at most %s per schema; per seed a specifier alphabet derived from its section tree "
             "(every section by name / type / upper case to depth 3 x declared, absent, unknown, wildcard and "
             "key-type-refused keys x convertible / empty / unconvertible / '$' / '=' values, absent sections, "
             "malformed specifiers); all single specifiers, all ordered pairs over an interacting sub-alphabet "
             "(thorough: triples, quadruples on the first seeds); every resolving single specifier also on ONE loader object "
             "serving two loads (the same text again; the previous seed of the schema, then this one), each "
             "load compared with a fresh loader's.  states = seeds, transitions = override lists "
             "loaded.  Non-trivial = list with >= 1 specifier that resolves to an existing section."
             % ("40" if tier == "quick" else "100"),
        bounds={"members": len(mem), "max_list": 2 if tier == "quick" else 4,
                "thorough_family": "the quick schema family; 100 seeds per schema, triples over 5 specifiers, "
                                   "quadruples on the first 12 seeds of each schema"},
        assumptions=["edit() in vz/props/c14.py implements the statement's rule on the event tree",
                     "override values restricted to strings the text syntax can express"])
    core.pmap(shard, mem, run.acc, shard_budget=3000.0)
    a = run.acc
    run.require(a.classes.get("edit:tree override:tree", 0) > 200, "few accepted override loads")
    run.require(a.classes.get("edit:rejected override:rejected", 0) > 100, "few rejected override loads")
    run.require(a.classes.get("reload:tree/tree", 0) > 1000 and a.classes.get("reload:rejected/rejected", 0) > 100,
                "loader re-use hardly exercised")
    return run


def replay(body):
    case = body["case"]
    rc = 0
    for _ in range(2):
        sch = H.load_schema(case["member"]["schema"])
        obs = outcome(H.load(sch, case["text"], overrides=case["overrides"]))
        print("text:\n" + case["text"] + "overrides:", case["overrides"])
        print("observed with overrides:", obs[0], repr(obs[1])[:300])
        if "second_text" in case:
            r = load_twice_on_one_loader(sch, case["text"], case["overrides"], case["second_text"])
            second = outcome(r[1])
            want2 = outcome(H.load(sch, case["second_text"], overrides=case["overrides"]))
            print("second load on the same loader:", second[0], repr(second[1])[:300])
            print("same load on a fresh loader:   ", want2[0], repr(want2[1])[:300])
            rc = 1 if second != want2 else rc
        elif "edited" in case:
            exp = outcome(H.load(sch, case["edited"]))
            print("edited text:\n" + case["edited"] + "observed on edited text:", exp[0], repr(exp[1])[:300])
            if obs != exp:
                rc = 1
        else:
            print("expected:", body["expected"])
            if obs[0] != "rejected" or body["kind"] in ("malformed-specifier-wrong-error",
                                                        "unconvertible-override-not-a-conversion-error"):
                rc = 1 if (obs[0] != "rejected" or obs[1] != body["expected"]) else 0
    return rc
