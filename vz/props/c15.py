"""C15 - the result of a load does not depend on how the text is laid out.

Engine E3 as a breadth-first search over rewrite applications: from every seed
text ALL applications of the layout rewrites named in the statement are applied,
to depth d, deduplicating texts; every text reached is loaded and must give the
seed's value tree, or be rejected if the seed is.  Seeds: corpus T (accepted and
rejected), %define texts, configurations for the shipped logger and
basic-mapping components.

Key-type axis (wave 2): a generated schema family in which every container of one
configuration has its own key type (every assignment over a small alphabet), the
same raw key spellings are written under all of them, the key-case rewrite is
permitted per line (only where the enclosing container's key type is
case-insensitive), and every (seed, rewrite closure) is loaded in both orders,
each order in a freshly forked process that has not loaded anything before - so
that state kept between key lines, between sections, or between loads cannot
hide behind a fixed load order.

Whitespace axis (wave 5): the breadth-first search writes ONE indentation, ONE
trailing string and always terminates the last line.  Here a strided subset of the
seeds is written under every line-termination form (LF / CRLF, last line
terminated or not) and, under each form, with every whitespace string of a small
alphabet before / after / around every line, every blank-line content and
several comment forms at every position (one line at a time).

Derivation axis (wave 5): the containers of the key-type family get their
declarations and their key type either directly or through `extends` from a base
type with a key type of its own (inherited or overridden), every combination;
the key-case rewrite follows the EFFECTIVE key type of the enclosing container.
"""
import itertools

from vz import core
from vz.gen import corpus as C
from vz.gen import schema as M
from vz.harness import load as H
from vz.ref import match as R

# ---------------------------------------------------------------------------
# line classification (layout level only)


def classify(line):
    s = line.strip()
    if s == "":
        return "blank"
    if s[0] == "#":
        return "comment"
    if s[:2] == "</":
        return "close"
    if s[0] == "<":
        return "empty" if s.endswith("/>") else "open"
    if s[0] == "%":
        w = s[1:].split(None, 1)
        return "define" if w and w[0] == "define" else "directive"
    return "key"


def flip(s):
    """ASCII letter-case flip that changes something if there is a letter."""
    t = s.upper()
    return t if t != s else s.lower()


def header_parts(s):
    s = s.strip()
    body = s[1:-2] if s.endswith("/>") else s[1:-1]
    parts = body.split()
    return parts[0], (parts[1] if len(parts) > 1 else None)


def keycase_by_line(lines, kinds, keycase):
    """Per line: may the letter case of a key on this line be changed?  `keycase` is a bool (the same answer
    for every container of the text) or a map {section type name in lower case, None for the top level:
    bool} saying which containers have a case-insensitive key type; the container of a line is found by
    following the openers / closers above it (layout level only; unknown types: no)."""
    if not isinstance(keycase, dict):
        return [bool(keycase)] * len(lines)
    out, st = [], [None]
    for l, k in zip(lines, kinds):
        out.append(bool(keycase.get(st[-1], False)))
        if k == "open":
            st.append(header_parts(l)[0].lower())
        elif k == "close" and len(st) > 1:
            st.pop()
    return out


def rewrites(lines, keycase_ok):
    """Yield (label, new_lines) for every single rewrite application."""
    n = len(lines)
    kinds = [classify(l) for l in lines]
    kc_line = keycase_by_line(lines, kinds, keycase_ok)
    for i in range(n):
        if kinds[i] != "blank":
            yield "indent", lines[:i] + ["\t  " + lines[i]] + lines[i + 1:]
            yield "indent-unicode-space", lines[:i] + ["\u2003 " + lines[i]] + lines[i + 1:]
            yield "trailing", lines[:i] + [lines[i] + " \t "] + lines[i + 1:]
    for i in range(n + 1):
        yield "blank", lines[:i] + [""] + lines[i:]
        yield "comment", lines[:i] + ["  # a <comment> %line $x"] + lines[i:]
    for i in range(n):
        k = kinds[i]
        s = lines[i].strip()
        ind = lines[i][:len(lines[i]) - len(lines[i].lstrip())]
        if k in ("open", "empty"):
            t, nm = header_parts(s)
            tail = "/>" if k == "empty" else ">"
            yield "type-case", lines[:i] + ["%s<%s%s%s" % (ind, flip(t), " " + nm if nm else "", tail)] + lines[i + 1:]
            if nm:
                yield "name-case", lines[:i] + ["%s<%s %s%s" % (ind, t, flip(nm), tail)] + lines[i + 1:]
            if k == "empty":
                yield "empty-to-pair", lines[:i] + ["%s<%s%s>" % (ind, t, " " + nm if nm else ""),
                                                     "%s</%s>" % (ind, t)] + lines[i + 1:]
            elif i + 1 < n and kinds[i + 1] == "close":
                yield "pair-to-empty", lines[:i] + ["%s<%s%s/>" % (ind, t, " " + nm if nm else "")] + lines[i + 2:]
        elif k == "close":
            t = s[2:-1].strip()
            yield "type-case", lines[:i] + ["%s</%s>" % (ind, flip(t))] + lines[i + 1:]
        elif k == "define":
            w = s.split(None, 2)
            if len(w) >= 2:
                yield "define-case", lines[:i] + [ind + " ".join([w[0], flip(w[1])] + w[2:])] + lines[i + 1:]
        elif k == "key":
            w = s.split(None, 1)
            if kc_line[i]:
                yield "key-case", lines[:i] + [ind + " ".join([flip(w[0])] + w[1:])] + lines[i + 1:]
        if k in ("key", "define", "directive") and "$" in s:
            # flip the case of every $name / ${name} reference (not of '$$')
            out, j, changed = [], 0, False
            while j < len(s):
                c = s[j]
                if c == "$" and j + 1 < len(s) and s[j + 1] == "$":
                    out.append("$$")
                    j += 2
                    continue
                if c == "$" and j + 1 < len(s) and (s[j + 1].isalpha() or s[j + 1] in "_{") and \
                        not (k != "key" and j < len(s.split(None, 1)[0])):
                    e = j + 1
                    if s[e] == "{":
                        e += 1
                    b = e
                    while e < len(s) and (s[e].isalnum() or s[e] == "_"):
                        e += 1
                    out.append(s[j:b] + flip(s[b:e]))
                    changed = changed or flip(s[b:e]) != s[b:e]
                    j = e
                    continue
                out.append(c)
                j += 1
            if changed:
                yield "reference-case", lines[:i] + [ind + "".join(out)] + lines[i + 1:]
    for i in range(n - 1):
        if kinds[i] == "key" and kinds[i + 1] == "key":
            a = lines[i].split()[0]
            b = lines[i + 1].split()[0]
            if a.lower() != b.lower():
                yield "swap-keys", lines[:i] + [lines[i + 1], lines[i]] + lines[i + 2:]


REDUCED = ("indent", "blank", "type-case", "name-case", "empty-to-pair", "pair-to-empty", "swap-keys",
           "key-case", "define-case", "reference-case")


def outcome(sch, text):
    r = H.load(sch, text)
    if r[0] == "ok":
        return ("tree", H.tree(r[1]))
    if r[0] == "rejected":
        return ("rejected",)
    return ("internal", core.exc_desc(r[1]))


def explore_seed(sch, seed_text, keycase_ok, depth, acc, mid, reduced_depth=0):
    base = outcome(sch, seed_text)
    acc.ev()
    if base[0] == "internal":
        acc.extra["seed_internal_errors(C07's)"] += 1
        return
    seed_lines = seed_text.rstrip("\n").split("\n") if seed_text.strip("\n") else []
    seen = {tuple(seed_lines)}
    frontier = [(seed_lines, ())]
    acc.cls("seed-" + base[0])
    for level in range(max(depth, reduced_depth)):
        nxt = []
        for lines, path in frontier:
            for label, new in rewrites(lines, keycase_ok):
                if level >= depth and label not in REDUCED:
                    continue
                key = tuple(new)
                if key in seen:
                    continue
                seen.add(key)
                text = "\n".join(new) + "\n"
                acc.current = text
                got = outcome(sch, text)
                acc.ev()
                acc.transitions += 1
                if [l.strip() for l in new if l.strip()] != [l.strip() for l in seed_lines if l.strip()]:
                    acc.nt()
                p2 = path + (label,)
                acc.sample(lambda: {"member": mid["name"], "seed": seed_text, "rewrites": list(p2), "text": text})
                acc.cls("rewritten-" + got[0])
                if got != base:
                    acc.violation("layout-changes-outcome",
                                  {"member": mid, "seed": seed_text, "rewrites": list(p2), "text": text},
                                  [got[0], repr(got[1:])[:300]], [base[0], repr(base[1:])[:300]],
                                  tags={"kind": "layout", "rewrite": label if got[0] != "internal" else "internal",
                                        "seed": base[0], "got": got[0]})
                    continue
                if level + 1 < max(depth, reduced_depth):
                    nxt.append((new, p2))
        frontier = nxt
    acc.states += len(seen)
    acc.traces = acc.transitions


# ---------------------------------------------------------------------------
# the key-type axis: every container of one configuration carries its own key type, the same raw key
# spellings are used under all of them, and every (seed, rewrite closure) is loaded in both orders, each
# order in a process in which no configuration has been loaded before.

CI_KEYTYPES = ("basic-key", "ipaddr-or-hostname")       # documented as lower-casing their input
KT_ALPHABET = {"quick": (None, "identifier", "ipaddr-or-hostname"),           # None: the default, basic-key
               "thorough": (None, "identifier", "ipaddr-or-hostname", "dotted-name", "string")}
KT_SPELLINGS = {"quick": ("Level", "Zz"), "thorough": ("Level", "level", "LEVEL", "Zz")}
# slot -> (container type or None for the top level, value)
KT_SLOTS = (("T", None, "1"), ("P", "p", "2"), ("Q1", "q", "3"), ("Q2", "q", "4"), ("T2", None, "5"))
KT_ORDERS = ("seed-first", "seed-last")
CASESET = ("key-case", "type-case", "name-case", "empty-to-pair", "pair-to-empty", "swap-keys")
KT_CHUNKS = 4


def kt_schema(kt_top, kt_p, kt_q):
    """Three containers (the schema, <p> in it, <q> in <p> and in the schema) that all declare a key spelt
    'Level'; p and q have a wildcard map (so an unknown key is stored), the schema has none (so it is refused)."""
    q = M.SType("q", (M.Key("Level", "integer", default="0"), M.MultiKey("+", attribute="extra")), keytype=kt_q)
    p = M.SType("p", (M.Key("Level", default="d"), M.MultiKey("Mk"),
                      M.Sect("*", "q", attribute="qs", multi=True), M.Key("+", attribute="extra")), keytype=kt_p)
    return M.Schema(types=(q, p), keytype=kt_top,
                    items=(M.Key("Level", default="t"), M.MultiKey("Mk"),
                           M.Sect("*", "p", attribute="ps", multi=True), M.Sect("*", "q", attribute="qs", multi=True)))


def kt_seeds(tier):
    """Every way of writing a key line into one or two of the 4 (thorough: 5) slots of a fixed skeleton, each
    with every spelling.  -> list of (label, text, {spelling: set of containers})"""
    nslots = 4 if tier == "quick" else 5
    maxfill = 2
    sp = KT_SPELLINGS[tier]
    out = []
    for nf in range(1, maxfill + 1):
        for slots in itertools.combinations(range(nslots), nf):
            for spell in itertools.product(sp, repeat=nf):
                fill = dict(zip(slots, spell))

                def ln(i, ind):
                    return [ind + "%s %s" % (fill[i], KT_SLOTS[i][2])] if i in fill else []
                lines = ln(0, "") + ["<p N1>"] + ln(1, "  ") + ["  <q>"] + ln(2, "    ") + ["  </q>", "</p>", "<q>"] + \
                    ln(3, "  ") + ["</q>"] + (ln(4, "") if nslots > 4 else [])
                used = {}
                for i, w in fill.items():
                    used.setdefault(w, set()).add(KT_SLOTS[i][1])
                label = "+".join("%s=%s" % (KT_SLOTS[i][0], fill[i]) for i in slots)
                out.append((label, "\n".join(lines) + "\n", used))
    return out


def closure(seed_lines, keycase, depth_all, depth_sub, sub):
    """All texts reachable by <= depth_all applications of any rewrite, and all texts reachable by <= depth_sub
    applications of the rewrites in `sub` alone, in breadth-first order, deduplicated, without the seed.
    Pure text manipulation: nothing is loaded."""
    seen = {tuple(seed_lines)}
    frontier = [(seed_lines, ())]
    out = []
    top = max(depth_all, depth_sub)
    for level in range(top):
        nxt = []
        for lines, path in frontier:
            for label, new in rewrites(lines, keycase):
                if level >= depth_all and (label not in sub or any(x not in sub for x in path)):
                    continue
                key = tuple(new)
                if key in seen:
                    continue
                seen.add(key)
                out.append((new, path + (label,)))
                if level + 1 < top:
                    nxt.append((new, path + (label,)))
        frontier = nxt
    return out


def isolated(func, arg):
    """func(arg) in a forked child of this process; the result comes back pickled.  The callers never load a
    configuration (nor a schema) themselves, so every child starts from the state the interpreter had when the
    check started: whatever the code under test keeps between loads is empty."""
    import os
    import pickle
    import signal
    import traceback
    r, w = os.pipe()
    pid = os.fork()
    if pid == 0:
        status = 1
        try:
            os.close(r)
            signal.setitimer(signal.ITIMER_REAL, 0)
            try:
                out = ("ok", func(arg))
            except BaseException:
                out = ("err", traceback.format_exc())
            with os.fdopen(w, "wb") as f:
                pickle.dump(out, f, protocol=pickle.HIGHEST_PROTOCOL)
            status = 0
        finally:
            os._exit(status)
    os.close(w)
    done = False
    try:
        with os.fdopen(r, "rb") as f:
            data = f.read()
        done = True
    finally:
        if not done:
            try:
                os.kill(pid, signal.SIGKILL)
            except OSError:
                pass
        os.waitpid(pid, 0)
    if not data:
        raise core.HarnessError("isolated child died without a result")
    st, val = pickle.loads(data)
    if st != "ok":
        raise core.HarnessError("isolated child failed:\n" + val)
    return val


def kt_explore(arg):
    """Runs in a pristine child: load the schema, then the seed and its whole rewrite closure in the given
    order; every rewritten text must give the seed's outcome.  -> (Acc, description of the seed's outcome)"""
    mid, seed_text, keycase, order, depth_all, depth_sub = arg
    acc = core.Acc()
    sch = H.load_schema(mid["schema"])
    seed_lines = seed_text.rstrip("\n").split("\n")
    clo = closure(seed_lines, keycase, depth_all, depth_sub, CASESET)
    texts = [seed_text] + ["\n".join(new) + "\n" for new, _ in clo]
    seq = list(range(len(texts)))
    if order == "seed-last":
        seq.reverse()
    outs = {}
    for i in seq:
        acc.current = texts[i]
        outs[i] = outcome(sch, texts[i])
        acc.ev()
    acc.extra["kt-pristine-processes"] += 1
    base = outs[0]
    if base[0] == "internal":
        acc.extra["seed_internal_errors(C07's)"] += 1
        return acc, None
    acc.cls("kt-seed-" + base[0])
    acc.cls("kt-order-" + order)
    loads = [texts[i] for i in seq]
    for i in range(1, len(texts)):
        got = outs[i]
        path = clo[i - 1][1]
        text = texts[i]
        acc.transitions += 1
        acc.nt()
        acc.cls("kt-rewritten-" + got[0])
        if "key-case" in path:
            acc.extra["kt-texts-with-key-case-rewrite"] += 1
        acc.sample(lambda: {"member": mid["name"], "seed": seed_text, "rewrites": list(path), "text": text,
                            "order": order})
        if got != base:
            label = path[-1]
            acc.violation("layout-changes-outcome",
                          {"member": mid, "seed": seed_text, "rewrites": list(path), "text": text,
                           "order": order, "loads": loads},
                          [got[0], repr(got[1:])[:300]], [base[0], repr(base[1:])[:300]],
                          tags={"kind": "layout", "rewrite": label if got[0] != "internal" else "internal",
                                "seed": base[0], "got": got[0], "axis": "keytypes", "order": order},
                          size=len(seed_text) + len(text) + 100 * len(path))
    if order == "seed-first":
        acc.states += len(texts)
    acc.traces = acc.transitions
    return acc, (base[0], core.digest(base), repr(base[1:])[:300])


def kt_member(kts, tier):
    S = kt_schema(*kts)
    eff = {None: M.eff_keytype(S, None), "p": M.eff_keytype(S, "p"), "q": M.eff_keytype(S, "q")}
    keycase = {c: (k in CI_KEYTYPES) for c, k in eff.items()}
    name = "keytypes[top=%s,p=%s,q=%s]" % tuple(eff[c] for c in (None, "p", "q"))
    return {"name": name, "schema": M.render(S)}, keycase


def kt_preimport():
    """Import (only import) what a load needs, so that the forked children do not each pay for it."""
    import pickle                                   # noqa: F401
    import xml.sax                                  # noqa: F401
    import xml.sax.expatreader                      # noqa: F401
    import ZConfig                                  # noqa: F401
    import ZConfig.cfgparser                        # noqa: F401
    import ZConfig.datatypes                        # noqa: F401
    import ZConfig.info                             # noqa: F401
    import ZConfig.loader                           # noqa: F401
    import ZConfig.matcher                          # noqa: F401
    import ZConfig.schema                           # noqa: F401
    import ZConfig.substitution                     # noqa: F401
    import ZConfig.url                              # noqa: F401


def kt_shard(member, acc):
    """One key-type assignment x one chunk of the seeds.  Nothing is loaded in this process."""
    _, kts, chunk, tier = member
    kt_preimport()
    mid, keycase = kt_member(kts, tier)
    depth_all, depth_sub = (1, 2) if tier == "quick" else (1, 3)
    mixed = len(set(keycase.values())) == 2
    if chunk == 0:
        acc.extra["kt-schemas"] += 1
        acc.extra["kt-schemas-mixing-ci-and-cs"] += 1 if mixed else 0
    for n, (label, text, used) in enumerate(kt_seeds(tier)):
        if n % KT_CHUNKS != chunk:
            continue
        acc.extra["kt-seeds"] += 1
        if any(len({keycase[c] for c in cs}) == 2 for cs in used.values()):
            acc.extra["kt-seeds-same-spelling-under-ci-and-cs"] += 1
        bases = {}
        for order in KT_ORDERS:
            acc.current = {"member": mid["name"], "seed": text, "order": order}
            a, b = isolated(kt_explore, (mid, text, keycase, order, depth_all, depth_sub))
            acc.merge(a)
            bases[order] = b
        b1, b2 = bases["seed-first"], bases["seed-last"]
        if b1 is not None and b2 is not None and b1[:2] != b2[:2]:
            acc.violation("load-order-changes-outcome",
                          {"member": mid, "seed": text, "axis": "keytypes", "order": "both",
                           "depths": [depth_all, depth_sub], "keycase": {str(k): v for k, v in keycase.items()}},
                          ["seed loaded after its rewrites", b2[0], b2[2]],
                          ["seed loaded first", b1[0], b1[2]],
                          tags={"kind": "history", "axis": "keytypes", "seed": b1[0], "got": b2[0]},
                          size=len(text))
    acc.current = None
    return acc


# ---------------------------------------------------------------------------
# the whitespace axis (wave 5): WHICH whitespace stands before / after a line, what a blank or a comment line is
# made of, and how the lines of the text are terminated (in particular: whether the last line is) - every
# combination of a small alphabet, one line at a time, under every termination form.

WS_CHARS = {"quick": (" ", "\t", "\r", "\x0c", "\u2003"),
            "thorough": (" ", "\t", "\r", "\x0c", "\u2003", "\x0b", "\xa0", "\x1f", "\x85", "\u2028", "\u3000")}
WS_CORE = {"quick": (" ", "\t", "\u2003"), "thorough": (" ", "\t", "\r", "\x0c", "\u2003")}
# (line terminator, is the last line terminated?)
WS_FORMS = {"quick": (("\n", True), ("\n", False)),
            "thorough": (("\n", True), ("\n", False), ("\r\n", True), ("\r\n", False))}
WS_COMMENTS = ("#", "#c", "\t#\t<a> %b $c", "#</x>")
WS_SEED_STRIDE = {"quick": 4, "thorough": 1}        # every n-th of the capped corpus seeds of a member


def ws_strings(tier):
    """The whitespace strings put on one side of a line: every single character of the alphabet, every pair over
    the core alphabet (thorough: also every triple over blank and tab)."""
    out = list(WS_CHARS[tier])
    out += [a + b for a in WS_CORE[tier] for b in WS_CORE[tier]]
    if tier != "quick":
        out += ["".join(t) for t in itertools.product(" \t", repeat=3)]
    return out


def ws_blanks(tier):
    return [""] + list(WS_CHARS[tier]) + [" \t"]


def ws_variants(lines, tier):
    """Yield (label, new_lines): every whitespace string before, and after, every non-blank line; every pair of
    core characters around it; every blank-line content and every comment line at every position."""
    n = len(lines)
    strings = ws_strings(tier)
    core = WS_CORE[tier]
    yield "ws-none", lines
    for i in range(n):
        if lines[i].strip() == "":
            continue
        for w in strings:
            yield "ws-leading", lines[:i] + [w + lines[i]] + lines[i + 1:]
            yield "ws-trailing", lines[:i] + [lines[i] + w] + lines[i + 1:]
        for a in core:
            for b in core:
                yield "ws-both", lines[:i] + [a + lines[i] + b] + lines[i + 1:]
    for i in range(n + 1):
        for w in ws_blanks(tier):
            yield "ws-blank-line", lines[:i] + [w] + lines[i:]
        for c in WS_COMMENTS:
            yield "ws-comment-line", lines[:i] + [c] + lines[i:]


def ws_form_name(eol, terminated):
    return "%s%s" % ("LF" if eol == "\n" else "CRLF", "" if terminated else "-last-line-unterminated")


def ws_explore(sch, seed_text, acc, mid, tier):
    """The seed's lines under every line-termination form x every whitespace variant; every text must give the
    seed's outcome."""
    base = outcome(sch, seed_text)
    acc.ev()
    seed_lines = seed_text.rstrip("\n").split("\n") if seed_text.strip("\n") else []
    if base[0] == "internal" or not seed_lines:
        return
    acc.cls("ws-seed-" + base[0])
    acc.extra["ws-seeds"] += 1
    seen = {seed_text}
    for eol, terminated in WS_FORMS[tier]:
        form = ws_form_name(eol, terminated)
        for label, new in ws_variants(seed_lines, tier):
            text = eol.join(new) + (eol if terminated else "")
            if text in seen:
                continue
            seen.add(text)
            acc.current = text
            got = outcome(sch, text)
            acc.ev()
            acc.nt()
            acc.transitions += 1
            acc.cls("ws-rewritten-" + got[0])
            acc.extra["ws-texts-" + form] += 1
            acc.extra["ws-texts-" + label] += 1
            last = new[-1]
            if not terminated and last.strip() and last != last.rstrip():
                # what follows the trailing whitespace of the last line is the end of the text
                acc.extra["ws-unterminated-last-line-with-trailing-whitespace:" + classify(last)] += 1
                if len(last) - len(last.rstrip()) == 1 and last == last.lstrip():
                    acc.extra["ws-unterminated-last-line-with-one-trailing-character"] += 1
            acc.sample(lambda: {"member": mid["name"], "seed": seed_text, "rewrites": [form, label], "text": text,
                                "axis": "whitespace"})
            if got != base:
                acc.violation("layout-changes-outcome",
                              {"member": mid, "seed": seed_text, "rewrites": [form, label], "text": text,
                               "axis": "whitespace"},
                              [got[0], repr(got[1:])[:300]], [base[0], repr(base[1:])[:300]],
                              tags={"kind": "layout", "rewrite": label if got[0] != "internal" else "internal",
                                    "seed": base[0], "got": got[0], "axis": "whitespace", "form": form},
                              size=len(seed_text) + len(text))
    acc.states += len(seen) - 1
    acc.traces = acc.transitions


# ---------------------------------------------------------------------------
# the derivation axis (wave 5): WHERE a container's declarations and its key type come from.  The containers <p>
# and <q> of the key-type family are either plain (their own declarations under their own key type, as above) or
# DERIVED: the declarations sit in a base type with a key type of its own, and the container extends that base
# type, inheriting or overriding the key type.  What may be rewritten on a key line is decided by the effective key
# type of the container the line is in; what the inherited names were declared under is none of the text's business.

KX_BASE = (None, "identifier", "ipaddr-or-hostname")               # key type of a plain container / of a base type
KX_OVERRIDE = ("basic-key", "identifier", "ipaddr-or-hostname")    # explicit key type of a derived type
KX_WILD = {"quick": ("base", "none"), "thorough": ("base", "derived", "none")}   # where the wildcard map is declared
KX_TOP = {"quick": (None,), "thorough": (None, "identifier")}
KX_DEPTHS = (0, 2)          # (all rewrites, letter-case / empty-pair rewrites)


def kx_variants(tier):
    """-> (plain variants, derived variants).  A derived type either inherits the base's key type or names one that
    differs from it."""
    plain = [("plain", kt) for kt in KX_BASE]
    derived = []
    for kb in KX_BASE:
        for kd in ("inherit",) + tuple(k for k in KX_OVERRIDE if k != (kb or "basic-key")):
            for wild in KX_WILD[tier]:
                derived.append(("derived", kb, kd, wild))
    return plain, derived


def kx_pairs(tier):
    """(variant of p, variant of q): quick - exactly one of the two derived (every variant, next to every plain
    partner), or both derived in the same way; thorough - every pair with at least one derived container."""
    plain, derived = kx_variants(tier)
    if tier == "quick":
        return [(a, b) for a in plain for b in derived] + [(a, b) for a in derived for b in plain] + \
               [(a, a) for a in derived]
    allv = plain + derived
    return [(a, b) for a in allv for b in allv if a[0] == "derived" or b[0] == "derived"]


def kx_types(name, variant, decl, wild):
    """The section types for container `name`: plain - one type holding decl + the wildcard; derived - a base type
    '<name>base' holding decl (and the wildcard, if it is declared there) and the type itself, which extends it
    and declares one more key (and the wildcard, if it is declared there)."""
    if variant[0] == "plain":
        return (M.SType(name, decl + (wild,), keytype=variant[1]),)
    _, kb, kd, where = variant
    base = M.SType(name + "base", decl + ((wild,) if where == "base" else ()), keytype=kb)
    own = (M.Key("Own", default="o"),) + ((wild,) if where == "derived" else ())
    return (base, M.SType(name, own, extends=name + "base", keytype=None if kd == "inherit" else kd))


def kx_schema(kt_top, vp, vq):
    """The key-type family's schema (see kt_schema) with p and q built according to their variants."""
    qt = kx_types("q", vq, (M.Key("Level", "integer", default="0"),), M.MultiKey("+", attribute="extra"))
    pt = kx_types("p", vp, (M.Key("Level", default="d"), M.MultiKey("Mk"),
                            M.Sect("*", "q", attribute="qs", multi=True)), M.Key("+", attribute="extra"))
    return M.Schema(types=qt + pt, keytype=kt_top,
                    items=(M.Key("Level", default="t"), M.MultiKey("Mk"),
                           M.Sect("*", "p", attribute="ps", multi=True), M.Sect("*", "q", attribute="qs", multi=True)))


def kx_vname(v):
    return v[1] or "basic-key" if v[0] == "plain" else "%s<-%s,wild=%s" % (v[2], v[1] or "basic-key", v[3])


def kx_shard(member, acc):
    """One schema of the derivation family: every seed of the key-type family, its closure under the letter-case /
    empty-pair rewrites, loaded seed first in this process."""
    _, kt_top, vp, vq, tier = member
    S = kx_schema(kt_top, vp, vq)
    eff = {None: M.eff_keytype(S, None), "p": M.eff_keytype(S, "p"), "q": M.eff_keytype(S, "q")}
    keycase = {c: (k in CI_KEYTYPES) for c, k in eff.items()}
    xml = M.render(S)
    mid = {"name": "derivation[top=%s,p=%s,q=%s]" % (eff[None], kx_vname(vp), kx_vname(vq)), "schema": xml}
    sch = H.load_schema(xml)
    acc.extra["kx-schemas"] += 1
    # containers whose key type folds case while the names they inherit were declared under one that does not
    folded = [c for c, v in (("p", vp), ("q", vq))
              if v[0] == "derived" and keycase[c] and (v[1] or "basic-key") not in CI_KEYTYPES]
    if folded:
        acc.extra["kx-schemas-ci-type-over-cs-base"] += 1
    if any(v[0] == "derived" and not keycase[c] and (v[1] or "basic-key") in CI_KEYTYPES
           for c, v in (("p", vp), ("q", vq))):
        acc.extra["kx-schemas-cs-type-over-ci-base"] += 1
    for label, text, used in kt_seeds(tier):
        base = outcome(sch, text)
        acc.ev()
        if base[0] == "internal":
            acc.extra["seed_internal_errors(C07's)"] += 1
            continue
        acc.cls("kx-seed-" + base[0])
        seed_lines = text.rstrip("\n").split("\n")
        clo = closure(seed_lines, keycase, KX_DEPTHS[0], KX_DEPTHS[1], CASESET)
        hit = any(c in folded for cs in used.values() for c in cs)
        for new, path in clo:
            t2 = "\n".join(new) + "\n"
            acc.current = t2
            got = outcome(sch, t2)
            acc.ev()
            acc.nt()
            acc.transitions += 1
            acc.cls("kx-rewritten-" + got[0])
            if "key-case" in path:
                acc.extra["kx-texts-with-key-case-rewrite"] += 1
                if hit:
                    acc.extra["kx-key-case-rewrites-with-a-key-in-a-ci-type-over-a-cs-base"] += 1
            acc.sample(lambda: {"member": mid["name"], "seed": text, "rewrites": list(path), "text": t2,
                                "axis": "derivation"})
            if got != base:
                lab = path[-1]
                acc.violation("layout-changes-outcome",
                              {"member": mid, "seed": text, "rewrites": list(path), "text": t2, "axis": "derivation"},
                              [got[0], repr(got[1:])[:300]], [base[0], repr(base[1:])[:300]],
                              tags={"kind": "layout", "rewrite": lab if got[0] != "internal" else "internal",
                                    "seed": base[0], "got": got[0], "axis": "derivation"},
                              size=len(text) + len(t2) + 100 * len(path))
        acc.states += len(clo) + 1
    acc.traces = acc.transitions
    acc.current = None
    return acc


# ---------------------------------------------------------------------------
# seeds

LOGGER_SCHEMA ="""<schema>
  <import package='ZConfig.components.logger'/>
  <section type='eventlog' name='*' attribute='eventlog'/>
  <multisection type='logger' name='*' attribute='loggers'/>
</schema>
"""

LOGGER_TEXTS = [
    "<eventlog>\n  level info\n  <logfile>\n    path STDOUT\n    format %(message)s\n  </logfile>\n</eventlog>\n",
    "<logger>\n  name vz.a.b\n  level DEBUG\n  propagate no\n  <logfile>\n    path STDERR\n    level warn\n  </logfile>\n</logger>\n",
    "<logger>\n  name vz.a\n  <logfile>\n    path STDOUT\n    dateformat %H:%M\n    format %(asctime)s %(message)s\n  </logfile>\n"
    "  <logfile x>\n    path STDERR\n    level 25\n  </logfile>\n</logger>\n<logger>\n  name vz.b\n  level error\n</logger>\n",
    "%define lvl warn\n<eventlog>\n  level $lvl\n  <logfile>\n    path STDOUT\n    style format\n    format {levelname} {message}\n  </logfile>\n</eventlog>\n",
    "<logger>\n  name vz.c\n  level bogus\n</logger>\n",
    "<logger>\n  name vz.d\n  <logfile>\n    path STDOUT\n    max-size 1mb\n  </logfile>\n</logger>\n",
    "<eventlog/>\n<logger/>\n",
    "<logger>\n  name vz.e\n  <syslog>\n    facility user\n    address localhost:514\n    level info\n  </syslog>\n</logger>\n",
]

MAPPING_SCHEMA = """<schema>
  <import package="ZConfig.components.basic" file="mapping.xml"/>
  <sectiontype name="dict" extends="ZConfig.basic.mapping"/>
  <sectiontype name="idkeys" extends="ZConfig.basic.mapping" keytype="identifier"/>
  <section name="*" type="dict" attribute="simple_dict"/>
  <multisection name="+" type="idkeys" attribute="id_dicts"/>
</schema>
"""

# key case may be changed inside <dict> (basic-key), never inside <idkeys> (identifier)
MAPPING_KEYCASE = {None: True, "dict": True, "idkeys": False}
MAPPING_TEXTS = [
    ("<dict foo>\n  key-one value-one\n  key-two value  two\n</dict>\n", MAPPING_KEYCASE),
    ("<dict/>\n<idkeys a>\n  Kx 1\n  kx 2\n</idkeys>\n<idkeys b/>\n", MAPPING_KEYCASE),
    ("<dict>\n  k v\n  K w\n</dict>\n", MAPPING_KEYCASE),
    ("<idkeys a>\n  k v\n</idkeys>\n<idkeys A>\n  k w\n</idkeys>\n", MAPPING_KEYCASE),
    ("<dict>\n  Kx v\n</dict>\n<idkeys a>\n  Kx 1\n  kx 2\n</idkeys>\n", MAPPING_KEYCASE),
    ("<idkeys a>\n  Kx 1\n  kx 2\n</idkeys>\n<dict>\n  Kx v\n  kX w\n</dict>\n", MAPPING_KEYCASE),
]

DEFINE_SCHEMA = """<schema>
  <multikey name="u"/>
  <key name="k1"/>
  <sectiontype name="s"><multikey name="u"/><key name="k2" datatype="integer"/></sectiontype>
  <multisection type="s" name="*" attribute="ss"/>
</schema>
"""

DEFINE_TEXTS = [
    "%define a x\n%define B ${a}y\nu $a\nu $b $$a\n<s n>\n  u ${B}\n  k2 7\n</s>\nk1 $A\n",
    "%define a x\nu $a\n%define a x\n<s/>\n<s t>\n  u $a$a\n</s>\n",
    "u $a\n%define a x\n",
    "%define a 1\n%define b $a$a\n<s>\n  k2 $b\n  u ${b}0\n</s>\n<s>\n  k2 x$a\n</s>\n",
    "%define a-b x\nu v\n",
    "%define base one\n%define base two\nu $base\n",          # rejected: conflicting redefinition
    "%define base one\nu $base\n%define Base one\n<s>\n  u $BASE\n</s>\n",   # accepted: same value again
    "%define a x\n%define b $a\n%define b x\nu $b\n",
    # wave 6: definitions without a value (the empty string), referred to and written again
    "%define e\n%define Pre a$e\nu [$e]\nu ${pre}b\n<s>\n  u $E\n</s>\n%define e\n",
    "%define e\nu x${e}y\n%define e z\n",                    # rejected: conflicting redefinition of an empty value
]


def shard(member, acc):
    kind = member[0]
    tier = member[-1]
    depth = 2 if tier == "quick" else 3
    red = 0 if tier == "quick" else 3
    if kind == "corpus":
        _, name, S, root, cdepth, lean = member[:6]
        xml = M.render(S)
        sch = H.load_schema(xml)
        mid = {"name": name, "schema": xml}
        na = nr = 0
        cap = 12
        for events, d in C.nodes(S, root, cdepth, lean):
            if d.verdict == "U" or len(events) < (3 if lean else 2):
                continue
            if d.verdict == "A":
                na += 1
                if na > cap:
                    continue
                nth = na - 1
            else:
                nr += 1
                if nr > cap:
                    continue
                nth = nr - 1
            text = H.render_events(events)
            # key case may be flipped only where every container uses basic-key (true for these members)
            explore_seed(sch, text, True, depth, acc, mid, red if len(events) <= 4 else 0)
            if nth % WS_SEED_STRIDE[tier] == 0:
                ws_explore(sch, text, acc, mid, tier)
    else:
        _, name, xml, texts = member[:4]
        sch = H.load_schema(xml)
        mid = {"name": name, "schema": xml}
        for t in texts:
            if isinstance(t, tuple):
                t, kc = t
            else:
                kc = True
            explore_seed(sch, t, kc, depth, acc, mid, red)
            ws_explore(sch, t, acc, mid, tier)
    return acc


def run(tier):
    # both tiers use the quick schema family; the thorough tier goes one rewrite deeper on more seeds per schema
    mem = [("corpus",) + m + (tier,) for m in C.members("quick")]
    for i, t in enumerate(LOGGER_TEXTS):
        mem.append(("fixed", "logger-%d" % i, LOGGER_SCHEMA, [t], tier))
    for i, t in enumerate(MAPPING_TEXTS):
        mem.append(("fixed", "mapping-%d" % i, MAPPING_SCHEMA, [t], tier))
    for i, t in enumerate(DEFINE_TEXTS):
        mem.append(("fixed", "define-%d" % i, DEFINE_SCHEMA, [t], tier))
    depth = 2 if tier == "quick" else 3
    ktmem = [("keytypes", kts, c, tier) for kts in itertools.product(KT_ALPHABET[tier], repeat=3)
             for c in range(KT_CHUNKS)]
    kdepth = (1, 2) if tier == "quick" else (1, 3)
    kxmem = [("derivation", top, vp, vq, tier) for top in KX_TOP[tier] for vp, vq in kx_pairs(tier)]
    kx_plain, kx_derived = kx_variants(tier)
    run = core.Run(
        "C15", tier, "model_checking",
        rule="breadth-first search over rewrite applications from every seed (accepted and rejected corpus texts, "
             "capped per schema; %%define texts; logger and basic-mapping configurations): indent / trailing "
             "blanks on every line, blank / comment line at every position, letter case of every section type "
             "(openers and closers independently), section name, define name, $-reference and key (on the lines "
             "whose enclosing container has a case-insensitive key type, decided per line), <t/> <-> <t></t>, swap "
             "of adjacent lines of different keys; all applications to "
             "depth %d (thorough: depth 4 along a reduced rewrite set for short seeds), texts deduplicated.  "
             "Key-type axis: a schema of three containers (top level, <p> in it, <q> in <p> and at the top) that "
             "all declare a key spelt 'Level' (p, q also a wildcard map), with EVERY assignment of a key type from "
             "%r to the three containers (None = default basic-key; case-insensitive = %r); seeds = every way of "
             "writing a key line into 1..%d of the %d slots of a fixed skeleton (one slot per container instance) "
             "with every spelling of %r, so the same raw spelling occurs under differing key types in either text "
             "order; from each seed all rewrites to depth %d and the letter-case / empty-pair rewrites to depth %d; "
             "each (schema, seed) closure is loaded in BOTH orders (seed first, then the rewritten texts breadth "
             "first; and all rewritten texts in reverse with the seed last), each order in a freshly forked "
             "process in which neither a schema nor a configuration has been loaded before; every text must give "
             "the seed's outcome within its process, and the seed's outcome must be the same in both orders.  "
             "Whitespace axis: every %s corpus seed of every member (and every %%define / logger / mapping seed) "
             "is written under every line-termination form of %r (line terminator; last line terminated or not), "
             "and under each form, one line at a time: every whitespace string of {every single character of %r, "
             "every pair over %r%s} BEFORE and AFTER every non-blank line, every pair of single core characters "
             "around it, a blank line of every content of %r and a comment line of every form of %r at every "
             "position (so also as the unterminated last line); every text must give the seed's outcome.  "
             "Derivation axis: the key-type family's schema with its containers <p> and <q> either plain (key "
             "type from %r) or DERIVED - the declarations ('Level', the section slot, the wildcard map when it is "
             "declared in the base) sit in a base type with a key type from %r and the container extends it, "
             "inheriting the key type or overriding it with a differing one of %r, declaring one more key (and the "
             "wildcard map when it is declared there; wildcard in %r); top-level key type from %r; pairs (p, q): "
             "%s; the same seeds as the key-type axis, from each seed the letter-case / empty-pair rewrites to "
             "depth %d (key case only on the lines of containers whose EFFECTIVE key type is case-insensitive), "
             "loaded seed first in one process.  "
             "states = distinct texts, transitions = loads.  Non-trivial = rewritten text differing from its seed "
             "in a non-blank line (key-type axis: counted per load order; whitespace and derivation axes: every "
             "rewritten text - it differs from its seed in at least one character)."
             % (depth, KT_ALPHABET[tier], CI_KEYTYPES, 2, 4 if tier == "quick" else 5,
                KT_SPELLINGS[tier], kdepth[0], kdepth[1],
                "capped" if WS_SEED_STRIDE[tier] == 1 else "%d-th capped" % WS_SEED_STRIDE[tier],
                [ws_form_name(*f) for f in WS_FORMS[tier]], WS_CHARS[tier], WS_CORE[tier],
                "" if tier == "quick" else ", every triple over blank and tab", ws_blanks(tier), WS_COMMENTS,
                KX_BASE, KX_BASE, KX_OVERRIDE, KX_WILD[tier], KX_TOP[tier],
                "exactly one of the two derived, in every variant next to every plain partner, or both derived in "
                "the same variant" if tier == "quick" else "every pair with at least one derived container",
                KX_DEPTHS[1]),
        bounds={"members": len(mem), "depth": depth,
                "whitespace_axis": {"forms": [ws_form_name(*f) for f in WS_FORMS[tier]],
                                    "characters": list(WS_CHARS[tier]), "core_characters": list(WS_CORE[tier]),
                                    "strings_per_side": len(ws_strings(tier)), "blank_line_contents": ws_blanks(tier),
                                    "comment_lines": list(WS_COMMENTS), "lines_touched_at_once": 1,
                                    "corpus_seed_stride": WS_SEED_STRIDE[tier]},
                "derivation_axis": {"plain_variants": len(kx_plain), "derived_variants": len(kx_derived),
                                    "base_key_types": list(KX_BASE), "override_key_types": ["inherit"] + list(KX_OVERRIDE),
                                    "wildcard_declared_in": list(KX_WILD[tier]), "top_key_types": list(KX_TOP[tier]),
                                    "schemas": len(kxmem), "seeds_per_schema": len(kt_seeds(tier)),
                                    "depth_all_rewrites": KX_DEPTHS[0], "depth_case_rewrites": KX_DEPTHS[1]},
                "keytype_axis": {"key_types": list(KT_ALPHABET[tier]), "containers": 3,
                                 "schemas": len(KT_ALPHABET[tier]) ** 3, "seeds_per_schema": len(kt_seeds(tier)),
                                 "spellings": list(KT_SPELLINGS[tier]), "load_orders": list(KT_ORDERS),
                                 "depth_all_rewrites": kdepth[0], "depth_case_rewrites": kdepth[1],
                                 "process_per": "(schema, seed, load order)"}},
        assumptions=["structural digest of application objects (logger factories) by vz.harness.load.tree",
                     "case rewrites touch ASCII letters only",
                     "case-insensitive key types are basic-key and ipaddr-or-hostname (both documented as "
                     "converting to lower case); under any other key type the case of a key is never changed"])
    # the key-type axis first: its children must be forked from processes that have not loaded anything
    core.pmap(kt_shard, ktmem, run.acc, shard_budget=3000.0)
    core.pmap(shard, mem, run.acc, shard_budget=3000.0)
    core.pmap(kx_shard, kxmem, run.acc, shard_budget=3000.0)
    a = run.acc
    run.require(a.classes.get("seed-tree", 0) > 50 and a.classes.get("seed-rejected", 0) > 50, "few seeds")
    run.require(a.classes.get("rewritten-tree", 0) > 1000, "few accepted rewritten texts")
    x = a.extra
    run.require(x.get("kt-schemas", 0) == len(KT_ALPHABET[tier]) ** 3 and
                x.get("kt-schemas-mixing-ci-and-cs", 0) >= 12, "key-type axis: few schemas mixing key types")
    run.require(x.get("kt-seeds-same-spelling-under-ci-and-cs", 0) > 100,
                "key-type axis: few seeds with one spelling under a case-insensitive and a case-preserving key type")
    run.require(x.get("kt-texts-with-key-case-rewrite", 0) > 5000, "key-type axis: few key-case rewrites")
    run.require(a.classes.get("kt-order-seed-first", 0) == a.classes.get("kt-order-seed-last", 0) > 500 and
                x.get("kt-pristine-processes", 0) == 2 * x.get("kt-seeds", 0),
                "key-type axis: the two load orders were not both exercised for every seed")
    run.require(a.classes.get("kt-seed-tree", 0) > 200 and a.classes.get("kt-seed-rejected", 0) > 200 and
                a.classes.get("kt-rewritten-tree", 0) > 5000, "key-type axis: few accepted / rejected seeds")
    # whitespace axis
    forms = [ws_form_name(*f) for f in WS_FORMS[tier]]
    run.require(x.get("ws-seeds", 0) > 1000 and a.classes.get("ws-seed-tree", 0) > 400 and
                a.classes.get("ws-seed-rejected", 0) > 400, "whitespace axis: few accepted / rejected seeds")
    run.require(all(x.get("ws-texts-" + f, 0) > 100 * x.get("ws-seeds", 0) for f in forms),
                "whitespace axis: a line-termination form was not exercised on every seed")
    run.require(all(x.get("ws-texts-" + lab, 0) > 20000 for lab in
                    ("ws-leading", "ws-trailing", "ws-both", "ws-blank-line", "ws-comment-line")),
                "whitespace axis: a kind of whitespace variant is (nearly) missing")
    run.require(all(x.get("ws-unterminated-last-line-with-trailing-whitespace:" + k, 0) > n
                    for k, n in (("close", 5000), ("empty", 500), ("key", 500), ("define", 10))) and
                x.get("ws-unterminated-last-line-with-one-trailing-character", 0) >= 5 * x.get("ws-seeds", 0) > 0,
                "whitespace axis: few unterminated last lines (closer, empty section, key, define) that carry "
                "trailing whitespace")
    run.require(a.classes.get("ws-rewritten-tree", 0) > 100000 and a.classes.get("ws-rewritten-rejected", 0) > 100000,
                "whitespace axis: few accepted / rejected rewritten texts")
    # derivation axis
    run.require(x.get("kx-schemas", 0) == len(kxmem) and x.get("kx-schemas-ci-type-over-cs-base", 0) >= 20 and
                x.get("kx-schemas-cs-type-over-ci-base", 0) >= 20,
                "derivation axis: few schemas whose derived type folds case over a case-preserving base (or the "
                "reverse)")
    run.require(x.get("kx-texts-with-key-case-rewrite", 0) > 20000 and
                x.get("kx-key-case-rewrites-with-a-key-in-a-ci-type-over-a-cs-base", 0) > 5000,
                "derivation axis: few key-case rewrites on keys of a case-insensitive type derived from a "
                "case-preserving base")
    run.require(a.classes.get("kx-seed-tree", 0) > 1000 and a.classes.get("kx-seed-rejected", 0) > 1000 and
                a.classes.get("kx-rewritten-tree", 0) > 50000 and a.classes.get("kx-rewritten-rejected", 0) > 50000,
                "derivation axis: few accepted / rejected seeds or rewritten texts")
    return run


def _kt_replay_loads(arg):
    schema, loads = arg
    sch = H.load_schema(schema)
    return [outcome(sch, t) for t in loads]


def replay(body):
    case = body["case"]
    rc = 0
    if case.get("order") == "both":
        # the seed's outcome differs between the two load orders: re-run both, each in a fresh process
        kc = {(None if k == "None" else k): v for k, v in case["keycase"].items()}
        for _ in range(2):
            res = {}
            for order in KT_ORDERS:
                _acc, b = isolated(kt_explore, (case["member"], case["seed"], kc, order) + tuple(case["depths"]))
                res[order] = b
                print("seed (%s):\n" % order + case["seed"] + "->", b)
            if res["seed-first"] is None or res["seed-last"] is None or res["seed-first"][:2] != res["seed-last"][:2]:
                rc = 1
        return rc
    if "loads" in case:
        # key-type axis: the outcome may depend on what the process loaded before; repeat the whole load
        # sequence of that process in a fresh one
        loads = case["loads"]
        for _ in range(2):
            outs = isolated(_kt_replay_loads, (case["member"]["schema"], loads))
            a = outs[loads.index(case["seed"])]
            b = outs[loads.index(case["text"])]
            print("load order %s: %d texts in a fresh process" % (case["order"], len(loads)))
            print("seed (load #%d):\n" % loads.index(case["seed"]) + case["seed"] + "->", a[0], repr(a[1:])[:300])
            print("rewritten (%s, load #%d):\n" % (case["rewrites"], loads.index(case["text"])) + case["text"] + "->",
                  b[0], repr(b[1:])[:300])
            if a != b:
                rc = 1
        return rc
    for _ in range(2):
        sch = H.load_schema(case["member"]["schema"])
        a = outcome(sch, case["seed"])
        b = outcome(sch, case["text"])
        print("seed:\n" + case["seed"] + "->", a[0], repr(a[1:])[:300])
        print("rewritten (%s):\n" % case["rewrites"] + case["text"] + "->", b[0], repr(b[1:])[:300])
        if a != b:
            rc = 1
    return rc
