"""C20 - logger sections produce exactly the configured logging setup, once.

Six exhaustively enumerated spaces (nothing is sampled):

 (a) the logging_level datatype on every documented name x 4 letter cases,
     every integer -2..52, junk and non-canonical integer spellings;
 (b) one <logfile> section: path x max-size x old-files x when x interval x
     delay x encoding x level (full product) against the handler-class decision
     table of vz.ref.logmodel;
 (c) <logger>/<eventlog> sections with 0..3 handlers from a 6-entry menu x
     propagate x level spelling (also through ZConfig.configureLoggers);
 (d) format strings: every LogRecord field x conversion of the four styles, with
     and without arbitrary-fields, escapes, field-less and unknown-field formats,
     custom formatter factories, date formats;
 (e) operation sequences over {call factory j, reopenFiles(), closeFiles(), drop
     the last reference to handler j}: BFS over the canonical implementation
     state (states/transitions) plus every sequence of the bound length with
     the registry model run in lock step.

 (f) histories: every handler section of an alphabet (style x format text x
     arbitrary-fields x formatter x dateformat) loaded in a fresh process alone,
     then after / next to every other section of the alphabet: what a section
     means must not depend on what was loaded before it; (fl) every ordered pair
     of logger sections on one logging tree without a reset in between.

 (g) faults at factory-CALL time: a logger / eventlog section with 1..3 handler
     sections, each kind x {no fault, directory missing, path is a directory, unknown
     encoding}; every sequence of {call logger factory, call handler factory j,
     repair fault j, reopenFiles, closeFiles} with vz.ref.logfaults.FaultModel in
     lock step: a call that cannot create a handler raises, every later call still
     ends with exactly one handler per section; one record logged at the end is
     written once per section.

 (h) the machine of (e) over the rest of the product {which file each handler
     section names: every set partition of the sections, i.e. also two / three
     sections with the SAME path, with equal kinds the same section text twice}
     x {handlers unused, handlers used: a record is logged through handler j every
     time factory j is called}: reopenFiles() / closeFiles() act on exactly the
     registered live HANDLERS whatever these have in common, a used delayed
     handler is reopened like any other, a closed handler that a record has
     opened again is left alone.

Oracle: vz.ref.logmodel (level table, decision table, Python's own rendering of
a format, registry model); for (f) the differential relation "same section =>
same outcome as in a fresh process"; for (g) vz.ref.logfaults; for (h)
vz.ref.logusage (the registry model, for which the path assignment is no input).
"""
import collections
import gc
import io
import itertools
import logging
import os
import shutil
import sys
import tempfile
import weakref

from vz import core
from vz.ref import logmodel as R

SCHEMA_XML = """<schema>
<import package='ZConfig.components.logger'/>
<multisection type='ZConfig.logger.log' name='*' attribute='loggers'/>
<multisection type='ZConfig.logger.handler' name='*' attribute='handlers'/>
</schema>"""
URL = "file:///v/c20.conf"
PREFIX = "vz"

_SCHEMA = None


def schema():
    global _SCHEMA
    if _SCHEMA is None:
        import ZConfig
        _SCHEMA = ZConfig.loadSchemaFile(io.StringIO(SCHEMA_XML), "file:///v/c20-schema.xml")
    return _SCHEMA


def load(text):
    """-> ('ok', config) | ('refused', {class, family})"""
    import ZConfig
    try:
        cfg, _ = ZConfig.loadConfigFile(schema(), io.StringIO(text), URL)
    except Exception as e:
        d = core.exc_desc(e)
        d["family"] = isinstance(e, ZConfig.ConfigurationError)
        return "refused", d
    return "ok", cfg


def cfg_value(s):
    """A value as it must be written in configuration text ('$' is ZConfig's
    substitution character)."""
    return s.replace("$", "$$")


# ----------------------------------------------------------------------------
# isolation of the process-wide logging state

class Env:
    def __enter__(self):
        from ZConfig.components.logger import loghandler
        self.lh = loghandler
        self.dir = tempfile.mkdtemp(prefix="vz-c20-", dir="/dev/shm")
        self.root = logging.getLogger()
        self.saved_root = (list(self.root.handlers), self.root.level)
        self.saved_keys = set(logging.Logger.manager.loggerDict)
        self.saved_registry = list(loghandler._reopenable_handlers)
        self.tracked = []
        self.dirty = False
        schema()
        gc.collect()
        gc.freeze()          # makes the gc.collect() of the drop operation cheap
        return self

    def path(self, token):
        if token.startswith("FILE:"):
            self.dirty = True
            return os.path.join(self.dir, token[5:])
        return token

    def track(self, h):
        self.tracked.append(weakref.ref(h))

    def begin(self):
        self.root.handlers[:] = []
        self.lh._reopenable_handlers[:] = []
        self.tracked = []

    def end(self):
        mgr = logging.Logger.manager
        todo = [w() for w in self.tracked]
        todo += list(self.root.handlers)
        for k in list(mgr.loggerDict):
            if k not in self.saved_keys and (k == PREFIX or k.startswith(PREFIX + ".")):
                lg = mgr.loggerDict[k]
                todo += list(getattr(lg, "handlers", ()))
        for h in todo:
            if h is not None:
                try:
                    h.close()
                except Exception:
                    pass
        del todo
        self.tracked = []
        for k in list(mgr.loggerDict):
            if k not in self.saved_keys and (k == PREFIX or k.startswith(PREFIX + ".")):
                del mgr.loggerDict[k]
        self.root.handlers[:] = self.saved_root[0]
        self.root.setLevel(self.saved_root[1])
        self.lh._reopenable_handlers[:] = self.saved_registry
        if self.dirty:
            for n in os.listdir(self.dir):
                try:
                    os.unlink(os.path.join(self.dir, n))
                except OSError:
                    pass
            self.dirty = False

    def __exit__(self, *a):
        try:
            self.end()
        finally:
            shutil.rmtree(self.dir, ignore_errors=True)
            gc.unfreeze()
        return False


def case_size(case):
    """Ordering of violating cases: fewer / simpler options first."""
    n = 0
    for k, v in case.items():
        if k == "opts":
            n += case_size(v)
        elif k == "handlers":
            n += 100 * len(v) + sum(v)
        elif k in ("part", "kind", "via", "path"):
            continue
        elif v is not None:
            n += 10 + len(str(v))
    return n


# ----------------------------------------------------------------------------
# (a) levels

def case_variants(name):
    alt = "".join(c.upper() if i % 2 else c for i, c in enumerate(name))
    return [name, name.upper(), name.title(), alt]


LEVEL_JUNK = ["", "foo", "warnx", "xwarn", "war", "warn ing", "information", "notse", "al", "1.5",
              "1e1", "0x10", "ten", "-", "--1", "5-", "none", "None", "true", "crit", "50.0", "ınfo",
              "INFÖ"]
LEVEL_NONCANONICAL = ["+5", "05", "007", " 5", "5 ", "1_0", "-0", "٥", "+51", "051", "-01", "5_1", "00"]


def level_space():
    out = []
    for name, _ in R.LEVEL_TABLE:
        out += case_variants(name)
    out += [str(i) for i in range(-2, 53)]
    out += LEVEL_JUNK + LEVEL_NONCANONICAL
    return out


def level_space_config():
    """The subset that can be written as a value in configuration text."""
    return [s for s in level_space() if s and s == s.strip() and "$" not in s]


def check_a(case, env, acc):
    from ZConfig.components.logger.datatypes import logging_level
    s = case["value"]
    acc.current = case
    verdict, num, clause = R.classify_level(s)
    acc.ev()
    acc.clause(clause)
    try:
        obs = ("ok", logging_level(s))
    except ValueError:
        obs = ("ValueError",)
    except Exception as e:
        obs = ("raises", core.exc_desc(e))
    acc.cls("a:" + obs[0])
    if verdict == R.ACCEPT:
        if obs[0] != "ok" or type(obs[1]) is not int or obs[1] != num:
            acc.violation("level-wrong-number", case, obs, num,
                          tags={"kind": "level-wrong-number", "name": R.ascii_lower(s), "part": "a"})
    elif verdict == R.REFUSE:
        if obs[0] != "ValueError":
            acc.violation("level-not-rejected", case, obs, "ValueError",
                          tags={"kind": "level-not-rejected", "clause": clause, "part": "a"})
    else:
        if not (obs[0] == "ValueError" or (obs[0] == "ok" and type(obs[1]) is int and 0 <= obs[1] <= 50)):
            acc.violation("level-totality", case, obs, "ValueError or 0..50",
                          tags={"kind": "level-totality", "part": "a"})
    acc.sample(lambda: {"part": "a", "value": s, "expected": [verdict, num], "observed": obs})


# ----------------------------------------------------------------------------
# (b) one logfile section

B_PATHS = ["STDOUT", "STDERR", "FILE:b.log"]
B_MAX = [None, "0", "5kb"]
B_OLD = [None, "0", "3"]
B_WHEN = [None, "D", "midnight"]
B_INT = [None, "2"]
B_DELAY = [None, "true", "false"]
B_ENC = [None, "utf-8", "latin-1"]
B_LEVEL = [None, "warn", "17", "ALL", "51", "-1"]
B_KEYS = ("max_size", "old_files", "when", "interval", "delay", "encoding")
OPT_KEY = {"max_size": "max-size", "old_files": "old-files", "when": "when", "interval": "interval",
           "delay": "delay", "encoding": "encoding", "level": "level", "format": "format",
           "style": "style", "path": "path"}


def logfile_text(env, opts, level=None, fmt=None, style=None, extra=()):
    lines = ["<logfile>", "  path %s" % env.path(opts["path"])]
    for k in B_KEYS:
        if opts.get(k) is not None:
            lines.append("  %s %s" % (OPT_KEY[k], opts[k]))
    if level is not None:
        lines.append("  level %s" % level)
    if style is not None:
        lines.append("  style %s" % style)
    if fmt is not None:
        lines.append("  format %s" % cfg_value(fmt))
    lines.extend("  " + e for e in extra)
    lines.append("</logfile>")
    return "\n".join(lines)


_DEFAULT_ENCODING = []


def default_file_encoding(env):
    """What the standard FileHandler reports when no encoding is given."""
    if not _DEFAULT_ENCODING:
        h = logging.FileHandler(os.path.join(env.dir, "probe-default-encoding"), delay=True)
        _DEFAULT_ENCODING.append(h.encoding)
        h.close()
    return _DEFAULT_ENCODING[0]


def describe_handler(h):
    d = {"class": "%s.%s" % (type(h).__module__, type(h).__name__), "level": h.level}
    for a in ("maxBytes", "backupCount", "when", "interval", "delay", "encoding", "mode", "baseFilename"):
        if hasattr(h, a):
            d[a] = getattr(h, a)
    return d


def check_file_handler(env, h, exp, path):
    """-> list of (what, observed, expected) discrepancies of one handler."""
    lh = env.lh
    bad = []
    cls = getattr(lh, exp["cls"])
    if type(h) is not cls:
        bad.append(("class", "%s.%s" % (type(h).__module__, type(h).__name__), exp["cls"]))
        return bad
    if exp["cls"] == R.STREAM:
        want = sys.stdout if exp["stream"] == "STDOUT" else sys.stderr
        if h.stream is not want:
            bad.append(("stream", repr(h.stream), exp["stream"]))
        if any(w() is h for w in lh._reopenable_handlers):
            bad.append(("registered", True, False))
        return bad
    if h.baseFilename != os.path.abspath(path):
        bad.append(("baseFilename", h.baseFilename, path))
    if bool(h.delay) != exp["delay"]:
        bad.append(("delay", h.delay, exp["delay"]))
    if (h.stream is None) != exp["delay"]:
        bad.append(("stream-open", h.stream is not None, not exp["delay"]))
    want_enc = exp["encoding"] if exp["encoding"] else default_file_encoding(env)
    if h.encoding != want_enc:
        bad.append(("encoding", h.encoding, want_enc))
    if h.stream is not None and exp["encoding"]:
        import codecs
        if codecs.lookup(h.stream.encoding).name != codecs.lookup(exp["encoding"]).name:
            bad.append(("stream-encoding", h.stream.encoding, exp["encoding"]))
    if h.mode != exp["mode"]:
        bad.append(("mode", h.mode, exp["mode"]))
    for a in ("maxBytes", "backupCount", "when", "interval"):
        if a in exp and getattr(h, a, None) != exp[a]:
            bad.append((a, getattr(h, a, None), exp[a]))
    n = sum(1 for w in lh._reopenable_handlers if w() is h)
    if n != 1:
        bad.append(("registered-times", n, 1))
    return bad


def check_b(case, env, acc):
    acc.current = case
    opts = case["opts"]
    level = case.get("level")
    verdict, clause, exp = R.logfile_verdict(opts)
    exp_level = R.DEFAULT_HANDLER_LEVEL
    if level is not None:
        lv, num, lclause = R.classify_level(level)
        if lv == R.REFUSE:
            verdict, clause, exp = R.REFUSE, lclause, None
        elif lv == R.UNSPEC:
            verdict, clause, exp = R.UNSPEC, lclause, None
        else:
            exp_level = num
    acc.ev()
    acc.clause("b:" + clause)
    env.begin()
    try:
        text = logfile_text(env, opts, level=level)
        st, cfg = load(text)
        if st == "refused":
            acc.cls("b:refused:" + cfg["class"])
            if verdict == R.ACCEPT:
                acc.violation("refused-but-documented", case, cfg, exp,
                              tags={"kind": "refused-but-documented", "clause": clause, "part": "b"}, size=case_size(case))
            return
        if verdict == R.REFUSE:
            acc.cls("b:accepted-wrongly")
            acc.violation("accepted-but-must-be-refused", case, "accepted", "refused: " + clause,
                          tags={"kind": "accepted-but-must-be-refused", "clause": clause, "part": "b"}, size=case_size(case))
            return
        factory = cfg.handlers[0]
        try:
            h = factory()
        except Exception as e:
            acc.cls("b:factory-raises")
            acc.violation("handler-factory-raises", case, core.exc_desc(e), exp or "a handler",
                          tags={"kind": "handler-factory-raises", "clause": clause, "part": "b"}, size=case_size(case))
            return
        env.track(h)
        acc.nt()
        acc.cls("b:accepted:" + type(h).__name__ + ("" if verdict == R.ACCEPT else ":unspec"))
        if not isinstance(h, logging.Handler):
            acc.violation("not-a-handler", case, repr(h), "logging.Handler",
                          tags={"kind": "not-a-handler", "part": "b"}, size=case_size(case))
            return
        if h.level != exp_level:
            acc.violation("handler-level", case, h.level, exp_level,
                          tags={"kind": "handler-level", "part": "b"}, size=case_size(case))
        if factory() is not h:
            acc.violation("handler-factory-not-memoised", case, "different object", "same object",
                          tags={"kind": "handler-factory-not-memoised", "part": "b"}, size=case_size(case))
        if verdict == R.ACCEPT:
            bad = check_file_handler(env, h, exp, env.path(opts["path"]))
            if bad:
                acc.violation("handler-" + bad[0][0], case, describe_handler(h), exp,
                              tags={"kind": "handler-attribute", "attr": bad[0][0], "clause": clause,
                                    "part": "b"}, size=case_size(case))
        acc.sample(lambda: {"part": "b", "opts": opts, "level": level, "verdict": verdict,
                            "clause": clause, "handler": describe_handler(h)})
        del h
    finally:
        env.end()


def b_space():
    for p, m, o, w, i, d, e, lv in itertools.product(B_PATHS, B_MAX, B_OLD, B_WHEN, B_INT, B_DELAY,
                                                     B_ENC, B_LEVEL):
        yield {"part": "b", "level": lv,
               "opts": {"path": p, "max_size": m, "old_files": o, "when": w, "interval": i,
                        "delay": d, "encoding": e}}


# ----------------------------------------------------------------------------
# (c) logger / eventlog sections

MENU = [
    {"type": "logfile", "opts": {"path": "STDOUT"}, "level": None, "format": None, "style": None,
     "cls": "StreamHandler"},
    {"type": "logfile", "opts": {"path": "STDERR"}, "level": "error",
     "format": "H1 %(levelname)s %(message)s", "style": None, "cls": "StreamHandler"},
    {"type": "logfile", "opts": {"path": "FILE:c-a.log", "delay": "true"}, "level": "17",
     "format": "H2 {name} {message}", "style": "format", "cls": "FileHandler"},
    {"type": "logfile", "opts": {"path": "FILE:c-b.log", "max_size": "1kb", "old_files": "2"},
     "level": "DEBUG", "format": "H3 $message ${lineno}", "style": "template",
     "cls": "RotatingFileHandler"},
    {"type": "http-logger", "keys": ["url http://localhost:1/vz"], "level": "Warn",
     "format": "H4 %(message)s", "style": None, "cls": "HTTPHandler"},
    {"type": "email-notifier", "keys": ["from vz@example.invalid", "to ops@example.invalid"],
     "level": "50", "format": "H5 $name", "style": "safe-template", "cls": "SMTPHandler"},
]


def menu_text(env, m):
    if m["type"] == "logfile":
        return logfile_text(env, m["opts"], level=m["level"], fmt=m["format"], style=m["style"])
    lines = ["<%s>" % m["type"]] + ["  " + k for k in m["keys"]]
    if m["level"] is not None:
        lines.append("  level " + m["level"])
    if m["style"] is not None:
        lines.append("  style " + m["style"])
    if m["format"] is not None:
        lines.append("  format " + cfg_value(m["format"]))
    lines.append("</%s>" % m["type"])
    return "\n".join(lines)


def logger_text(env, case):
    lines = ["<%s>" % case["kind"]]
    if case["kind"] == "logger":
        lines.append("  name %s" % case["name"])
        if case.get("propagate") is not None:
            lines.append("  propagate %s" % case["propagate"])
    if case.get("level") is not None:
        lines.append("  level %s" % case["level"])
    for i in case["handlers"]:
        lines.append(menu_text(env, MENU[i]))
    lines.append("</%s>" % case["kind"])
    return "\n".join(lines)


_EXPECTED = {}


def expected_handler(i):
    if i not in _EXPECTED:
        _EXPECTED[i] = _expected_handler(MENU[i])
    return _EXPECTED[i]


def _expected_handler(m):
    if m["level"] is None:
        lvl = R.DEFAULT_HANDLER_LEVEL
    else:
        lvl = R.classify_level(m["level"])[1]
    style = m["style"] or "classic"
    fmt = m["format"] if m["format"] is not None else R.DEFAULT_LOGFILE_FORMAT
    return m["cls"], lvl, R.python_render(style, R.unescape(fmt), R.DEFAULT_DATEFORMAT, R.make_record())


def compare_logger(env, lg, case, exp_level, acc, tagpart):
    """Checks name/level/propagate/handlers of `lg`.  -> True if all fine."""
    lh = env.lh
    ok = True

    def bad(kind, obs, exp, **tags):
        nonlocal ok
        ok = False
        t = {"kind": kind, "part": "c", "via": tagpart}
        t.update(tags)
        acc.violation(kind, case, obs, exp, tags=t, size=case_size(case))

    if case["kind"] == "eventlog":
        if lg is not logging.getLogger() or lg.name != "root":
            bad("wrong-logger", repr(lg), "root logger")
    else:
        if lg is not logging.getLogger(case["name"]) or lg.name != case["name"]:
            bad("wrong-logger", repr(lg), case["name"])
        want = True if case.get("propagate") is None else R.boolean(case["propagate"])
        if lg.propagate != want or type(lg.propagate) is not bool:
            bad("propagate", lg.propagate, want)
    if lg.level != exp_level:
        bad("logger-level", lg.level, exp_level)
    hs = list(lg.handlers)
    n = len(case["handlers"])
    if n == 0:
        # the statement fixes nothing for a logger without handler sections beyond
        # "no configured handler": a do-nothing NullHandler is tolerated
        if any(not isinstance(h, logging.NullHandler) for h in hs):
            bad("handler-count", [type(h).__name__ for h in hs], "no (or only a null) handler")
        return ok
    if len(hs) != n:
        bad("handler-count", [type(h).__name__ for h in hs], n)
        return ok
    for pos, (h, i) in enumerate(zip(hs, case["handlers"])):
        cls, lvl, rendered = expected_handler(i)
        if type(h) is not getattr(lh, cls):
            bad("handler-order-or-class", [type(x).__name__ for x in hs],
                [MENU[j]["cls"] for j in case["handlers"]])
            break
        if h.level != lvl:
            bad("handler-level", [x.level for x in hs],
                [expected_handler(j)[1] for j in case["handlers"]])
            break
        try:
            out = h.format(R.make_record())
        except Exception as e:
            out = core.exc_desc(e)
        if out != rendered:
            bad("handler-format", out, rendered)
            break
    return ok


def check_c(case, env, acc):
    acc.current = case
    acc.ev()
    exp_level = R.DEFAULT_LOGGER_LEVEL
    verdict = R.ACCEPT
    if case.get("level") is not None:
        verdict, num, clause = R.classify_level(case["level"])
        acc.clause("c:" + clause)
        if verdict == R.ACCEPT:
            exp_level = num
    env.begin()
    try:
        text = logger_text(env, case)
        if case.get("via") == "configureLoggers":
            import ZConfig
            try:
                ZConfig.configureLoggers(text)
            except Exception as e:
                acc.cls("c:configureLoggers-refused")
                if verdict == R.ACCEPT:
                    acc.violation("refused-but-documented", case, core.exc_desc(e), "configured",
                                  tags={"kind": "refused-but-documented", "part": "c",
                                        "via": "configureLoggers"}, size=case_size(case))
                return
            if verdict == R.REFUSE:
                acc.violation("level-not-rejected", case, "accepted", "refused",
                              tags={"kind": "level-not-rejected", "part": "c", "via": "configureLoggers"}, size=case_size(case))
                return
            acc.cls("c:configured")
            if case["handlers"]:
                acc.nt()
            if verdict == R.ACCEPT:
                compare_logger(env, logging.getLogger(case["name"]), case, exp_level, acc,
                               "configureLoggers")
            return
        st, cfg = load(text)
        if st == "refused":
            acc.cls("c:refused:" + cfg["class"])
            if verdict == R.ACCEPT:
                acc.violation("refused-but-documented", case, cfg, "accepted",
                              tags={"kind": "refused-but-documented", "part": "c", "via": "factory"}, size=case_size(case))
            return
        if verdict == R.REFUSE:
            acc.violation("level-not-rejected", case, "accepted", "refused",
                          tags={"kind": "level-not-rejected", "part": "c", "via": "factory"}, size=case_size(case))
            return
        factory = cfg.loggers[0]
        try:
            lg = factory()
        except Exception as e:
            acc.cls("c:factory-raises")
            acc.violation("logger-factory-raises", case, core.exc_desc(e), "a logger",
                          tags={"kind": "logger-factory-raises", "part": "c"}, size=case_size(case))
            return
        acc.cls("c:accepted")
        if case["handlers"]:
            acc.nt()
        if verdict == R.UNSPEC:
            return
        first = list(lg.handlers)
        if compare_logger(env, lg, case, exp_level, acc, "factory"):
            try:
                lg2 = factory()
            except Exception as e:
                lg2 = core.exc_desc(e)
            if lg2 is not lg:
                acc.violation("second-call-different-logger", case, repr(lg2), repr(lg),
                              tags={"kind": "second-call-different-logger", "part": "c"}, size=case_size(case))
            else:
                again = list(lg.handlers)
                if len(again) != len(first) or any(a is not b for a, b in zip(again, first)):
                    acc.violation("second-call-changes-handlers", case,
                                  [type(h).__name__ for h in again], [type(h).__name__ for h in first],
                                  tags={"kind": "second-call-changes-handlers", "part": "c"}, size=case_size(case))
                elif lg.level != exp_level:
                    acc.violation("second-call-changes-level", case, lg.level, exp_level,
                                  tags={"kind": "second-call-changes-level", "part": "c"}, size=case_size(case))
        acc.sample(lambda: {"part": "c", "case": case, "level": lg.level,
                            "handlers": [describe_handler(h) for h in lg.handlers]})
        del lg, first
    finally:
        env.end()


def handler_tuples(maxn=3):
    for n in range(0, maxn + 1):
        for t in itertools.product(range(len(MENU)), repeat=n):
            yield list(t)


C_KINDS = [("logger", "vz.a", None), ("logger", "vz.a.b", "true"), ("logger", "vz.c", "false"),
           ("eventlog", None, None)]
C_LEVELS_QUICK = [None, "WARN", "Blather", "0", "50"]


def c_space(tier, first):
    """All (c) cases whose handler tuple starts with `first` (None: the empty tuple
    and the level sweep)."""
    full_levels = [None] + level_space_config()
    if first is None:
        # every level spelling x every logger kind x {no handler, one handler}
        for kind, name, prop in C_KINDS:
            for hs in ([], [2]):
                for lv in full_levels:
                    yield {"part": "c", "kind": kind, "name": name, "propagate": prop, "level": lv,
                           "handlers": hs, "via": "factory"}
        # through ZConfig.configureLoggers (named loggers only)
        for kind, name, prop in C_KINDS[:3]:
            for hs in handler_tuples(2):
                for lv in (None, "debug", "51"):
                    yield {"part": "c", "kind": kind, "name": name, "propagate": prop, "level": lv,
                           "handlers": hs, "via": "configureLoggers"}
        return
    levels = C_LEVELS_QUICK if tier == "quick" else full_levels
    for hs in handler_tuples(3):
        if not hs or hs[0] != first or hs == [2]:
            continue
        for kind, name, prop in C_KINDS:
            for lv in levels:
                yield {"part": "c", "kind": kind, "name": name, "propagate": prop, "level": lv,
                       "handlers": hs, "via": "factory"}


# ----------------------------------------------------------------------------
# (d) formats

CL_TYPES = "diouxXeEfFgGcrsa"
CL_FLAGS = ["", "-", "0", "+", " ", "#"]
CL_WIDTH = ["", "9", "*"]
CL_PREC = ["", ".3", ".*"]
CL_LEN = ["", "l"]
FULL_FIELDS_QUICK = ("lineno", "created", "thread", "message", "levelno", "name", "msecs", "args")

FM_CONV = ["", "!r", "!s", "!a", "!x"]
FM_SPEC = ["", ":", ":s", ":d", ":x", ":X", ":o", ":b", ":c", ":e", ":E", ":f", ":F", ":g", ":G", ":n",
           ":%", ":>12", ":<12", ":^12", ":*^12", ":=+8", ":+", ":-", ": ", ":#x", ":08.3f", ":.2f", ":.3",
           ":,", ":_", ":12,.1f", ":z.1f", ":{lineno}", ":>{lineno}", ":.{levelno}", ":q"]
FM_SPEC_CORE = ["", ":s", ":d", ":c", ":f", ":>12", ":.3", ":x"]

CANON = {"classic": "%(@)s", "format": "{@}", "template": "${@}", "safe-template": "$@"}


def canon(style, field):
    return CANON[style].replace("@", field)
AFFIXES = ["", "a ", "\\n", "\\t", "\\b", "\\f", "\\r", "\\x", "\\\\ ", "%%", "100%% ", "{{", "}}", "{", "}",
           "$$", "$", "#", " b"]
UNKNOWN_FIELDS = ["nosuch", "extra", "Message", "asctime_", "x1"]
FORMATTERS = [None, "logging.Formatter", "vz.harness.vzfmt.StylelessFormatter",
              "vz.harness.vzfmt.styleless_formatter", "vz.harness.vzfmt.StyledFormatter"]
DATEFORMATS = [None, "%H-%M-%S", "%d/%m/%Y at %H"]
ASCTIME_FORMATS = {
    "classic": ["%(asctime)s", "%(asctime)-30s", "%(asctime).4s", "%(asctime)r", "x%(asctime)sx"],
    "format": ["{asctime}", "{asctime!s}", "{asctime!r}", "{asctime:>30}", "{asctime:.4}", "{asctime[0]}"],
    "template": ["${asctime}", "$asctime", "$asctime.", "x${asctime}x", "$$asctime ${message}"],
    "safe-template": ["${asctime}", "$asctime", "$asctime.", "x${asctime}x", "$$asctime ${message}",
                      "${asctime"],
}


def classic_feature(flag, width, prec, ln, typ):
    if ln:
        return "length-modifier"
    if "*" in width or "*" in prec:
        return "star"
    return "conv-" + typ


def d_formats(style, field, full):
    """Formats of `style` that reference `field`: (format, feature, has_field).
    In the pattern lists '@' stands for the field name."""
    def sub(pat):
        return pat.replace("@", field)

    if style == "classic":
        if full:
            for flag, width, prec, ln, typ in itertools.product(CL_FLAGS, CL_WIDTH, CL_PREC, CL_LEN,
                                                                CL_TYPES):
                yield ("%(" + field + ")" + flag + width + prec + ln + typ,
                       classic_feature(flag, width, prec, ln, typ), True)
        else:
            for typ in CL_TYPES:
                yield "%(" + field + ")" + typ, "conv-" + typ, True
            yield sub("%(@)-9.3s"), "conv-s", True
            yield sub("%(@)ld"), "length-modifier", True
        for bad in ("%(@)", "%(@", "%(@)z", "%@", "%(@)s%", "%(@)s %s", "%(@)s %(@)"):
            yield sub(bad), "malformed", True
        yield sub("%%(@)s"), "no-field", False
    elif style == "format":
        specs = FM_SPEC if full else FM_SPEC_CORE
        convs = FM_CONV if full else ["", "!r"]
        for conv in convs:
            for spec in specs:
                feat = "spec" + (spec[1:2] if spec[1:2] in ("z", "q") else "")
                if conv == "!x":
                    feat = "bad-conversion"
                yield "{" + field + conv + spec + "}", feat, True
        for tail in (".nosuch", "[0]", "[5]", "[k]", ".real", ".__class__"):
            yield "{" + field + tail + "}", "attr-or-index", True
        for bad in ("{@", "@}", "{@!}", "{@:", "{ @}", "{@ }", "{@}{", "{@}}", "{@!rr}", "{@:{}}",
                    "{@} {}", "{@} {0}"):
            yield sub(bad), "malformed", True
        yield sub("{{@}}"), "no-field", False
    else:
        for pat in ("$@", "${@}", "$@.", "${@}x", "x$@", "$$$@", "$@$$", "${@}${@}", "$@-${@}"):
            yield sub(pat), "named", True
        for pat in ("${@", "$@}", "$ {@}", "${@ }", "${ @}", "$@$", "$@ $", "${@} ${", "${@} $1",
                    "${@:x}"):
            yield sub(pat), "malformed", True
        yield sub("$@_x"), "unknown-field", True
        yield sub("$$@"), "no-field", False
        yield sub("$${@}"), "no-field", False


D_SPECIAL = {
    "classic": ["static text", "", "%%", "%", "%s", "%d", "%()s", "%(", "100%% done", "%(message)s%",
                "%c", "{message}", "$message", "${message}"],
    "format": ["static text", "", "{}", "{0}", "{0.name}", "{{", "}}", "{{}}", "{", "}", "{!r}", "{:>5}",
               "%(message)s", "$message", "${message}"],
    "template": ["static text", "", "$", "$$", "$1", "${}", "${1}", "$$ text", "$-", "%(message)s",
                 "{message}"],
    "safe-template": ["static text", "", "$", "$$", "$1", "${}", "${1}", "$$ text", "$-", "%(message)s",
                      "{message}"],
}


def has_field(style, fmt):
    """Does the format contain a reference to a field, in the syntax of its style?"""
    if style == "classic":
        i = fmt.replace("%%", "").find("%(")
        return i >= 0
    if style == "format":
        import string
        try:
            return any(f is not None for _, f, _, _ in string.Formatter().parse(fmt))
        except ValueError:
            return False
    import string
    for m in string.Template.pattern.finditer(fmt):
        if m.group("named") or m.group("braced"):
            return True
    return False


def d_space(tier, style, field):
    """Cases of shard (style, field); field None = the field-independent cases."""
    thorough = tier != "quick"
    if field is None:
        for fmt in D_SPECIAL[style]:
            for arb in (False, True):
                for fk in FORMATTERS:
                    yield dcase(style, fmt, arb, "special", fk)
        for pre in AFFIXES:
            for post in AFFIXES:
                fmt = pre + canon(style, "message") + post
                if fmt != fmt.strip():
                    continue
                for arb in (False, True):
                    yield dcase(style, fmt, arb, "affix")
                if not pre:
                    # the affix alone: a format without any field
                    if post and post == post.strip():
                        for arb in (False, True):
                            yield dcase(style, "x" + post, arb, "affix-only")
        for uf in UNKNOWN_FIELDS:
            for fmt, feat, hf in d_formats(style, uf, False):
                for arb in (False, True):
                    yield dcase(style, fmt, arb, "unknown-field" if hf else feat)
        # date formats x every way of referring to asctime x formatter factories
        for df in DATEFORMATS:
            for fmt in ASCTIME_FORMATS[style] + [canon(style, "asctime") + " " + canon(style, "message"),
                                                 canon(style, "message")]:
                for fk in FORMATTERS:
                    yield dcase(style, fmt, False, "dateformat", fk, df)
        return
    full = thorough or field in FULL_FIELDS_QUICK
    for fmt, feat, hf in d_formats(style, field, full):
        for arb in (False, True):
            yield dcase(style, fmt, arb, feat)
    # the reference syntax of every *other* style under this style, and custom formatters
    for other in R.STYLES:
        fmt = canon(other, field)
        for arb in (False, True):
            for fk in FORMATTERS[1:]:
                yield dcase(style, fmt, arb, "cross-style:" + other if other != style else "canonical", fk)
            if other != style and not (style in ("template", "safe-template")
                                       and other in ("template", "safe-template")):
                yield dcase(style, fmt, arb, "cross-style:" + other)


def dcase(style, fmt, arb, feature, formatter=None, dateformat=None):
    return (style, fmt, arb, feature, formatter, dateformat)


def dcase_dict(t, field):
    return {"part": "d", "style": t[0], "format": t[1], "arbitrary": t[2], "feature": t[3],
            "formatter": t[4], "dateformat": t[5], "field": field}


_D_CASES = None


def d_cases(tier):
    """The complete, duplicate-free list of (d) cases (built once in the parent,
    inherited by the forked workers; shards are index ranges of it)."""
    global _D_CASES
    if _D_CASES is None or _D_CASES[0] != tier:
        seen = set()
        out = []
        for style in R.STYLES:
            for field in (None,) + tuple(R.FIELDS):
                for t in d_space(tier, style, field):
                    key = (t[0], t[1], t[2], t[4], t[5])
                    if key not in seen:
                        seen.add(key)
                        out.append((t, field))
        _D_CASES = (tier, out)
    return _D_CASES[1]


def check_d(case, env, acc):
    style, fmt, arb = case["style"], case["format"], case["arbitrary"]
    acc.current = case
    acc.ev()
    ufmt = R.unescape(fmt)
    hf = has_field(style, ufmt)
    feature = case["feature"] if hf else "no-field"
    if hf:
        acc.nt()
    datefmt = case["dateformat"] or R.DEFAULT_DATEFORMAT
    try:
        ref = ("ok", R.python_render(style, ufmt, datefmt, R.make_record()))
    except Exception as e:
        ref = ("raises", type(e).__name__)
    extra = []
    if arb:
        extra.append("arbitrary-fields true")
    if case["formatter"]:
        extra.append("formatter " + case["formatter"])
    if case["dateformat"]:
        extra.append("dateformat " + case["dateformat"])
    text = logfile_text(env, {"path": "STDOUT"}, fmt=fmt, style=style, extra=extra)
    tags = {"part": "d", "style": style, "feature": feature}
    size = 10 * len(fmt) + (1 if arb else 0) + (3 if case["formatter"] else 0) + (3 if case["dateformat"] else 0)
    env.begin()
    try:
        st, cfg = load(text)
        if st == "refused":
            acc.cls("d:refused:" + ("config-error" if cfg["family"] else cfg["class"]))
            if ref[0] == "ok" and R.python_validates(style, ufmt) and not arb:
                acc.extra["d:refused-though-python-takes-and-renders-it"] += 1
                acc.extra["d:refused-though-python-takes-and-renders-it:%s:%s" % (style, case["feature"])] += 1
            return
        factory = cfg.handlers[0]
        try:
            h = factory()
        except Exception as e:
            acc.cls("d:accepted-build-raises")
            # python_validates: what logging.Formatter itself says about this format
            # under this style (None: safe-template has no counterpart in logging)
            acc.violation("accepted-format-cannot-build-formatter", case, core.exc_desc(e),
                          "a handler with a formatter",
                          tags=dict(tags, kind="accepted-format-cannot-build-formatter", stage="build",
                                    exc=type(e).__name__,
                                    python_validates=R.python_validates(style, ufmt, datefmt)),
                          size=size)
            return
        env.track(h)
        try:
            out = ("ok", h.format(R.make_record()))
        except Exception as e:
            out = ("raises", type(e).__name__)
        del h
        if out[0] == "ok" and ref[0] == "ok":
            acc.cls("d:rendered")
            if out[1] != ref[1]:
                acc.violation("rendering-differs", case, out[1], ref[1],
                              tags=dict(tags, kind="rendering-differs", stage="format"), size=size)
        elif out[0] == "raises" and ref[0] == "raises":
            if arb:
                acc.cls("d:arbitrary-both-raise")
            else:
                acc.cls("d:accepted-format-raises")
                acc.violation("accepted-format-raises-on-ordinary-record", case, out, "a rendering",
                              tags=dict(tags, kind="accepted-format-raises-on-ordinary-record",
                                        stage="format", exc=out[1], field=case.get("field")),
                              size=size)
        elif out[0] == "raises":
            acc.cls("d:only-component-raises")
            acc.violation("formatter-raises-where-python-renders", case, out, ref,
                          tags=dict(tags, kind="formatter-raises-where-python-renders", stage="format",
                                    exc=out[1]), size=size)
        else:
            acc.cls("d:only-python-raises")
            acc.violation("rendering-differs", case, out, ref,
                          tags=dict(tags, kind="rendering-differs", stage="format"), size=size)
        acc.sample(lambda: {"part": "d", "case": case, "reference": ref, "observed": out})
    finally:
        env.end()


# ----------------------------------------------------------------------------
# (e) factory / registry operation sequences

SLOT_KINDS = {
    "plain": {},
    "plain-delay": {"delay": "true"},
    "rot": {"max_size": "1kb", "old_files": "2"},
    "rot-delay": {"max_size": "1kb", "old_files": "2", "delay": "true"},
    "timed": {"when": "D", "old_files": "2"},
    "timed-delay": {"when": "D", "old_files": "2", "delay": "true"},
}
KIND_NAMES = list(SLOT_KINDS)


def ops_for(n):
    return [["F", j] for j in range(n)] + [["R"], ["C"]] + [["D", j] for j in range(n)]


class SlotRefused(Exception):
    pass


class RegSys:
    """The implementation side of (e): n handler factories of one loaded
    configuration, driven by operations, observed after every operation."""

    def __init__(self, env, kinds, paths=None, used=False):
        """paths: which file each section names (None: every section its own file;
        [0, 0]: both the same path); used: a record is logged through handler j
        every time factory j is called - part (h)."""
        self.env = env
        self.kinds = kinds
        self.n = len(kinds)
        self.paths = list(range(self.n)) if paths is None else list(paths)
        self.used = used
        self.stats = collections.Counter()
        secs = []
        for j, k in enumerate(kinds):
            opts = dict(SLOT_KINDS[k], path="FILE:e-%d.log" % self.paths[j])
            secs.append(logfile_text(env, opts, fmt="%(message)s"))
        self.text = "\n".join(secs)
        self.factories = self._load()
        self.wr = [None] * self.n
        self.dead_entries = 0
        delays = [k.endswith("-delay") for k in kinds]
        if paths is None and not used:
            self.model = R.RegistryModel(delays)
        else:
            from vz.ref import logusage
            self.model = logusage.UsageModel(delays, self.paths)

    def _load(self):
        st, cfg = load(self.text)
        if st != "ok":
            # a plain / rotating <logfile> with format %(message)s has to be accepted
            raise SlotRefused(cfg)
        return list(cfg.handlers)

    def handler(self, j):
        w = self.wr[j]
        return w() if w is not None else None

    def step(self, op):
        """Apply op to implementation and model; -> list of (what, observed, expected)."""
        lh = self.env.lh
        bad = []
        before = {}
        for j in range(self.n):
            h = self.handler(j)
            if h is not None:
                before[j] = h.stream
            del h
        acted = None
        if op[0] == "F":
            j = op[1]
            try:
                h = self.factories[j]()
            except Exception as e:
                return [("factory-raises", core.exc_desc(e), "a handler")]
            created = self.model.call_factory(j)
            if created:
                self.wr[j] = weakref.ref(h)
                self.env.track(h)
            elif self.handler(j) is not h:
                bad.append(("factory-returned-another-handler", repr(h), "the memoised handler"))
            if self.used and not bad:
                self._use(j, h)
            del h
        elif op[0] == "R":
            self._situation("R")
            try:
                lh.reopenFiles()
            except Exception as e:
                return [("reopenFiles-raises", core.exc_desc(e), "no exception")]
            acted = self.model.reopen()
        elif op[0] == "C":
            self._situation("C")
            try:
                lh.closeFiles()
            except Exception as e:
                return [("closeFiles-raises", core.exc_desc(e), "no exception")]
            acted = self.model.close_all()
        else:
            j = op[1]
            # drop the only strong reference: the factory (which memoises the
            # handler) is replaced by the same factory of a fresh load
            try:
                self.factories[j] = self._load()[j]
            except SlotRefused as e:
                return [("slot-configuration-refused", e.args[0], "accepted")]
            gc.collect()
            if self.model.drop(j):
                if self.handler(j) is not None:
                    bad.append(("handler-survives-its-last-reference", "alive", "collected"))
                self.wr[j] = None
        # registry == live, unclosed handlers
        reg = [w() for w in lh._reopenable_handlers]
        self.dead_entries += sum(1 for h in reg if h is None)
        mine = {}
        for j in range(self.n):
            h = self.handler(j)
            if h is not None:
                mine[id(h)] = j
        reg_slots = sorted(mine.get(id(h), -1) for h in reg if h is not None)
        del reg
        if reg_slots != self.model.registered():
            bad.append(("registry", reg_slots, self.model.registered()))
        # per-slot state
        for j in range(self.n):
            h = self.handler(j)
            m = self.model.slots[j]
            if m is None:
                if h is not None:
                    bad.append(("slot-%d-alive" % j, True, False))
                continue
            if h is None:
                bad.append(("slot-%d-alive" % j, False, True))
                continue
            is_open = h.stream is not None and not h.stream.closed
            if is_open != m["open"]:
                bad.append(("stream-open-after-" + op[0], is_open, m["open"]))
            if acted is not None:
                old = before.get(j)
                if j in acted:
                    if old is not None and not old.closed:
                        bad.append(("old-stream-left-open-by-" + op[0], "open", "closed"))
                    if op[0] == "R" and old is not None and h.stream is old:
                        bad.append(("not-reopened", "same stream", "new stream"))
                elif h.stream is not old:
                    bad.append(("touched-unregistered-handler-" + op[0], repr(h.stream), repr(old)))
            del h
        return bad

    def _use(self, j, h):
        """(h) the application logs one record through the handler it has just got."""
        from vz.ref import logusage
        verdict = self.model.use(j)
        old = logging.raiseExceptions
        logging.raiseExceptions = False
        try:
            h.handle(R.make_record())
        finally:
            logging.raiseExceptions = old
        if verdict == logusage.UNSPECIFIED:
            self.model.adopt(j, h.stream is not None and not h.stream.closed)
            self.stats["h:record-through-a-handler-closeFiles-has-closed(unspecified, stream state adopted)"] += 1
        else:
            self.stats["h:record-through-a-registered-handler"] += 1
            if self.model.delay[j]:
                self.stats["h:record-through-a-registered-delayed-handler"] += 1

    def _situation(self, op):
        """(h) classes of what an R / C operation meets (model side; vacuity guards)."""
        m = self.model
        if not hasattr(m, "registered_on_one_file"):
            return
        k = m.registered_on_one_file()
        if k >= 2:
            self.stats["h:%s-with->=2-registered-handlers-on-one-file" % op] += 1
        if k >= 3:
            self.stats["h:%s-with-3-registered-handlers-on-one-file" % op] += 1
        if m.registered_delayed_open():
            self.stats["h:%s-with-a-registered-delayed-handler-whose-file-is-open" % op] += 1
        if m.unregistered_open():
            self.stats["h:%s-with-a-closed-handler-a-record-has-opened-again(must-be-left-alone)" % op] += 1

    def key(self):
        """Canonical implementation state."""
        lh = self.env.lh
        slots = []
        ids = {}
        for j in range(self.n):
            h = self.handler(j)
            if h is None:
                slots.append(None)
                continue
            ids[id(h)] = j
            slots.append((any(w() is h for w in lh._reopenable_handlers),
                          "none" if h.stream is None else ("closed" if h.stream.closed else "open")))
            del h
        order = tuple(ids.get(id(w()), -1) for w in lh._reopenable_handlers)
        return tuple(slots), order


def run_sequence(env, kinds, ops, acc, count_traces=True, paths=None, used=False):
    """-> (problems of the first failing step, index) or (None, None)"""
    env.begin()
    try:
        try:
            s = RegSys(env, kinds, paths, used)
        except SlotRefused as e:
            return [("slot-configuration-refused", e.args[0], "accepted")], -1, None
        for i, op in enumerate(ops):
            bad = s.step(op)
            if count_traces:
                acc.traces += 1
            if bad:
                return bad, i, None
        if s.dead_entries:
            # tolerated (they are skipped by reopenFiles/closeFiles), but made visible
            acc.extra["e:dead-registry-entries-seen"] += s.dead_entries
        if count_traces:
            for k, v in s.stats.items():
                acc.extra[k] += v
        key = s.key()
        del s
        return None, None, key
    finally:
        env.end()


def h_case(kinds, ops, paths, used):
    case = {"part": "e", "slots": kinds, "ops": ops}
    if paths is not None or used:
        case.update(part="h", paths=list(range(len(kinds))) if paths is None else paths, used=used)
    return case


def paths_class(paths):
    if paths is None or len(set(paths)) == len(paths):
        return "own-files"
    return "one-file" if len(set(paths)) == 1 else "some-on-one-file"


def report_e(acc, kinds, ops, i, bad, paths=None, used=False):
    what = bad[0][0]
    case = h_case(kinds, ops[:i + 1], paths, used)
    tags = {"kind": "registry", "what": what.split("-after-")[0],
            "op": ops[i][0] if i >= 0 else "load", "part": case["part"]}
    if case["part"] == "h":
        tags.update(paths=paths_class(paths), used=used)
    acc.violation("registry-" + what, case,
                  [list(b[:2]) for b in bad], [[b[0], b[2]] for b in bad], tags=tags,
                  size=len(ops[:i + 1]) * 100 + len(kinds) + (0 if paths is None else 10 * len(set(paths)))
                  + (5 if used else 0))


def nontrivial_seq(ops):
    for i, op in enumerate(ops):
        if op[0] == "F" and any(o[0] in "RCD" for o in ops[i + 1:]):
            return True
    return False


def shard_e_bfs(kinds, depth, env, acc, paths=None, used=False):
    ops = ops_for(len(kinds))
    P = "e" if paths is None and not used else "h"
    bad, i, k0 = run_sequence(env, kinds, [], acc, paths=paths, used=used)
    if bad:
        acc.cls(P + ":bfs-violation")
        report_e(acc, kinds, [], i, bad, paths, used)
        return
    seen = {k0}
    frontier = collections.deque([[]])
    while frontier:
        hist = frontier.popleft()
        for op in ops:
            seq = hist + [op]
            acc.current = h_case(kinds, seq, paths, used)
            bad, i, key = run_sequence(env, kinds, seq, acc, count_traces=False, paths=paths, used=used)
            acc.transitions += 1
            acc.traces += 1
            if bad:
                acc.cls(P + ":bfs-violation")
                report_e(acc, kinds, seq, i, bad, paths, used)
                continue
            acc.cls(P + ":bfs-ok")
            if len(seq) < depth and key not in seen:
                seen.add(key)
                frontier.append(seq)
            elif key not in seen:
                seen.add(key)
    acc.states += len(seen)
    acc.extra[P + ":bfs-configs"] += 1
    if P == "h":
        acc.extra["h:bfs-states"] += len(seen)
    acc.sample(lambda: dict(h_case(kinds, [], paths, used), bfs_states=len(seen), depth=depth))


def shard_e_seq(kinds, prefix, depth, env, acc, paths=None, used=False):
    ops = ops_for(len(kinds))
    P = "e" if paths is None and not used else "h"
    for tail in itertools.product(ops, repeat=depth - len(prefix)):
        seq = list(prefix) + list(tail)
        acc.current = h_case(kinds, seq, paths, used)
        bad, i, _ = run_sequence(env, kinds, seq, acc, paths=paths, used=used)
        acc.ev()
        acc.extra[P + ":sequences"] += 1
        if P == "h":
            acc.extra["h:sequences:%s:%s" % (paths_class(paths), "used" if used else "unused")] += 1
        if nontrivial_seq(seq):
            acc.nt()
        if bad:
            acc.cls(P + ":seq-violation")
            report_e(acc, kinds, seq, i, bad, paths, used)
        else:
            acc.cls(P + ":seq-ok")


TRIPLES = [["plain", "rot", "timed"], ["plain-delay", "rot-delay", "timed-delay"],
           ["plain", "plain", "rot-delay"], ["timed", "rot", "plain-delay"]]


def e_configs(tier):
    """-> list of (kinds, depth) for the all-sequences sweep"""
    K = KIND_NAMES
    if tier == "quick":
        return ([([a], 4) for a in K] + [([a, b], 4) for a in K for b in K]
                + [(t, 4) for t in TRIPLES[:2]])
    return ([([a], 6) for a in K] + [([a, b], 6) for a in K for b in K]
            + [(t, 6) for t in TRIPLES[:2]] + [(t, 5) for t in TRIPLES[2:]])


def e_bfs_configs(tier):
    K = KIND_NAMES
    out = [([a], 4) for a in K] + [([a, b], 4) for a in K for b in K]
    if tier == "quick":
        return out + [(t, 4) for t in TRIPLES]
    return ([([a], 6) for a in K] + [([a, b], 6) for a in K for b in K]
            + [([a, b, c], 6) for a in K for b in K for c in K])


# ----------------------------------------------------------------------------
# (h) the machine of (e) with two more axes of the CONFIGURATION:
#
#  * WHICH FILE each handler section names: every assignment of the n sections to
#    files up to renaming (set partitions: [0, 1] two files, [0, 0] both sections the
#    same path - with equal kinds the same section text twice).  The statement speaks
#    of "exactly the file HANDLERS still alive": what two handlers have in common
#    (file name, file, class, every option) must not make reopenFiles() /
#    closeFiles() / the factories treat them as one.
#  * whether the handlers are USED: a record is logged through handler j every time
#    the application gets it from factory j.  A delayed handler then has an open file,
#    so that what R / C do to it can be seen at all, and a handler that closeFiles()
#    has closed gets its file opened again by the standard library: alive, not
#    registered, open - R / C must leave it alone.
#
# (e) is the point (every section its own file, unused); (h) enumerates the rest of
# the product.  Oracle: vz.ref.logusage.UsageModel = the registry model of (e), for
# which the path assignment is not an input at all.

H_DEPTH4_KINDS = ["plain", "plain-delay", "rot"]


def h_variants(n):
    """(paths, used) for n sections, without the point that is part (e)."""
    from vz.ref import logusage
    own = list(range(n))
    return [(p, u) for p in logusage.partitions(n) for u in (False, True) if not (p == own and not u)]


def h_configs(tier):
    """-> list of (kinds, paths, used, depth) for the all-sequences sweep"""
    K = KIND_NAMES
    out = []
    if tier == "quick":
        out += [([a], p, u, 4) for a in K for p, u in h_variants(1)]
        out += [([a, b], p, u, 4 if a in H_DEPTH4_KINDS and b in H_DEPTH4_KINDS else 3)
                for a in K for b in K for p, u in h_variants(2)]
        out += [(t, p, u, 3) for t in TRIPLES[:2] for p, u in h_variants(3)]
        return out
    out += [([a], p, u, 6) for a in K for p, u in h_variants(1)]
    out += [([a, b], p, u, 5) for a in K for b in K for p, u in h_variants(2)]
    # 3 registered handlers on ONE file before an R / C need F F F R: length 5 there
    out += [(t, p, u, 5 if p == [0, 0, 0] else 4) for t in TRIPLES for p, u in h_variants(3)]
    return out


def h_bfs_configs(tier):
    K = KIND_NAMES
    d = 4 if tier == "quick" else 6
    out = [([a], p, u, d) for a in K for p, u in h_variants(1)]
    out += [([a, b], p, u, d) for a in K for b in K for p, u in h_variants(2)]
    out += [(t, p, u, 4 if tier == "quick" else 5) for t in TRIPLES for p, u in h_variants(3)]
    return out


def h_shards(tier):
    out = []
    for kinds, paths, used, depth in h_bfs_configs(tier):
        out.append(("h-bfs", kinds, paths, used, depth))
    for kinds, paths, used, depth in h_configs(tier):
        ops = ops_for(len(kinds))
        plen = 0 if len(ops) ** depth < 2000 else (1 if len(ops) ** depth < 20000 else 2)
        for prefix in itertools.product(ops, repeat=plen):
            out.append(("h-seq", kinds, paths, used, list(prefix), depth))
    return out


# ----------------------------------------------------------------------------
# (f) histories: what a section means must not depend on what the process loaded
#     before it.
#
# Handler sections ("atoms") are (style, format, arbitrary-fields, formatter,
# dateformat).  Every format TEXT of the alphabet is combined with EVERY style, so
# two atoms may agree in any subset of the five attributes.
#  * baseline(a): the outcome of section a when it is the first thing a fresh
#    process loads (fresh = forked from a process that never loaded a
#    configuration); held against Python's rendering like in (d).
#  * placement "loads": for every section q a fresh process loads q and then, for
#    every prefix (p) [thorough: also (p1, p2)] of the alphabet in order, the
#    sections of the prefix and q again, each alone.  EVERY one of these loads has
#    to equal the baseline of its section (so every ordered pair of sections occurs
#    as two consecutive loads, in both roles).
#  * placements "logger" / "top": for every q another fresh process loads, for
#    every prefix, ONE configuration text with the prefix's sections and q as
#    sibling handler sections: accepted iff each section's baseline is accepted,
#    and then every handler has to look like its section's baseline.
# The histories of one (q, placement) share their process, so a later one also has
# the earlier ones behind it; a deviation is re-run on its own in yet another fresh
# process to get a minimal replayable case.
#
# (fl) the same idea for logger sections: q's factory is called on a logging tree
# on which p's factory has just been called (same logger, its child, its parent,
# the root logger), without any reset in between.

H_FIELDS = ("message", "nosuch")
H_DATEFORMAT = "%H-%M-%S"
H_STATIC = "static text"
# exactly one of the three references is a field under each style
H_ASCTIME = "%(asctime)s {asctime} ${asctime}"
H_FORMATTERS = (None, "vz.harness.vzfmt.StylelessFormatter", "vz.harness.vzfmt.StyledFormatter")
H_PLACEMENTS_QUICK = ("loads", "logger")
H_PLACEMENTS = ("loads", "logger", "top")
H_LOGGER_NAME = PREFIX + ".f"


def h_formats_core():
    """Each style's canonical reference to a known and to an unknown field."""
    return [canon(s, f) for s in R.STYLES for f in H_FIELDS]


def h_formats_mixed(full=True):
    """A reference in the syntax of each of the three syntaxes, each to a known or
    an unknown field: what it means differs from style to style.  full=False: at
    most one of the three to the unknown field (still both cases for every style)."""
    return ["%%(%s)s {%s} ${%s}" % t for t in itertools.product(H_FIELDS, repeat=3)
            if full or t.count(H_FIELDS[1]) <= 1]


def h_formats(full=True):
    return h_formats_core() + h_formats_mixed(full) + [H_STATIC, H_ASCTIME]


def h_atoms(level):
    """level 'small' (prefixes of length 2), 'quick', 'thorough' -> list of atoms"""
    out = []
    if level == "small":
        for style in R.STYLES:
            for fmt in h_formats_core() + [H_STATIC]:
                for arb in (False, True):
                    out.append((style, fmt, arb, None, None))
        return out
    if level == "thorough":
        for style in R.STYLES:
            for fmt in h_formats():
                for arb in (False, True):
                    for fk in H_FORMATTERS:
                        for df in (None, H_DATEFORMAT):
                            out.append((style, fmt, arb, fk, df))
        return out
    for style in R.STYLES:
        for fmt in h_formats(full=False):
            for arb in (False, True):
                out.append((style, fmt, arb, None, None))
    for style in R.STYLES:
        for arb in (False, True):
            out.append((style, H_ASCTIME, arb, None, H_DATEFORMAT))
    all_known = h_formats_mixed()[0]
    for style in R.STYLES:
        # (the formatter factories differ in what they validate: a field-less text too)
        for fmt in (all_known, H_ASCTIME, H_STATIC):
            for fk in H_FORMATTERS[1:]:
                for df in (None, H_DATEFORMAT):
                    out.append((style, fmt, False, fk, df))
    return out


def atom_dict(a):
    return {"style": a[0], "format": a[1], "arbitrary": a[2], "formatter": a[3], "dateformat": a[4]}


def atom_tuple(d):
    return (d["style"], d["format"], d["arbitrary"], d["formatter"], d["dateformat"])


def atom_text(env, a):
    extra = []
    if a[2]:
        extra.append("arbitrary-fields true")
    if a[3]:
        extra.append("formatter " + a[3])
    if a[4]:
        extra.append("dateformat " + a[4])
    return logfile_text(env, {"path": "STDOUT"}, fmt=a[1], style=a[0], extra=extra)


def atoms_differ(p, q):
    """Which attributes distinguish q from p (part of a violation's signature)."""
    names = ("style", "format", "arbitrary", "formatter", "dateformat")
    return "+".join(n for n, x, y in zip(names, p, q) if x != y) or "nothing"


def observe_handler(h):
    fm = h.formatter
    try:
        out = ("ok", h.format(R.make_record()))
    except Exception as e:
        out = ("raises", type(e).__name__)
    return ("ok", type(fm).__name__, out)


def okey(o):
    """What of an observation has to be history-independent: the verdict and, when
    accepted, formatter class and rendering (the class of a refusal is not fixed
    by the statement)."""
    return o[:1] if o[0] == "refused" else o


def load_alone(env, a):
    env.begin()
    try:
        st, cfg = load(atom_text(env, a))
        if st == "refused":
            return ("refused", "config-error" if cfg["family"] else cfg["class"])
        try:
            h = cfg.handlers[0]()
        except Exception as e:
            return ("build-raises", type(e).__name__)
        env.track(h)
        return observe_handler(h)
    finally:
        env.end()


def load_siblings(env, atoms, placement):
    """The atoms as sibling handler sections of ONE configuration text.
    -> ('refused', cls) | ('build-raises', exc) | ('ok', [observation per handler])"""
    secs = [atom_text(env, a) for a in atoms]
    if placement == "logger":
        text = "<logger>\n  name %s\n%s\n</logger>" % (H_LOGGER_NAME, "\n".join(secs))
    else:
        text = "\n".join(secs)
    env.begin()
    try:
        st, cfg = load(text)
        if st == "refused":
            return ("refused", "config-error" if cfg["family"] else cfg["class"])
        try:
            if placement == "logger":
                hs = list(cfg.loggers[0]().handlers)
            else:
                hs = [f() for f in cfg.handlers]
        except Exception as e:
            return ("build-raises", type(e).__name__)
        for h in hs:
            env.track(h)
        return ("ok", [observe_handler(h) for h in hs])
    finally:
        env.end()


def tup(x):
    """JSON / pickle neutral form of an observation (nested tuples)."""
    if isinstance(x, (list, tuple)):
        return tuple(tup(i) for i in x)
    return x


def f_child_loads(env, seq, base):
    """Runs in a fresh process: the sections of `seq` loaded alone, one after the
    other.  -> (deviations [(i, observed, baseline)], Counter).  A deviation is
    listed where a section's outcome LEAVES its baseline (its previous observation
    in this process, if any, was still the baseline)."""
    counts = collections.Counter()
    devs = []
    last = {}
    for i, a in enumerate(seq):
        o = load_alone(env, a)
        b = base[a]
        if okey(o) != okey(b):
            counts["f:loads:deviates"] += 1
            if okey(last.get(a, b)) == okey(b):
                devs.append((i, o, b))
        else:
            counts["f:loads:same:" + o[0]] += 1
            if o[0] == "refused" and o[1] != b[1]:
                counts["f:refusal-class-differs-from-baseline(not-claimed)"] += 1
        last[a] = o
    return devs, counts


def f_child_siblings(env, configs, placement, base):
    """Runs in a fresh process: every element of `configs` (a tuple of sections) as
    ONE configuration text with these sibling handler sections.
    -> (deviations [(k, what, observed, expected)], Counter)"""
    counts = collections.Counter()
    devs = []
    for k, atoms in enumerate(configs):
        want = [base[a] for a in atoms]
        keys = [okey(o) for o in want]
        all_ok = all(o[0] == "ok" for o in want)
        got = load_siblings(env, list(atoms), placement)
        if got[0] == "ok":
            counts["f:%s:siblings-accepted" % placement] += 1
            if not all_ok:
                devs.append((k, "siblings-accepted-though-one-is-refused-alone", got, keys))
            elif len(got[1]) != len(want):
                devs.append((k, "siblings-handler-count", len(got[1]), len(want)))
            else:
                for i, (g, w) in enumerate(zip(got[1], want)):
                    if okey(g) != okey(w):
                        devs.append((k, "sibling-differs-from-alone", [i, g], [i, w]))
                        break
        elif got[0] == "refused":
            counts["f:%s:siblings-refused" % placement] += 1
            if all_ok:
                devs.append((k, "siblings-refused-though-each-is-accepted-alone", got, keys))
        else:
            counts["f:%s:siblings-build-raises" % placement] += 1
            devs.append((k, "siblings-build-raises", got, keys))
    return devs, counts


def isolated(func, *args):
    """func(*args) in a forked child of this process; the child's process state is
    thrown away.  -> the (picklable) result."""
    import pickle
    import signal
    import traceback
    sys.stdout.flush()
    sys.stderr.flush()
    r, w = os.pipe()
    pid = os.fork()
    if pid == 0:
        try:
            os.close(r)
            signal.setitimer(signal.ITIMER_REAL, 0)
            try:
                res = ("ok", func(*args))
            except BaseException:
                res = ("error", traceback.format_exc())
            with os.fdopen(w, "wb") as f:
                f.write(pickle.dumps(res))
        finally:
            os._exit(0)
    os.close(w)
    done = False
    try:
        with os.fdopen(r, "rb") as f:
            data = f.read()
        os.waitpid(pid, 0)
        done = True
    finally:
        if not done:
            try:
                os.kill(pid, 9)
                os.waitpid(pid, 0)
            except OSError:
                pass
    if not data:
        raise core.HarnessError("C20(f): the isolated process died without a result")
    st, res = pickle.loads(data)
    if st != "ok":
        raise core.HarnessError("C20(f): isolated process failed:\n" + res)
    return res


# baselines: section -> its outcome when it is the first thing a fresh process loads
_BASE = {}
BASE_KEY = "f:base|"


def judge_baseline(q, base, acc):
    """The first load of q in a fresh process, against Python's own rendering
    (the rules of (d))."""
    style, fmt, arb, fk, df = q
    case = {"part": "f", "placement": "loads", "sequence": [atom_dict(q)]}
    ufmt = R.unescape(fmt)
    tags = {"part": "f", "style": style, "what": "baseline"}
    acc.cls("f:baseline:" + base[0])
    if base[0] == "refused":
        return
    if base[0] == "build-raises":
        acc.violation("accepted-format-cannot-build-formatter", case, base, "a handler with a formatter",
                      tags=dict(tags, kind="accepted-format-cannot-build-formatter", exc=base[1]))
        return
    try:
        ref = ("ok", R.python_render(style, ufmt, df or R.DEFAULT_DATEFORMAT, R.make_record()))
    except Exception as e:
        ref = ("raises", type(e).__name__)
    want_cls = (fk or "logging.Formatter").rsplit(".", 1)[1]
    if base[1] != want_cls:
        acc.violation("formatter-class", case, base[1], want_cls, tags=dict(tags, kind="formatter-class"))
    out = base[2]
    if out[0] == "raises" and ref[0] == "raises":
        if not arb:
            acc.violation("accepted-format-raises-on-ordinary-record", case, out, "a rendering",
                          tags=dict(tags, kind="accepted-format-raises-on-ordinary-record", exc=out[1]))
    elif out != ref:
        acc.violation("rendering-differs", case, out, ref, tags=dict(tags, kind="rendering-differs"))


def shard_f0(shard, env, acc):
    """Baselines of the sections lo..hi-1 of an alphabet, each in its own fresh
    process; handed to run() through counter keys."""
    import json
    _, level, lo, hi = shard
    for a in h_atoms(level)[lo:hi]:
        acc.current = {"part": "f", "placement": "loads", "sequence": [atom_dict(a)]}
        base = tup(isolated(load_alone, env, a))
        acc.extra["f:fresh-processes"] += 1
        acc.extra[BASE_KEY + json.dumps([a, base])] = 1
        acc.ev()
        if base[0] == "ok":
            acc.nt()
        judge_baseline(a, base, acc)
        acc.sample(lambda: {"part": "f", "section": atom_dict(a), "baseline": base})


def collect_baselines(acc):
    """Moves the baselines out of the counters into _BASE (run() calls this between
    the two pools; the workers of the second pool inherit _BASE)."""
    import json
    for k in [k for k in acc.extra if k.startswith(BASE_KEY)]:
        a, base = json.loads(k[len(BASE_KEY):])
        _BASE[tup(a)] = tup(base)
        del acc.extra[k]


F_CONFIRM_MAX = 4


def check_f_loads(q, prefixes, env, acc, seq=None):
    """Fresh process: q, then for every prefix its sections and q again, all alone.
    EVERY load (of q and of the prefix sections) has to equal that section's
    baseline."""
    if seq is None:
        seq = [q]
        for pre in prefixes:
            seq.extend(pre)
            seq.append(q)
        replaying = False
    else:
        replaying = True
    acc.current = {"part": "f", "placement": "loads", "q": atom_dict(q), "sequence-length": len(seq)}
    devs, counts = isolated(f_child_loads, env, seq, _BASE)
    acc.extra["f:fresh-processes"] += 1
    for k, v in counts.items():
        if "not-claimed" in k:
            acc.extra[k] += v
        else:
            acc.cls(k, v)
    if not replaying:
        acc.ev(len(prefixes))
        acc.nt(sum(1 for pre in prefixes if _BASE[q][0] == "ok" or any(_BASE[p][0] == "ok" for p in pre)))
        for a, b in zip(seq, seq[1:]):
            # the neighbourhoods a partial-key memo / shared state would bite in
            if a[:2] == b[:2] and a[2] != b[2] and _BASE[a][0] != _BASE[b][0]:
                acc.extra["f:class:same-style-and-format-other-arbitrary-verdicts-differ"] += 1
            if a[1] == b[1] and a[0] != b[0] and okey(_BASE[a]) != okey(_BASE[b]):
                acc.extra["f:class:same-format-other-style-outcomes-differ"] += 1
            if a[:3] == b[:3] and a[3:] != b[3:] and okey(_BASE[a]) != okey(_BASE[b]):
                acc.extra["f:class:same-format-other-formatter-or-dateformat-outcomes-differ"] += 1
            if a == b:
                acc.extra["f:class:same-section-again"] += 1
    confirmed = 0
    fallback = None
    for i, obs, exp in devs[:F_CONFIRM_MAX]:
        x = seq[i]
        short = seq[max(0, i - 1):i + 1]
        if not replaying and len(short) < len(seq[:i + 1]):
            # does the load right before it suffice, in a fresh process?
            d2, _ = isolated(f_child_loads, env, short, _BASE)
            acc.extra["f:fresh-processes"] += 1
            if not any(j == len(short) - 1 for j, _, _ in d2):
                fallback = fallback or (i, obs, exp)
                continue
        else:
            short = seq[:i + 1]
        confirmed += 1
        report_f_loads(acc, short, obs, exp)
    if fallback and not confirmed:
        i, obs, exp = fallback
        report_f_loads(acc, seq[:i + 1], obs, exp)
    acc.sample(lambda: {"part": "f", "placement": "loads", "q": atom_dict(q), "baseline": _BASE[q],
                        "loads": len(seq), "deviations": len(devs)})


def report_f_loads(acc, seq, obs, exp):
    x = seq[-1]
    if len(seq) == 1:
        differs = "first-load-of-another-fresh-process"
    elif len(seq) == 2:
        differs = atoms_differ(seq[0], x)
    else:
        differs = "longer-history"
    acc.violation("outcome-depends-on-earlier-load",
                  {"part": "f", "placement": "loads", "sequence": [atom_dict(a) for a in seq]}, obs, exp,
                  tags={"part": "f", "kind": "outcome-depends-on-earlier-load", "placement": "loads",
                        "differs": differs, "baseline": exp[0], "observed": obs[0], "style": x[0]},
                  size=1000 * len(seq) + len(repr(seq[-2:])))


def check_f_siblings(q, prefixes, placement, env, acc, configs=None):
    """Fresh process: for every prefix one configuration text with the prefix's
    sections and q as sibling handler sections."""
    replaying = configs is not None
    if configs is None:
        configs = [tuple(pre) + (q,) for pre in prefixes]
    acc.current = {"part": "f", "placement": placement, "q": atom_dict(q), "configs": len(configs)}
    devs, counts = isolated(f_child_siblings, env, configs, placement, _BASE)
    acc.extra["f:fresh-processes"] += 1
    for k, v in counts.items():
        acc.cls(k, v)
    if not replaying:
        acc.ev(len(configs))
        acc.nt(sum(1 for c in configs if any(_BASE[a][0] == "ok" for a in c)))
    confirmed = 0
    fallback = None
    seen = collections.Counter()
    for k, what, obs, exp in devs:
        seen[what] += 1
        if seen[what] > F_CONFIRM_MAX:
            continue
        if not replaying and k > 0:
            d2, _ = isolated(f_child_siblings, env, [configs[k]], placement, _BASE)
            acc.extra["f:fresh-processes"] += 1
            if not any(w == what for _, w, _, _ in d2):
                fallback = fallback or (k, what, obs, exp)
                continue
            cfgs = [configs[k]]
        else:
            cfgs = configs[:k + 1]
        confirmed += 1
        report_f_siblings(acc, cfgs, placement, what, obs, exp)
    if fallback and not confirmed:
        k, what, obs, exp = fallback
        report_f_siblings(acc, configs[:k + 1], placement, what, obs, exp)
    acc.sample(lambda: {"part": "f", "placement": placement, "q": atom_dict(q), "configs": len(configs),
                        "deviations": len(devs)})


def report_f_siblings(acc, configs, placement, what, obs, exp):
    c = configs[-1]
    acc.violation(what, {"part": "f", "placement": placement,
                         "configs": [[atom_dict(a) for a in cfg] for cfg in configs]}, obs, exp,
                  tags={"part": "f", "kind": what, "placement": placement,
                        "differs": atoms_differ(c[-2], c[-1]) if len(configs) == 1 else "longer-history",
                        "verdicts": "+".join(_BASE[a][0] for a in c)},
                  size=1000 * len(configs) + len(repr(c)))


def f_levels(tier):
    return ["quick"] if tier == "quick" else ["thorough", "small"]


def f0_shards(tier):
    out = []
    done = set()
    for level in f_levels(tier):
        atoms = h_atoms(level)
        for lo in range(0, len(atoms), 8):
            # a section that occurs in two alphabets gets its baseline once
            if all(a in done for a in atoms[lo:lo + 8]):
                continue
            out.append(("f0", level, lo, min(lo + 8, len(atoms))))
        done.update(atoms)
    return out


def f_shards(tier):
    """-> shards ('f', level, lo, hi, p1): sections lo..hi-1 of h_atoms(level) as q; p1
    None = prefixes (p) for every section p; else prefixes (section p1, p) for every p."""
    level = f_levels(tier)[0]
    n = len(h_atoms(level))
    step = 4 if tier == "quick" else 8
    out = [("f", level, lo, min(lo + step, n), None) for lo in range(0, n, step)]
    if tier != "quick":
        m = len(h_atoms("small"))
        out += [("f", "small", lo, min(lo + 8, m), p1) for p1 in range(m) for lo in range(0, m, 8)]
    out += [("fl", i) for i in range(len(fl_atoms()))]
    return out


def shard_f(shard, env, acc):
    _, level, lo, hi, p1 = shard
    atoms = h_atoms(level)
    if p1 is None:
        prefixes = [(p,) for p in atoms]
        placements = H_PLACEMENTS_QUICK if level == "quick" else H_PLACEMENTS
    else:
        prefixes = [(atoms[p1], p) for p in atoms]
        placements = H_PLACEMENTS_QUICK
    for q in atoms[lo:hi]:
        for pl in placements:
            if pl == "loads":
                check_f_loads(q, prefixes, env, acc)
            else:
                check_f_siblings(q, prefixes, pl, env, acc)
    acc.extra["f:prefix-length-%d-shards" % (1 if p1 is None else 2)] += 1


# (fl) logger sections on a logging tree that another section has configured

FL_NAMES = (PREFIX + ".h", PREFIX + ".h.c")
FL_LEVELS = (None, "notset", "debug")
FL_HANDLERS = ([], [0], [1, 3])


def fl_atoms():
    out = []
    for name in FL_NAMES:
        for lv in FL_LEVELS:
            for prop in (None, "false"):
                for hs in FL_HANDLERS:
                    out.append({"part": "c", "kind": "logger", "name": name, "propagate": prop,
                                "level": lv, "handlers": list(hs), "via": "factory"})
    for lv in FL_LEVELS:
        for hs in FL_HANDLERS:
            out.append({"part": "c", "kind": "eventlog", "name": None, "propagate": None,
                        "level": lv, "handlers": list(hs), "via": "factory"})
    return out


def snapshot_logger(lg):
    return (lg.level, lg.propagate, [id(h) for h in lg.handlers])


def check_fl(p, q, env, acc):
    case = {"part": "fl", "p": p, "q": q}
    acc.current = case
    acc.ev()
    same = (p["kind"], p["name"]) == (q["kind"], q["name"])
    relation = "same-logger" if same else "%s-after-%s" % (q["name"] or "root", p["name"] or "root")
    size = case_size(p) + case_size(q)

    def bad(kind, obs, exp, **tags):
        t = {"kind": kind, "part": "fl", "relation": relation}
        t.update(tags)
        acc.violation(kind, case, obs, exp, tags=t, size=size)

    def level_of(c):
        return R.DEFAULT_LOGGER_LEVEL if c["level"] is None else R.classify_level(c["level"])[1]

    env.begin()
    try:
        st, cfg_p = load(logger_text(env, p))
        if st == "refused":
            bad("refused-but-documented", cfg_p, "accepted")
            return
        try:
            lp = cfg_p.loggers[0]()
        except Exception as e:
            bad("logger-factory-raises", core.exc_desc(e), "a logger")
            return
        snap_p = snapshot_logger(lp)
        target = logging.getLogger(q["name"]) if q["kind"] == "logger" else logging.getLogger()
        before = list(target.handlers)
        st, cfg_q = load(logger_text(env, q))
        if st == "refused":
            acc.cls("fl:refused-after-another-section")
            bad("refused-but-documented", cfg_q, "accepted")
            return
        factory = cfg_q.loggers[0]
        try:
            lq = factory()
        except Exception as e:
            bad("logger-factory-raises", core.exc_desc(e), "a logger")
            return
        acc.nt()
        acc.cls("fl:" + ("same-logger" if same else "other-logger"))
        if same and snap_p[0] != level_of(q):
            acc.cls("fl:same-logger-level-changes")
            if level_of(q) == 0:
                acc.cls("fl:same-logger-level-back-to-notset")
        if same and q["kind"] == "logger" and snap_p[1] != (q["propagate"] is None):
            acc.cls("fl:same-logger-propagate-changes")
        if lq is not target:
            bad("wrong-logger", repr(lq), repr(target))
            return
        if lq.level != level_of(q):
            bad("logger-level", lq.level, level_of(q))
        if q["kind"] == "logger":
            want = True if q["propagate"] is None else R.boolean(q["propagate"])
            if lq.propagate != want or type(lq.propagate) is not bool:
                bad("propagate", lq.propagate, want)
        hs = list(lq.handlers)
        new = [h for h in hs if not any(h is b for b in before)]
        n = len(q["handlers"])
        if new and hs[-len(new):] != new:
            bad("new-handlers-not-appended", [type(h).__name__ for h in hs], "new handlers last, in order")
        if n == 0:
            if any(not isinstance(h, logging.NullHandler) for h in new):
                bad("handler-count", [type(h).__name__ for h in new], "no (or only a null) new handler")
        elif len(new) != n:
            bad("handler-count", [type(h).__name__ for h in new], n)
        else:
            for h, i in zip(new, q["handlers"]):
                cls, lvl, rendered = expected_handler(i)
                try:
                    out = h.format(R.make_record())
                except Exception as e:
                    out = core.exc_desc(e)
                if type(h) is not getattr(env.lh, cls) or h.level != lvl or out != rendered:
                    bad("handler-differs", [type(h).__name__, h.level, out], [cls, lvl, rendered])
                    break
        snap_q = snapshot_logger(lq)
        try:
            again = factory()
        except Exception as e:
            again = core.exc_desc(e)
        if again is not lq or snapshot_logger(lq) != snap_q:
            bad("second-call-changes-logger", repr(again), repr(lq))
        if lp is not lq and snapshot_logger(lp) != snap_p:
            bad("other-logger-disturbed", snapshot_logger(lp)[:2], snap_p[:2])
        acc.sample(lambda: {"part": "fl", "p": p, "q": q, "level": lq.level,
                            "handlers": [type(h).__name__ for h in lq.handlers]})
        del lp, lq, hs, new, before, target, again
    finally:
        env.end()


# ----------------------------------------------------------------------------
# (g) faults when a factory is CALLED, and the calls made after them
#
# One <logger> / <eventlog> section with 1..3 handler sections.  A handler section
# ("slot") = kind x fault: kind in {plain, rot, timed} x {eager, delay} or a STDOUT
# stream handler; fault = what the environment does to the handler's file when the
# handler is created: none | nodir (the directory of the file does not exist yet:
# FileNotFoundError, repairable by mkdir) | isdir (the path is a directory:
# IsADirectoryError, repairable by rmdir) | badenc (unknown encoding: LookupError, not
# an OSError, permanent).  Faults are attached to the eager file kinds only (a delayed
# handler does not open its file when it is created).  Operations: L call the logger
# factory, H_j call the handler factory of section j (logger_factory.handler_factories
# [j]), X_j repair the fault of section j, R reopenFiles(), C closeFiles().  EVERY
# operation sequence of the bound length runs on the real component with
# vz.ref.logfaults.FaultModel in lock step; after every step: which calls raise,
# the handlers of the logger (once the logger factory has returned: exactly one per
# section, in order, the product of that section's handler factory; before that: at
# most one per section, in order, nothing foreign), the registry, liveness and stream
# of every handler.  At the end of a sequence without C, if the logger factory has
# returned, ONE record is logged: every file of a section holds exactly one line
# (STDOUT: one line per STDOUT section).

G_KINDS = KIND_NAMES + ["stdout"]
G_FAULTS = ("none", "nodir", "isdir", "badenc")
G_REPAIRABLE = ("nodir", "isdir")
G_BADENC = "vz-no-such-codec"
G_RECORD = "vz-g-record"
G_LOGGER = PREFIX + ".g"
G_LEVEL0 = 11            # section j has level 11 + j: tells the handlers of the sections apart
G_LOGGER_KINDS = ("logger", "eventlog")


def g_slot_types(which="all"):
    """The slot alphabet.  'all': every kind x every fault that can show when the
    handler is created (16); 'plain': the plain file handler x every fault, its delayed
    form and STDOUT (6); 'core': plain x {none, nodir, badenc} (3); 'pairs': {plain, rot,
    timed} x {none, nodir, badenc}, plain-delay, STDOUT (11)."""
    if which == "core":
        return [["plain", "none"], ["plain", "nodir"], ["plain", "badenc"]]
    if which == "pairs":
        return [t for t in g_slot_types("all")
                if t[1] != "isdir" and t[0] not in ("rot-delay", "timed-delay")]
    out = []
    for k in G_KINDS:
        if which == "plain" and k not in ("plain", "plain-delay", "stdout"):
            continue
        for f in G_FAULTS:
            if f != "none" and (k == "stdout" or k.endswith("-delay")):
                continue
            out.append([k, f])
    return out


def g_ops(slots):
    n = len(slots)
    return ([["L"]] + [["H", j] for j in range(n)]
            + [["X", j] for j in range(n) if slots[j][1] in G_REPAIRABLE] + [["R"], ["C"]])


def g_describe(h):
    return describe_handler(h) if isinstance(h, logging.Handler) else repr(h)


class GSys:
    """The implementation side of (g)."""

    def __init__(self, env, lkind, slots):
        from vz.ref import logfaults
        self.env = env
        self.lkind = lkind
        self.slots = slots
        self.n = len(slots)
        self.base = os.path.join(env.dir, "g")
        os.mkdir(self.base)
        self.paths = []
        secs = []
        mslots = []
        for j, (kind, fault) in enumerate(slots):
            if kind == "stdout":
                opts = {"path": "STDOUT"}
                path = None
            else:
                if fault == "nodir":
                    path = os.path.join(self.base, "d%d" % j, "s.log")
                else:
                    path = os.path.join(self.base, "s%d.log" % j)
                if fault == "isdir":
                    os.mkdir(path)
                opts = dict(SLOT_KINDS[kind], path=path)
                if fault == "badenc":
                    opts["encoding"] = G_BADENC
            self.paths.append(path)
            secs.append(logfile_text(env, opts, level=str(G_LEVEL0 + j), fmt="%(message)s"))
            mslots.append({"file": kind != "stdout", "delay": kind.endswith("-delay"),
                           "fault": None if fault == "none" else
                           (logfaults.REPAIRABLE if fault in G_REPAIRABLE else logfaults.PERMANENT)})
        head = ["<logger>", "  name " + G_LOGGER] if lkind == "logger" else ["<eventlog>"]
        self.text = "\n".join(head + secs + ["</%s>" % lkind])
        st, cfg = load(self.text)
        if st != "ok":
            raise SlotRefused(cfg)
        self.lf = cfg.loggers[0]
        self.hf = list(self.lf.handler_factories)
        if len(self.hf) != self.n:
            raise SlotRefused({"class": "handler_factories", "msg": "%d factories for %d sections"
                               % (len(self.hf), self.n), "family": False})
        self.target = logging.getLogger(G_LOGGER) if lkind == "logger" else logging.getLogger()
        self.wr = [None] * self.n
        self.model = logfaults.FaultModel(mslots)
        self.after_failure = False       # a factory call has failed because of a fault
        self.raised = collections.Counter()   # (operation, fault kind) of the calls that raised

    def handler(self, j):
        w = self.wr[j]
        return w() if w is not None else None

    def _adopt(self, j, h):
        self.wr[j] = weakref.ref(h)
        self.env.track(h)

    def _find(self, j):
        """Live handlers that belong to section j (by the section's level): attached to
        the logger or in the registry."""
        out = []
        for h in list(self.target.handlers) + [w() for w in self.env.lh._reopenable_handlers]:
            if h is not None and getattr(h, "level", None) == G_LEVEL0 + j and not any(h is o for o in out):
                out.append(h)
        return out

    def _repair(self, j):
        fault = self.slots[j][1]
        if fault == "nodir":
            os.makedirs(os.path.dirname(self.paths[j]), exist_ok=True)
        elif fault == "isdir" and os.path.isdir(self.paths[j]):
            os.rmdir(self.paths[j])

    def step(self, op):
        """Apply op to implementation and model; -> list of (what, observed, expected)."""
        lh = self.env.lh
        m = self.model
        bad = []
        before = {}
        for j in range(self.n):
            h = self.handler(j)
            if h is not None and m.file[j]:
                before[j] = h.stream
            del h
        acted = None
        if op[0] == "H":
            j = op[1]
            exp = m.handler_call(j)
            try:
                h = self.hf[j]()
            except Exception as e:
                if exp != "raise":
                    return [("handler-factory-raises", core.exc_desc(e), exp)]
                self.after_failure = True
                self.raised["H:%s:%s" % (self.slots[j][1], type(e).__name__)] += 1
            else:
                if exp == "raise":
                    if isinstance(h, logging.Handler):
                        self.env.track(h)
                    return [("handler-factory-returns-though-the-handler-cannot-be-created",
                             repr(h), "an exception")]
                if not isinstance(h, logging.Handler):
                    return [("handler-factory-returns-no-handler", repr(h), "a handler")]
                if exp == "create":
                    self._adopt(j, h)
                    if h.level != G_LEVEL0 + j:
                        bad.append(("handler-level", h.level, G_LEVEL0 + j))
                elif self.handler(j) is not h:
                    self.env.track(h)
                    bad.append(("handler-factory-returned-another-handler", repr(h),
                                "the handler of this section: " + repr(self.handler(j))))
                del h
        elif op[0] == "L":
            exp, created, at = m.logger_call()
            try:
                lg = self.lf()
            except Exception as e:
                if exp != "raise":
                    return [("logger-factory-raises", core.exc_desc(e), exp)]
                self.after_failure = True
                self.raised["L:%s:%s" % (self.slots[at][1], type(e).__name__)] += 1
            else:
                if exp == "raise":
                    return [("logger-factory-returns-though-a-handler-cannot-be-created",
                             [type(h).__name__ for h in getattr(lg, "handlers", ())],
                             "an exception (section %d)" % at)]
                if lg is not self.target:
                    return [("wrong-logger", repr(lg), repr(self.target))]
                if lg.level != R.DEFAULT_LOGGER_LEVEL:
                    bad.append(("logger-level", lg.level, R.DEFAULT_LOGGER_LEVEL))
                if self.lkind == "logger" and lg.propagate is not True:
                    bad.append(("propagate", lg.propagate, True))
                del lg
            for j in created:
                cands = self._find(j)
                if len(cands) != 1:
                    return [("handlers-of-a-section-created-by-the-logger-factory",
                             [g_describe(h) for h in cands], "exactly one (section %d)" % j)]
                self._adopt(j, cands[0])
                del cands
        elif op[0] == "X":
            self._repair(op[1])
            m.repair(op[1])
        elif op[0] == "R":
            try:
                lh.reopenFiles()
            except Exception as e:
                return [("reopenFiles-raises", core.exc_desc(e), "no exception")]
            acted = m.reopen()
        elif op[0] == "C":
            try:
                lh.closeFiles()
            except Exception as e:
                return [("closeFiles-raises", core.exc_desc(e), "no exception")]
            acted = m.close_all()
        else:
            raise core.HarnessError("unknown (g) operation %r" % (op,))
        mine = {}
        for j in range(self.n):
            h = self.handler(j)
            if h is not None:
                mine[id(h)] = j
            del h
        # the handlers of the logger
        hs = list(self.target.handlers)
        seq = [mine.get(id(h), -1) for h in hs]
        if m.configured:
            if seq != list(range(self.n)):
                bad.append(("logger-handlers", [seq, [g_describe(h) for h in hs]],
                            "exactly one handler per section, in order: %r" % list(range(self.n))))
        elif -1 in seq or any(a >= b for a, b in zip(seq, seq[1:])):
            bad.append(("logger-handlers-before-the-factory-returned",
                        [seq, [g_describe(h) for h in hs]],
                        "at most one handler per section, in order, nothing else"))
        del hs
        # registry == created, unclosed file handlers
        reg = [w() for w in lh._reopenable_handlers]
        reg_slots = sorted(mine.get(id(h), -1) for h in reg if h is not None)
        del reg
        if reg_slots != m.registered():
            bad.append(("registry", reg_slots, m.registered()))
        for j in range(self.n):
            h = self.handler(j)
            ms = m.slots[j]
            if ms is None:
                if h is not None:
                    bad.append(("section-has-a-handler", j, "none"))
                continue
            if h is None:
                bad.append(("handler-of-section-gone", j, "alive"))
                continue
            if m.file[j]:
                is_open = h.stream is not None and not h.stream.closed
                if is_open != ms["open"]:
                    bad.append(("stream-open-after-" + op[0], [j, is_open], [j, ms["open"]]))
                if acted is not None:
                    old = before.get(j)
                    if j in acted:
                        if old is not None and not old.closed:
                            bad.append(("old-stream-left-open-by-" + op[0], "open", "closed"))
                        if op[0] == "R" and old is not None and h.stream is old:
                            bad.append(("not-reopened", "same stream", "new stream"))
                    elif h.stream is not old:
                        bad.append(("touched-unregistered-handler-" + op[0], repr(h.stream), repr(old)))
            del h
        return bad

    def emit_one(self, captured):
        """One record through the configured logger: one line per section."""
        bad = []
        old = logging.raiseExceptions
        logging.raiseExceptions = False
        try:
            self.target.critical(G_RECORD)
            for h in list(self.target.handlers):
                try:
                    h.flush()
                except Exception:
                    pass
        finally:
            logging.raiseExceptions = old
        for j in range(self.n):
            if self.paths[j] is None:
                continue
            try:
                with open(self.paths[j], "rb") as f:
                    lines = f.read().decode("latin-1").splitlines()
            except OSError as e:
                lines = type(e).__name__
            if lines != [G_RECORD]:
                bad.append(("lines-in-the-file-of-a-section-after-one-record", [j, lines], [j, [G_RECORD]]))
        nstd = sum(1 for p in self.paths if p is None)
        lines = captured.getvalue().splitlines()
        if lines != [G_RECORD] * nstd:
            bad.append(("lines-on-STDOUT-after-one-record", lines, [G_RECORD] * nstd))
        return bad


def run_g_sequence(env, lkind, slots, ops, acc, stats=None):
    """-> (problems of the first failing step, its index) or (None, None); index len(ops)
    = the record logged at the end."""
    env.begin()
    captured = io.StringIO()
    real_stdout = sys.stdout
    sys.stdout = captured
    base = os.path.join(env.dir, "g")
    s = None
    try:
        try:
            s = GSys(env, lkind, slots)
        except SlotRefused as e:
            return [("section-configuration-refused", e.args[0], "accepted")], -1
        for i, op in enumerate(ops):
            bad = s.step(op)
            acc.traces += 1
            if bad:
                return bad, i
        m = s.model
        if stats is not None:
            stats["failed"] = m.failed_calls
            stats["retries"] = m.retries_after_failure
            stats["completed_after_failure"] = m.completed_after_failure
            stats["after_failure"] = s.after_failure
            stats["configured"] = m.configured
            stats["raised"] = s.raised
        if m.configured and not any(op[0] == "C" for op in ops):
            if stats is not None:
                stats["emitted"] = True
            bad = s.emit_one(captured)
            if bad:
                return bad, len(ops)
        return None, None
    finally:
        sys.stdout = real_stdout
        del s
        env.end()
        shutil.rmtree(base, ignore_errors=True)


def report_g(acc, lkind, slots, ops, i, bad):
    what = bad[0][0]
    op = "load" if i < 0 else ("emit" if i >= len(ops) else ops[i][0])
    acc.violation("faulted-factory-" + what,
                  {"part": "g", "logger": lkind, "slots": slots, "ops": ops[:i + 1]},
                  [list(b[:2]) for b in bad], [[b[0], b[2]] for b in bad],
                  tags={"kind": "faulted-factory", "what": what.split("-after-")[0], "op": op,
                        "part": "g", "faults": "+".join(sorted(set(f for _, f in slots)))},
                  size=len(ops[:i + 1]) * 100 + 10 * len(slots)
                  + sum(1 for k, f in slots if k != "plain" or f != "none") + (lkind != "logger"))


def shard_g(lkind, slots, prefix, depth, env, acc):
    ops = g_ops(slots)
    for tail in itertools.product(ops, repeat=depth - len(prefix)):
        seq = list(prefix) + list(tail)
        acc.current = {"part": "g", "logger": lkind, "slots": slots, "ops": seq}
        stats = {}
        bad, i = run_g_sequence(env, lkind, slots, seq, acc, stats)
        acc.ev()
        acc.extra["g:sequences"] += 1
        if bad:
            acc.cls("g:seq-violation")
            report_g(acc, lkind, slots, seq, i, bad)
            continue
        acc.cls("g:seq-ok")
        for k, v in stats.get("raised", {}).items():
            acc.extra["g:call-raised:" + k] += v
        if stats.get("failed"):
            acc.cls("g:logger-factory-call-failed-part-way-or-at-once")
        if stats.get("retries"):
            # non-trivial: the logger factory is called again after a call that a fault made fail
            acc.nt()
            acc.cls("g:logger-factory-called-again-after-a-failed-call")
        if stats.get("completed_after_failure"):
            acc.cls("g:logger-factory-completed-after-a-failed-call")
        if stats.get("after_failure") and not stats.get("failed"):
            acc.cls("g:only-handler-factory-calls-failed")
        if stats.get("emitted"):
            acc.cls("g:record-logged-at-the-end")
            if stats.get("completed_after_failure"):
                acc.cls("g:record-logged-after-a-completed-retry")
    acc.sample(lambda: {"part": "g", "logger": lkind, "slots": slots, "prefix": prefix, "depth": depth,
                        "operations": ops})


def g_configs(tier):
    """-> list of (logger kind, slots, depth)"""
    full = g_slot_types("all")
    plain = g_slot_types("plain")
    core_ = g_slot_types("core")
    out = []
    if tier == "quick":
        for lk in G_LOGGER_KINDS:
            out += [(lk, [a], 4) for a in full]
        pairs = g_slot_types("pairs")
        out += [("logger", [a, b], 3) for a in pairs for b in pairs]
        out += [("eventlog", [a, b], 3) for a in plain for b in plain]
        out += [("logger", [a, b, c], 3) for a in core_ for b in core_ for c in core_]
        return out
    for lk in G_LOGGER_KINDS:
        out += [(lk, [a], 5) for a in full]
    out += [("logger", [a, b], 4) for a in full for b in full]
    out += [("eventlog", [a, b], 4) for a in plain for b in plain]
    out += [("logger", [a, b], 5) for a in plain for b in plain]
    out += [("logger", [a, b, c], 3) for a in plain for b in plain for c in plain]
    for lk in G_LOGGER_KINDS:
        out += [(lk, [a, b, c], 4) for a in core_ for b in core_ for c in core_]
    return out


def g_shards(tier):
    out = []
    for lk, slots, depth in g_configs(tier):
        ops = g_ops(slots)
        plen = 0 if len(ops) ** depth < 3000 else (1 if len(ops) ** depth < 30000 else 2)
        for prefix in itertools.product(ops, repeat=plen):
            out.append(("g", lk, slots, list(prefix), depth))
    return out


# ----------------------------------------------------------------------------
# shards, run, replay

def shard_func(shard, acc):
    what = shard[0]
    with Env() as env:
        if what == "f0":
            shard_f0(shard, env, acc)
            return acc
        if what == "f":
            shard_f(shard, env, acc)
            return acc
        if what == "fl":
            atoms = fl_atoms()
            for p in atoms:
                check_fl(p, atoms[shard[1]], env, acc)
            return acc
        if what == "a":
            for s in level_space():
                check_a({"part": "a", "value": s}, env, acc)
        elif what == "b":
            for case in b_space():
                if case["opts"]["path"] == shard[1] and case["opts"]["max_size"] == shard[2] \
                        and case["opts"]["old_files"] == shard[3]:
                    check_b(case, env, acc)
        elif what == "c":
            for case in c_space(shard[1], shard[2]):
                check_c(case, env, acc)
        elif what == "d":
            for t, field in d_cases(shard[1])[shard[2]:shard[3]]:
                check_d(dcase_dict(t, field), env, acc)
        elif what == "e-bfs":
            shard_e_bfs(shard[1], shard[2], env, acc)
        elif what == "e-seq":
            shard_e_seq(shard[1], shard[2], shard[3], env, acc)
        elif what == "g":
            shard_g(shard[1], shard[2], shard[3], shard[4], env, acc)
        elif what == "h-bfs":
            shard_e_bfs(shard[1], shard[4], env, acc, paths=shard[2], used=shard[3])
        elif what == "h-seq":
            shard_e_seq(shard[1], shard[4], shard[5], env, acc, paths=shard[2], used=shard[3])
        else:
            raise core.HarnessError("unknown shard %r" % (shard,))
    return acc


def all_shards(tier):
    shards = [("a",)]
    shards += [("b", p, m, o) for p in B_PATHS for m in B_MAX for o in B_OLD]
    shards += [("c", tier, None)] + [("c", tier, i) for i in range(len(MENU))]
    nd = len(d_cases(tier))
    step = 1500
    shards += [("d", tier, lo, min(lo + step, nd)) for lo in range(0, nd, step)]
    for kinds, depth in e_bfs_configs(tier):
        shards.append(("e-bfs", kinds, depth))
    for kinds, depth in e_configs(tier):
        ops = ops_for(len(kinds))
        plen = 1 if len(ops) ** depth < 20000 else (2 if len(ops) ** depth < 200000 else 3)
        for prefix in itertools.product(ops, repeat=plen):
            shards.append(("e-seq", kinds, list(prefix), depth))
    shards += g_shards(tier)
    shards += h_shards(tier)
    return shards


def run(tier):
    quick = tier == "quick"
    run = core.Run(
        "C20", tier, "model_checking",
        rule="(a) logging_level on every documented name x 4 letter cases, every integer -2..52, junk; "
             "(b) one <logfile>: path{STDOUT,STDERR,file} x max-size x old-files x when x interval x delay "
             "x encoding x level, full product, against the decision table; (c) <logger>/<eventlog> with "
             "0..3 handlers from a 6-entry menu x propagate x level spelling, factory called twice, also "
             "through configureLoggers; (d) format strings over all %d record fields x conversions of the "
             "four styles x arbitrary-fields, escapes, field-less/unknown-field formats, custom formatter "
             "factories, date formats, rendered against Python's own rendering; (e) BFS over the canonical "
             "implementation state of 1-%d file handlers under {call factory j, reopenFiles, closeFiles, "
             "drop last reference j} plus every operation sequence of length %s with the registry model "
             "in lock step; (f) HISTORIES of handler sections: alphabet = every style x every format text "
             "(each style's reference to a known / an unknown field, the 8 mixtures of the three reference "
             "syntaxes [quick: the 4 with at most one unknown field], a field-less text, an asctime text) x arbitrary-fields [x formatter factory x "
             "dateformat]; baseline of a section = its outcome (verdict, formatter class, rendering) as the "
             "first load of a fresh process, held against Python's rendering; for every section q a fresh "
             "process loads q and then for every prefix %s of the alphabet the prefix's sections and q again, "
             "each alone - every load must equal its section's baseline - and another fresh process loads "
             "prefix + q as sibling handler sections of one text (%s; accepted iff each baseline is "
             "accepted, every handler like its baseline) - every ordered pair of sections as consecutive "
             "loads and as siblings; "
             "(fl) every ordered pair of %d logger sections (2 names parent/child + eventlog x level x "
             "propagate x handlers): q's factory called on the logging tree p's factory has just "
             "configured, no reset in between: level, propagate, exactly q's handlers added, other logger "
             "untouched; "
             "(g) FAULTS AT FACTORY-CALL TIME and the calls after them: one <logger>/<eventlog> section "
             "with 1..3 handler sections, each = kind {plain, rot, timed} x {eager, delay} or STDOUT x fault "
             "{none, nodir: directory of the file missing (FileNotFoundError, repairable), isdir: path is a "
             "directory (IsADirectoryError, repairable), badenc: unknown encoding (LookupError, permanent)} "
             "(faults on the eager file kinds: %d slot types); EVERY sequence of the bound length over {L call "
             "the logger factory, H_j call handler factory j, X_j repair fault j, R reopenFiles, C closeFiles} "
             "with the fault model in lock step: a call that reaches an uncreatable handler raises, a handler "
             "factory holds one handler, after every step the logger carries at most one handler per section "
             "in order (exactly one each, the products of the sections' handler factories, once the logger "
             "factory has returned - also when earlier calls failed part-way), registry / liveness / streams "
             "as in (e); at the end of a sequence without C one record is logged through the configured "
             "logger: exactly one line per section's file / STDOUT section (%s).  "
             "(h) SHARED FILES and USED HANDLERS: the machine of (e) (same operations, BFS over the canonical "
             "state + every sequence of the bound length, model in lock step, same observations after every "
             "step: registry == registered live handlers, liveness, stream state, R/C close the old stream of "
             "exactly the registered handlers, R gives each a new one, every other handler's stream untouched) "
             "over the rest of the configuration product {file assignment: every set partition of the 1-3 "
             "sections onto files, so also 2 / 3 sections naming the SAME path - with equal kinds the same "
             "section text twice} x {unused, used: one record is logged through handler j every time factory j "
             "is called, so a delayed handler has an open file and a handler closed by closeFiles gets its file "
             "opened again (alive, unregistered, open: R/C must leave it alone)} minus the point (own files, "
             "unused) which is (e) (%s).  "
             "Non-trivial = (b)/(c) accepted configuration with >= 1 handler, (d) format "
             "with >= 1 field reference in its style, (e)/(h) sequence with a factory call followed by a "
             "registry operation, (f) history in which a section is accepted, (fl) both sections accepted, "
             "(g) sequence in which the logger factory is called again after a call that a fault made fail "
             "(distinct cases; shards partition each space)."
             % (len(R.FIELDS), 3, "4" if quick else "6 (5 on two of the four 3-handler configurations)",
                "(p)" if quick else "(p), and (p1, p2) over the %d-section sub-alphabet" % len(h_atoms("small")),
                "inside one <logger>" if quick else "inside one <logger>, and as top-level sections",
                len(fl_atoms()), len(g_slot_types("all")),
                "quick: 1 section x 16 types x both logger kinds length 4; 2 sections: the 121 pairs of {plain, rot, "
                "timed} x {none, nodir, badenc} + plain-delay + STDOUT under <logger> and the 36 pairs of the "
                "plain sub-alphabet (plain x 4 faults, plain-delay, STDOUT) under <eventlog>, length 3; 3 sections: "
                "27 triples of {plain, plain+nodir, plain+badenc}, length 3" if quick else
                "thorough: 1 section x 16 types x both logger kinds length 5; 2 sections: all 256 pairs under "
                "<logger> length 4, the 36 pairs of the plain sub-alphabet (plain x 4 faults, plain-delay, "
                "STDOUT) under <eventlog> length 4 and under <logger> length 5; 3 sections: 216 triples of the "
                "plain sub-alphabet length 3, 27 triples of {plain, plain+nodir, plain+badenc} under both "
                "logger kinds length 4 (cut to keep the tier under ~8 000 CPU-s: no length 6, no full "
                "alphabet on 3 sections)",
                "quick: 1 section x 6 kinds used, length 4; 2 sections: all 36 ordered kind pairs x {one file unused, "
                "one file used, own files used}, length 4 on the 9 pairs of {plain, plain-delay, rot}, length 3 on "
                "the other 27; 3 sections: 2 kind triples x 5 partitions x {unused, used} (minus (e)), length 3; "
                "BFS depth 4 over all of these and over all 4 triples" if quick else
                "thorough: 1 section used length 6; 2 sections: all 36 ordered kind pairs x the 3 variants, length 5; "
                "3 sections: 4 kind triples x 5 partitions x {unused, used} (minus (e)), length 4 (5 when all three name one file); BFS depth 6 "
                "(triples 5)"),
        bounds={"levels": {"names": [n for n, _ in R.LEVEL_TABLE], "integers": [-2, 52]},
                "logfile_product": {"path": B_PATHS, "max-size": B_MAX, "old-files": B_OLD, "when": B_WHEN,
                                    "interval": B_INT, "delay": B_DELAY, "encoding": B_ENC, "level": B_LEVEL},
                "handler_menu": [m["type"] + ":" + m["cls"] for m in MENU], "max_handlers": 3,
                "fields": list(R.FIELDS),
                "full_conversion_product_on": "all fields" if not quick else list(FULL_FIELDS_QUICK),
                "classic": {"types": CL_TYPES, "flags": CL_FLAGS, "width": CL_WIDTH, "precision": CL_PREC,
                            "length": CL_LEN},
                "format_specs": FM_SPEC, "format_conversions": FM_CONV, "affixes": AFFIXES,
                "formatters": FORMATTERS, "dateformats": DATEFORMATS,
                "e_slot_kinds": KIND_NAMES,
                "e_sequences": [[k, d] for k, d in e_configs(tier)],
                "e_bfs_depth": 4 if quick else 6,
                "h_file_assignments": {str(n): [p for p in __import__("vz.ref.logusage", fromlist=["x"]).partitions(n)]
                                       for n in (1, 2, 3)},
                "h_used": [False, True],
                "h_depth4_kinds_quick": H_DEPTH4_KINDS,
                "h_configurations": collections.Counter(
                    "%d sections/%s/%s/length %d" % (len(k), paths_class(p), "used" if u else "unused", d)
                    for k, p, u, d in h_configs(tier)),
                "h_bfs_configurations": len(h_bfs_configs(tier)),
                "f_formats": h_formats(full=not quick), "f_styles": list(R.STYLES), "f_formatters": list(H_FORMATTERS),
                "f_dateformats": [None, H_DATEFORMAT],
                "f_sections": len(h_atoms("quick" if quick else "thorough")),
                "f_prefix_lengths": [1] if quick else [1, 2],
                "f_sections_for_prefix_length_2": 0 if quick else len(h_atoms("small")),
                "f_placements": list(H_PLACEMENTS_QUICK if quick else H_PLACEMENTS),
                "fl_sections": len(fl_atoms()), "fl_names": list(FL_NAMES) + ["<eventlog>"],
                "fl_levels": list(FL_LEVELS), "fl_handlers": [list(h) for h in FL_HANDLERS],
                "g_slot_types": g_slot_types("all"), "g_plain_sub_alphabet": g_slot_types("plain"),
                "g_core_sub_alphabet": g_slot_types("core"), "g_pairs_sub_alphabet_quick": g_slot_types("pairs"),
                "g_logger_kinds": list(G_LOGGER_KINDS),
                "g_operations": ["L", "H_j", "X_j (repairable faults)", "R", "C"],
                "g_configurations": collections.Counter(
                    "%s/%d sections/length %d" % (lk, len(sl), d) for lk, sl, d in g_configs(tier))},
        assumptions=[
            "reference model vz/ref/logmodel.py (level table, <logfile> decision table, registry model) "
            "is the documented behaviour; 'rendering in the configured format and style' = what "
            "logging.Formatter(fmt, datefmt, style, validate=False) / string.Template.safe_substitute "
            "produce for the same record",
            "ordinary record = LogRecord of Logger.warning('msg %s %d', 'arg', 7) with created, msecs, "
            "relativeCreated, process (4242) and thread (140737353955136, a 64-bit Linux thread id) pinned",
            "unspecified (only totality and level checked): interval / neutral-valued options on "
            "STDOUT/STDERR, both when and max-size, interval without when, old-files without rotation, "
            "non-canonical integer spellings, the exception class of a load-time refusal, a logger "
            "without handler sections may carry a NullHandler",
            "syslog / win32-eventlog handlers are not created; http-logger and email-notifier handlers "
            "are created but never emit",
            "(f): 'fresh process' = a fork of a pool worker that has imported ZConfig and loaded the schema "
            "but never a configuration; the histories of one (section q, placement) run one after the other "
            "in the same fresh process (a later history has the earlier ones behind it as well), a deviation "
            "is re-run on its own in another fresh process; the exception class of a refusal may depend on "
            "history (counted, not claimed)",
            "(fl): handlers already on a logger before a factory call may stay (the component adds, it does "
            "not replace); only what the call adds is compared with the section",
            "(g): reference vz/ref/logfaults.py; a factory call that cannot create a handler has to raise (any "
            "exception class); what a FAILED logger-factory call leaves on the logger is only bounded (at most "
            "one handler per section, in order, nothing foreign), but a handler factory that has returned a "
            "handler keeps it (documented Factory contract), so the handlers created before the failure are "
            "the ones the retry attaches; handler factories are reached as logger_factory.handler_factories[j]; "
            "faults are environment states of /dev/shm (missing directory, directory in place of the file) or "
            "an unknown codec name; delayed handlers and STDOUT carry no fault (nothing is opened at creation)",
            "(h): reference vz/ref/logusage.py; 'acts on exactly the file handlers still alive' is read as a "
            "statement about HANDLERS: two sections are two handlers whatever they share (path, class, every "
            "option).  Observed per handler: stream object identity / closedness and the registry - NOT which "
            "of several files a record ends up in when a rotating handler renames a file other handlers have "
            "open (standard-library rollover semantics, outside the statement), and not the number of backup "
            "files.  A record logged through a registered handler leaves its stream open (logging.FileHandler: "
            "delay defers opening until the first emit); what a record does to a handler closeFiles() has closed "
            "is unspecified (the observed stream state is adopted by the model; counted)",
        ])
    # (f)/(fl) first and in a pool of their own: these workers never load a
    # configuration themselves (every history runs in a forked child of theirs),
    # so every history starts in a process without any logger-component past
    core.pmap(shard_func, f0_shards(tier), run.acc)
    collect_baselines(run.acc)
    core.pmap(shard_func, f_shards(tier), run.acc)
    core.pmap(shard_func, all_shards(tier), run.acc)
    acc = run.acc
    cl = acc.clauses
    for c in ("level-name", "level-int-in-range", "level-int-out-of-range", "level-junk",
              "b:std-stream", "b:std-max-size", "b:std-old-files", "b:std-when", "b:std-delay",
              "b:std-encoding", "b:rotation-needs-old-files", "b:plain-file", "b:size-rotation",
              "b:timed-rotation", "b:both-when-and-max-size", "b:interval-without-when",
              "b:old-files-without-rotation"):
        run.require(cl.get(c, 0) > 0, "reference clause %s never decided a case" % c)
    k = acc.classes
    for c in ("b:accepted:StreamHandler", "b:accepted:FileHandler", "b:accepted:RotatingFileHandler",
              "b:accepted:TimedRotatingFileHandler", "c:accepted", "c:configured", "d:rendered",
              "e:bfs-ok", "e:seq-ok"):
        run.require(k.get(c, 0) > 0, "outcome class %s never observed" % c)
    run.require(k.get("d:rendered", 0) > 2000, "few formats rendered")
    run.require(sum(v for c, v in k.items() if c.startswith("d:refused")) > 500, "few formats refused")
    run.require(acc.states >= 10 and acc.transitions >= 100, "BFS of (e) too small")
    x = acc.extra
    n_atoms = len(h_atoms("quick" if quick else "thorough"))
    n_pl = len(H_PLACEMENTS_QUICK if quick else H_PLACEMENTS)
    run.require(x.get("f:fresh-processes", 0) >= n_atoms * (1 + n_pl),
                "(f) fewer fresh processes than sections x (baseline + placements)")
    run.require(not any(c.startswith(BASE_KEY) for c in x), "(f) baselines left in the counters")
    run.require(k.get("f:baseline:ok", 0) >= 20 and k.get("f:baseline:refused", 0) >= 20,
                "(f) baselines do not cover both verdicts")
    run.require(k.get("f:loads:same:ok", 0) > 1000 and k.get("f:loads:same:refused", 0) > 1000,
                "(f) few histories of separate loads")
    for pl in (H_PLACEMENTS_QUICK if quick else H_PLACEMENTS)[1:]:
        run.require(k.get("f:%s:siblings-accepted" % pl, 0) > 500
                    and k.get("f:%s:siblings-refused" % pl, 0) > 500,
                    "(f) few sibling-section configurations (%s)" % pl)
    for c, least in (("f:class:same-style-and-format-other-arbitrary-verdicts-differ", 10),
                     ("f:class:same-format-other-style-outcomes-differ", 200),
                     ("f:class:same-format-other-formatter-or-dateformat-outcomes-differ", 8),
                     ("f:class:same-section-again", n_atoms)):
        run.require(x.get(c, 0) >= least, "(f) history class %s: %d < %d" % (c, x.get(c, 0), least))
    if not quick:
        run.require(x.get("f:prefix-length-2-shards", 0) > 0, "(f) no prefixes of length 2")
    ng = sum(len(g_ops(sl)) ** d for _, sl, d in g_configs(tier))
    run.require(x.get("g:sequences", 0) == ng, "(g) %d sequences executed, %d enumerated" % (x.get("g:sequences", 0), ng))
    for c, least in (("g:seq-ok", 10000), ("g:logger-factory-call-failed-part-way-or-at-once", 5000),
                     ("g:logger-factory-called-again-after-a-failed-call", 2000),
                     ("g:logger-factory-completed-after-a-failed-call", 200),
                     ("g:only-handler-factory-calls-failed", 2000),
                     ("g:record-logged-at-the-end", 2000),
                     ("g:record-logged-after-a-completed-retry", 150)):
        run.require(k.get(c, 0) >= least, "(g) class %s: %d < %d" % (c, k.get(c, 0), least))
    for op_ in "LH":
        for f_ in G_FAULTS[1:]:
            run.require(any(c.startswith("g:call-raised:%s:%s:" % (op_, f_)) and v > 0 for c, v in x.items()),
                        "(g) fault %s never made a %s call raise" % (f_, op_))
    nh = sum(len(ops_for(len(kk))) ** d for kk, _, _, d in h_configs(tier))
    run.require(x.get("h:sequences", 0) == nh, "(h) %d sequences executed, %d enumerated" % (x.get("h:sequences", 0), nh))
    run.require(k.get("h:seq-ok", 0) + k.get("h:seq-violation", 0) == nh and k.get("h:bfs-ok", 0) > 1000,
                "(h) outcome classes do not add up")
    run.require(x.get("h:bfs-configs", 0) == len(h_bfs_configs(tier)), "(h) BFS configurations missing")
    for c, least in (("h:sequences:one-file:unused", 5000), ("h:sequences:one-file:used", 5000),
                     ("h:sequences:own-files:used", 5000), ("h:sequences:some-on-one-file:unused", 1000),
                     ("h:sequences:some-on-one-file:used", 1000),
                     ("h:R-with->=2-registered-handlers-on-one-file", 500),
                     ("h:C-with->=2-registered-handlers-on-one-file", 500),
                     ("h:R-with-a-registered-delayed-handler-whose-file-is-open", 1000),
                     ("h:C-with-a-registered-delayed-handler-whose-file-is-open", 1000),
                     ("h:R-with-a-closed-handler-a-record-has-opened-again(must-be-left-alone)", 20),
                     ("h:C-with-a-closed-handler-a-record-has-opened-again(must-be-left-alone)", 20),
                     ("h:record-through-a-registered-delayed-handler", 5000),
                     ("h:record-through-a-handler-closeFiles-has-closed(unspecified, stream state adopted)", 200)):
        run.require(x.get(c, 0) >= least, "(h) class %s: %d < %d" % (c, x.get(c, 0), least))
    if not quick:
        run.require(x.get("h:R-with-3-registered-handlers-on-one-file", 0) >= 100,
                    "(h) reopenFiles never met 3 registered handlers on one file")
    for c in ("fl:same-logger", "fl:other-logger", "fl:same-logger-level-changes",
              "fl:same-logger-level-back-to-notset", "fl:same-logger-propagate-changes"):
        run.require(k.get(c, 0) >= 10, "(fl) history class %s rarely seen" % c)
    return run


def replay(body):
    case = body["case"]
    acc = core.Acc()
    with Env() as env:
        for _ in range(2):
            part = case.get("part")
            if part == "a":
                check_a(case, env, acc)
            elif part == "b":
                check_b(case, env, acc)
            elif part == "c":
                check_c(case, env, acc)
            elif part == "d":
                check_d(case, env, acc)
            elif part == "f":
                if case["placement"] == "loads":
                    seq = [atom_tuple(a) for a in case["sequence"]]
                    used = set(seq)
                else:
                    configs = [tuple(atom_tuple(a) for a in c) for c in case["configs"]]
                    used = set(a for c in configs for a in c)
                for a in sorted(used, key=repr):
                    if a not in _BASE:
                        _BASE[a] = tup(isolated(load_alone, env, a))
                        judge_baseline(a, _BASE[a], acc)
                if case["placement"] == "loads":
                    check_f_loads(seq[-1], None, env, acc, seq=seq)
                else:
                    check_f_siblings(configs[-1][-1], None, case["placement"], env, acc, configs=configs)
            elif part == "fl":
                check_fl(case["p"], case["q"], env, acc)
            elif part in ("e", "h"):
                kinds = case["slots"]
                ops = [list(o) for o in case["ops"]]
                paths, used = case.get("paths"), bool(case.get("used"))
                bad, i, _ = run_sequence(env, kinds, ops, acc, paths=paths, used=used)
                acc.sample({"part": part, "case": case, "problems": bad})
                if bad:
                    report_e(acc, kinds, ops, i, bad, paths, used)
            elif part == "g":
                slots = [list(x) for x in case["slots"]]
                ops = [list(o) for o in case["ops"]]
                bad, i = run_g_sequence(env, case["logger"], slots, ops, acc)
                acc.sample({"part": "g", "case": case, "problems": bad})
                if bad:
                    report_g(acc, case["logger"], slots, ops, i, bad)
            else:
                print("REPLAY: unknown case", case)
                return 3
    for smp in acc.samples[-1:]:
        print("REPLAY executed:", smp)
    for v in acc.violations.values():
        print("REPLAY violation:", v["kind"], "case=", v["case"])
        print("   observed=", v["observed"])
        print("   expected=", v["expected"])
    print("replayed: %d violation signature(s)" % len(acc.violations))
    return 1 if acc.violations else 0
