"""C06 - %include behaves as textual inclusion of a self-contained fragment.

Engine E3 over cut sets: for every seed text (accepted and rejected corpus
texts, %define texts) ALL sets of 1..n line ranges that are balanced with respect
to section nesting, pairwise disjoint or nested, are moved into real files
(same directory / sub-directory / parent directory of the includer, referenced
relatively) and ZConfig.loadConfig(outer file) is compared with
ZConfig.loadConfigFile(StringIO(original text)).  Negative space: every
unbalanced range as a fragment must be rejected.

Fold axis (resource identity): cut ranges with identical lines are stored ONCE,
so the same resource is included from several places of one load (siblings,
directly and through another fragment, twice inside a fragment, diamond, chain);
every folded layout is also loaded on a reused ConfigLoader right after a load of
the same URLs that was rejected inside the shared fragment (cycle / stray section
end).  See fold_structures(), check_folds().

Spelling axis (how the reference is written): the argument of %include is $-expanded and
THEN resolved against the includer's URL.  Every fragment reference is also written in
every FORM (relative, ./relative, absolute path, file:/// URL, file:/ URL) x every VIA
(literal, padded, whole / head / head with slash / name / stem / both / scheme from a
%define, head from the environment) x name kind (plain, a '$' in the file name, the same
file name for different resources of one layout) x define SITE (just before the include,
at the top of the main file = flowing into the fragment, at the end of the previous
fragment = flowing out of it, after the include = must be rejected); the oracle stays the
inlined text (with the %define lines left where they were).  Full product on the family
of all short texts (spell_seeds()), one spelling per layout in rotation on every other
seed.  See vz/harness/inclspell.py, build_spelled(), check_spell_seed().

Wave 5, three more axes (each with the same oracle, the inlined text):
Naming axis - under which name a resource is known: the outer file is named to loadConfig by URL (file:///,
file:/, with a dot segment), by a path with a dot segment, relatively to the working directory, through a
symbolic link to the file or to its directory; fragments are stored as symbolic links.  References count from
the NAME, not from where the bytes live.  See TOPS, top_arg(), build(), check_seed(mode="named").
Import axis - '%import' lines in the line alphabet: the section types known to the load flow into and out of
fragments in reading order like definitions do.  See import_seeds().
Character axis - what a line is: every control / separator / non-ASCII character inside a value, comment,
definition or section name stays inside its line when the line moves into a resource.  See CHARS, char_texts().
"""
import io
import itertools
import os
import shutil
import tempfile

from vz import core
from vz.gen import corpus as C
from vz.gen import schema as M
from vz.harness import inclspell as SP
from vz.harness import load as H
from vz.props.c15 import DEFINE_SCHEMA, DEFINE_TEXTS, classify

PLACES = ("same", "sub", "parent")


def depth_profile(lines):
    """nesting depth before each line and at the end (layout level)."""
    d = [0]
    for l in lines:
        k = classify(l)
        cur = d[-1]
        if k == "open":
            cur += 1
        elif k == "close":
            cur -= 1
        d.append(cur)
    return d


def balanced(lines, i, j):
    cur = 0
    for l in lines[i:j]:
        k = classify(l)
        if k == "open":
            cur += 1
        elif k == "close":
            cur -= 1
            if cur < 0:
                return False
    return cur == 0


def ranges(lines):
    n = len(lines)
    return [(i, j) for i in range(n) for j in range(i + 1, n + 1)]


def place_dir(includer_dir, place):
    if place == "same":
        return includer_dir, ""
    if place == "sub":
        return os.path.join(includer_dir, "sub dir"), "sub%20dir/"
    return os.path.dirname(includer_dir), "../"


class Scratch:
    def __init__(self):
        self.base = tempfile.mkdtemp(prefix="vz-c06-", dir="/dev/shm" if os.path.isdir("/dev/shm") else None)
        self.maindir = os.path.join(self.base, "p1", "p2", "p3")
        os.makedirs(os.path.join(self.maindir, "sub dir"))
        os.makedirs(os.path.join(self.base, "p1", "p2", "sub dir"))
        os.makedirs(os.path.join(self.base, "p1", "sub dir"))
        # naming axis: where the real file lives when the main file is named through a symbolic link to
        # the file (linktarget), the real directory behind a symbolic link to the main directory (lnkdir ->
        # dirtarget), where the real file of a fragment lives that is stored as a symbolic link (fragtarget)
        self.linktarget = os.path.join(self.base, "e1", "e2", "e3")
        self.dirtarget = os.path.join(self.base, "d1", "d2", "d3")
        self.fragtarget = os.path.join(self.base, "x1", "x2", "x3")
        for d in (self.linktarget, self.dirtarget, self.fragtarget):
            os.makedirs(os.path.join(d, "sub dir"))
        os.makedirs(os.path.join(self.base, "l1", "l2", "sub dir"))
        self.lnkdir = os.path.join(self.base, "l1", "l2", "lnk")
        os.symlink(self.dirtarget, self.lnkdir)
        self.n = 0
        self.ns = 0          # folded structures built so far in this shard (rotates quick-tier choices)
        self.nsp = 0         # spelled references drawn so far in this shard (rotates the spelling)
        self.nsite = 0       # ... the define site
        self.npp = 0         # ... the placement pair / shape of spelled pair layouts (quick tier)
        self.ntop = 0        # named layouts drawn so far in this shard (rotates the naming of the outer resource)
        self.ntp = 0         # ... the placement pair of named pair layouts (quick tier)

    def write(self, d, name, lines):
        os.makedirs(d, exist_ok=True)
        p = os.path.join(d, name)
        # the bytes of a resource are the UTF-8 encoding of its lines, each ended by a single LF
        with open(p, "w", encoding="utf-8", newline="") as f:
            f.write("\n".join(lines) + ("\n" if lines else ""))
        return p

    def link(self, d, name, target, relative):
        """d/name becomes a symbolic link to the file `target`."""
        os.makedirs(d, exist_ok=True)
        p = os.path.join(d, name)
        os.symlink(os.path.relpath(target, d) if relative else target, p)
        return p

    def close(self):
        shutil.rmtree(self.base, ignore_errors=True)


# ---------------------------------------------------------------------------
# naming axis: how the OUTER resource is named to ZConfig.loadConfig, and resources stored under an alias.
# "The URL of the including resource" is the URL under which that resource was named / referred to; a
# relative reference is resolved against it lexically (RFC 3986), whatever the file system does behind it.
#   abs       absolute path (what every layout above uses)
#   url       file:///<quoted path>            url1  file:/<quoted path>
#   urldot    file:///.../sub%20dir/../main.conf   (a URL with dot segments; resolution removes them)
#   dotseg    <dir>/sub dir/../main.conf       (a path with dot segments)
#   rel       <last directory>/main.conf with the working directory = the directory above
#   name      main.conf with the working directory = its directory
#   linkfile  the named path is a (relative) symbolic link to the real file, which lives in another
#             directory (sites-enabled style): fragments are beside the LINK
#   linkdir   the directory of the named path is a symbolic link to the real directory: a fragment
#             in the "parent" directory is in the parent of the LINK
# alias = indices of fragments that are stored as an (absolute) symbolic link at their place, the real file
# living in another directory; their own relative references count from the place of the link.
TOPS = ("url", "url1", "urldot", "dotseg", "rel", "name", "linkfile", "linkdir")
SINGLE_ALIASES = ((), (0,))
NESTED_ALIASES = ((), (0,), (0, 1))
TOP_COMBOS_1 = [(t, a) for t in ("abs",) + TOPS for a in SINGLE_ALIASES if (t, a) != ("abs", ())]
TOP_COMBOS_N = [(t, a) for t in ("abs",) + TOPS for a in NESTED_ALIASES if (t, a) != ("abs", ())]
DECOY = ["# decoy"]
PLACE_FS = {"same": "", "sub": "sub dir", "parent": ".."}


def top_arg(mode, path):
    """-> (what is passed to loadConfig, working directory or None) for the main file stored (or linked) at `path`."""
    d, n = os.path.split(path)
    if mode in ("abs", "linkfile", "linkdir"):
        return path, None
    if mode == "url":
        return "file://" + SP.quote(path), None
    if mode == "url1":
        return "file:" + SP.quote(path), None
    if mode == "urldot":
        return "file://" + SP.quote(d) + "/sub%20dir/../" + SP.quote(n), None
    if mode == "dotseg":
        return os.path.join(d, "sub dir", "..", n), None
    if mode == "rel":
        return os.path.basename(d) + "/" + n, os.path.dirname(d)
    if mode == "name":
        return n, d
    raise ValueError(mode)


def build(scr, lines, cuts, places, top="abs", alias=(), decoy=None):
    """Write the files for a cut set; cuts = list of (i, j, parent_index|None)
    with ranges relative to the ORIGINAL line numbering.  Returns main path (the path under which the main
    file is to be named).  top / alias: see the naming axis above.  decoy = lines of the files written where
    a reference would lead if it were resolved against the REAL location of an aliased includer (None: no
    such files, the wrong resolution finds nothing)."""
    scr.n += 1
    # children of each node (None = main), sorted by start
    kids = {}
    for idx, (i, j, par) in enumerate(cuts):
        kids.setdefault(par, []).append(idx)
    refs = []         # (named path of the includer, directory part of the reference as a path, file name)

    def emit(node, lo, hi, d, selfpath):
        out = []
        pos = lo
        for idx in sorted(kids.get(node, []), key=lambda k: cuts[k][0]):
            i, j, _ = cuts[idx]
            out += lines[pos:i]
            fd, rel = place_dir(d, places[idx])
            name = "f%d_%d.conf" % (scr.n, idx)
            sub = emit(idx, i, j, fd, os.path.join(fd, name))
            if idx in alias:
                scr.link(fd, name, scr.write(scr.fragtarget, name, sub), False)
            else:
                scr.write(fd, name, sub)
            refs.append((selfpath, PLACE_FS[places[idx]], name))
            out.append("  %include " + rel + name)
            pos = j
        out += lines[pos:hi]
        return out

    maindir = scr.lnkdir if top == "linkdir" else scr.maindir
    mainname = "main%d.conf" % scr.n
    mainpath = os.path.join(maindir, mainname)
    main = emit(None, 0, len(lines), maindir, mainpath)
    if top == "linkfile":
        scr.link(maindir, mainname, scr.write(scr.linktarget, mainname, main), True)
    else:
        scr.write(maindir, mainname, main)
    if decoy is not None:
        for inc, rd, name in refs:
            cand = os.path.normpath(os.path.join(os.path.dirname(os.path.realpath(inc)), rd, name))
            if not os.path.lexists(cand):
                scr.write(os.path.dirname(cand), name, decoy)
    scr.last_refs = refs
    return mainpath


def plant_cwd_decoys(scr, cwd):
    """wave 6: where the load runs in a working directory of its own (naming axis 'rel' / 'name'), a harmless decoy
    file is written wherever a reference, read as a path relative to the WORKING DIRECTORY instead of the including
    resource, would lead (inside the scratch tree, and only where nothing exists).  A load never reads them.
    -> number of files written"""
    n = 0
    if cwd is None:
        return n
    for inc, rd, name in getattr(scr, "last_refs", ()):
        cand = os.path.normpath(os.path.join(cwd, rd, name))
        if cand.startswith(scr.base + os.sep) and not os.path.lexists(cand):
            scr.write(os.path.dirname(cand), name, DECOY)
            n += 1
    return n


# ---------------------------------------------------------------------------
# spelling axis: how the reference to a fragment is written (vz/harness/inclspell.py)

NAMEKINDS = ("plain", "dollar")
# every (form, via, name kind) but the one the layouts above already use
SPELL_COMBOS = [(f, v, nk) for f in SP.FORMS for v in SP.VIAS for nk in NAMEKINDS
                if SP.applicable(f, v) and (f, v, nk) != ("rel", "lit", "plain")]
# layouts with several fragments: also the same file name for every fragment (in different directories)
SPELL_COMBOS_M = SPELL_COMBOS + [(f, v, "homonym") for f in SP.FORMS for v in SP.VIAS if SP.applicable(f, v)]
SITES = ("here", "top", "prev", "after")
SPELL_ALPHABET = ("k a", "%define d x", "k $d", "<t>", "</t>")
PAIR_FORMS = ("rel", "abs", "url")
PAIR_VIAS = ("whole", "head", "name", "env")
LATE_FORMS = ("rel", "abs")
LATE_VIAS = ("whole", "head", "name")
OUTER_SPELLED = (("abs", "head"), ("url", "whole"), ("dot", "name"))


def mkspec(form, via, namekind="plain", site="here"):
    return {"form": form, "via": via, "namekind": namekind, "site": site}


def build_spelled(scr, lines, cuts, places, specs):
    """Like build(), but the reference to cut idx is written as specs[idx] says
    (None = like build(): literal relative reference, unique plain name).
    The %define lines a spelling needs are put at its SITE: 'here' = in the includer
    just before the %include line, 'top' = first lines of the main file, 'prev' = last
    lines of the previous sibling fragment, 'after' = in the includer just after the
    %include line (too late: the layout must be rejected).
    -> (main path, inlined lines, environment): inlined lines = the main file with every
    %include line replaced by the (inlined) lines of the file it refers to, i.e. the
    original text with the %define lines added where they are in the layout."""
    scr.n += 1
    n = scr.n
    kids = {}
    dirs = {None: scr.maindir}
    for idx, (i, j, par) in enumerate(cuts):
        kids.setdefault(par, []).append(idx)
        dirs[idx] = place_dir(dirs[par], places[idx])[0]
    mainname = "main%d.conf" % n
    used = {(scr.maindir, mainname)}
    info = {}
    env = {}
    top = []
    for idx, (i, j, par) in enumerate(cuts):
        sp = specs[idx] or mkspec("rel", "lit")
        nk = sp["namekind"]
        if nk == "homonym":
            name = "h%d.conf" % n
            if (dirs[idx], name) in used:
                name = "h%d_%d.conf" % (n, idx)
        elif nk == "dollar":
            name = "s$%d_%d.conf" % (n, idx)
        else:
            name = "s%d_%d.conf" % (n, idx)
        used.add((dirs[idx], name))
        S = SP.reference(sp["form"], dirs[par], dirs[idx], name)
        defs, e, arg = SP.spell(sp["via"], S, idx)
        # self-check with the reference models: expanded, then resolved against the includer, the
        # argument denotes this fragment's file
        inc = os.path.join(dirs[par], mainname if par is None else info[par][0])
        den = SP.denotes(inc, arg, defs, e)
        if os.path.normpath(den) != os.path.join(dirs[idx], name):
            raise core.HarnessError("spelling %r of %r in %r denotes %r" % (sp, name, inc, den))
        env.update(e)
        deflines = ["%%define %s %s" % d for d in defs]
        site = sp["site"] if deflines else "here"
        if site == "top":
            top += deflines
        info[idx] = (name, deflines, arg, site)

    def emit(node, lo, hi):
        out, inl = [], []
        pos = lo
        ks = sorted(kids.get(node, []), key=lambda k: cuts[k][0])
        for t, idx in enumerate(ks):
            i, j, _ = cuts[idx]
            out += lines[pos:i]
            inl += lines[pos:i]
            name, deflines, arg, site = info[idx]
            sub, subinl = emit(idx, i, j)
            if t + 1 < len(ks) and info[ks[t + 1]][3] == "prev":
                sub = sub + info[ks[t + 1]][1]
                subinl = subinl + info[ks[t + 1]][1]
            scr.write(dirs[idx], name, sub)
            if site == "here":
                out += deflines
                inl += deflines
            elif site == "prev" and t == 0:
                raise core.HarnessError("define site 'prev' without a previous sibling fragment")
            out.append("  %include " + arg)
            inl += subinl
            if site == "after":
                out += deflines
                inl += deflines
            pos = j
        out += lines[pos:hi]
        inl += lines[pos:hi]
        return out, inl

    main, inl = emit(None, 0, len(lines))
    return scr.write(scr.maindir, mainname, top + main), top + inl, env


def spell_seeds(tier):
    """All texts of 1..N lines over SPELL_ALPHABET that are balanced as a layout."""
    N = 3 if tier == "quick" else 4
    out = []
    for n in range(1, N + 1):
        for combo in itertools.product(SPELL_ALPHABET, repeat=n):
            if balanced(list(combo), 0, n):
                out.append(list(combo))
    return out


# ---------------------------------------------------------------------------
# fold axis: resource identity.  Cut ranges with identical lines are stored ONCE
# and the same resource is included from every place (a DAG of resources instead
# of a tree); files live in absolute directories and every reference is the
# relative path from the includer's directory.

DIRS = ("main", "sub", "parent")
FAULTS = ("cycle", "stray-close")
REPEAT_SCHEMA = """<schema>
  <sectiontype name="t"><multikey name="k"/><key name="p"/></sectiontype>
  <multikey name="k"/>
  <key name="p"/>
  <multisection type="t" name="*" attribute="ts"/>
</schema>
"""
REPEAT_ALPHABET = ("k a", "p 1", "%define d x", "k $d", "<t>", "</t>")


def abs_dir(scr, label):
    if label == "main":
        return scr.maindir
    if label == "sub":
        return os.path.join(scr.maindir, "sub dir")
    return os.path.dirname(scr.maindir)


def rel_ref(from_dir, to_dir, name):
    import urllib.parse
    rel = os.path.relpath(to_dir, from_dir)
    parts = [] if rel == "." else rel.split(os.sep)
    return "/".join([urllib.parse.quote(x) for x in parts] + [name])


def build_folded(scr, lines, cuts, classes, dirs, fault=None, stray="</x>", n=None):
    """Like build(), but cuts of the same class share one file (their emitted text
    must be identical) and dirs[class] is an absolute directory label.  `fault`
    appends one line to the file of class 0 (the shared leaf fragment): an
    %include of the main file ("cycle") or a section end the fragment has no
    opener for ("stray-close").  `n` = reuse the file names of layout number n.
    Returns main path."""
    if n is None:
        scr.n += 1
        n = scr.n
    kids = {}
    for idx, (i, j, par) in enumerate(cuts):
        kids.setdefault(par, []).append(idx)
    mainname = "main%d.conf" % n
    written = {}

    def emit(node, lo, hi, d):
        out = []
        pos = lo
        for idx in sorted(kids.get(node, []), key=lambda k: cuts[k][0]):
            i, j, _ = cuts[idx]
            out += lines[pos:i]
            c = classes[idx]
            fd = abs_dir(scr, dirs[c])
            name = "g%d_%d.conf" % (n, c)
            sub = emit(idx, i, j, fd)
            if c == 0 and fault == "cycle":
                sub = sub + ["%include " + rel_ref(fd, scr.maindir, mainname)]
            elif c == 0 and fault == "stray-close":
                sub = sub + [stray]
            if c in written:
                if written[c] != sub:
                    raise core.HarnessError("cuts of one class give different files: %r" % (cuts,))
            else:
                written[c] = sub
                scr.write(fd, name, sub)
            out.append("  %include " + rel_ref(d, fd, name))
            pos = j
        out += lines[pos:hi]
        return out

    main = emit(None, 0, len(lines), scr.maindir)
    return scr.write(scr.maindir, mainname, main)


def fold_structures(lines, bal, tier):
    """Every way (within the bounds) of cutting so that >= 2 cut ranges with identical
    lines become ONE resource: yields (kind, cuts, classes).  Class 0 is always the
    shared leaf fragment."""
    by = {}
    for r in bal:
        by.setdefault(tuple(lines[r[0]:r[1]]), []).append(r)
    for content in sorted(by):
        v = sorted(by[content])
        for b1, b2 in itertools.combinations(v, 2):
            if b1[1] > b2[0]:
                continue
            yield "fold-siblings", [b1 + (None,), b2 + (None,)], (0, 0)
            W1 = [c for c in bal if c[0] <= b1[0] and b1[1] <= c[1] and c != b1 and c[1] <= b2[0]]
            W2 = [c for c in bal if c[0] <= b2[0] and b2[1] <= c[1] and c != b2 and c[0] >= b1[1]]
            WB = [c for c in bal if c[0] <= b1[0] and b2[1] <= c[1]]
            for c in W1:          # reached through another fragment first, then directly
                yield "fold-via-then-direct", [c + (None,), b1 + (0,), b2 + (None,)], (1, 0, 0)
            for c in W2:          # directly first, then through another fragment
                yield "fold-direct-then-via", [b1 + (None,), c + (None,), b2 + (1,)], (0, 1, 0)
            for c in WB:          # twice inside one fragment
                yield "fold-siblings-in-fragment", [c + (None,), b1 + (0,), b2 + (0,)], (1, 0, 0)
            for c1 in W1:
                for c2 in W2:
                    if c1[1] > c2[0]:
                        continue
                    cuts = [c1 + (None,), b1 + (0,), c2 + (None,), b2 + (2,)]
                    yield "fold-diamond", cuts, (1, 0, 2, 0)
                    if lines[c1[0]:c1[1]] == lines[c2[0]:c2[1]] and b1[0] - c1[0] == b2[0] - c2[0]:
                        # the wrapper is a repeated run as well: one wrapper file, included twice,
                        # which includes the leaf
                        yield "fold-chain", cuts, (1, 0, 1, 0)
        if tier != "quick" or len(lines) <= 5:
            for b1, b2, b3 in itertools.combinations(v, 3):
                if b1[1] <= b2[0] and b2[1] <= b3[0]:
                    yield "fold-siblings-3", [b1 + (None,), b2 + (None,), b3 + (None,)], (0, 0, 0)
    if tier != "quick":
        # two different repeated runs folded in the same layout
        reps = []
        for content in sorted(by):
            for b1, b2 in itertools.combinations(sorted(by[content]), 2):
                if b1[1] <= b2[0]:
                    reps.append((b1, b2))
        for (a1, a2), (b1, b2) in itertools.combinations(reps, 2):
            rs = sorted([a1, a2, b1, b2])
            if all(rs[x][1] <= rs[x + 1][0] for x in range(3)):
                yield "fold-two-classes", [a1 + (None,), a2 + (None,), b1 + (None,), b2 + (None,)], (0, 0, 1, 1)


def dir_assignments(nclasses, tier, ns=0):
    """Absolute directory per file class.  k = 1: all 3.  thorough: all 9 for k = 2, for k = 3 the 9
    of 27 assignments whose index sum + ns is divisible by 3 (every directory pair for leaf x each
    wrapper; all 27 over consecutive structures).  quick, k >= 2: three assignments per structure -
    the shared leaf in each of the 3 directories, the wrapper(s) shifted by an offset that rotates
    with the structure number `ns`, so that all 3^k assignments are used over consecutive
    structures."""
    full = list(itertools.product(DIRS, repeat=nclasses))
    if nclasses == 1 or (tier != "quick" and nclasses == 2):
        return full
    if tier != "quick":
        return [d for d in full if (sum(DIRS.index(x) for x in d) + ns) % 3 == 0]
    out = []
    for d0 in range(3):
        ds = [d0]
        q = ns
        for _ in range(nclasses - 1):
            ds.append((d0 + q) % 3)
            q //= 3
        out.append(tuple(DIRS[x] for x in ds))
    return out


def stray_close_for(lines, at):
    st = []
    for l in lines[:at]:
        k = classify(l)
        if k == "open":
            st.append(l.strip()[1:-1].split()[0] if l.strip()[1:-1].split() else "x")
        elif k == "close" and st:
            st.pop()
    return "</%s>" % (st[-1] if st else "x")


def repeat_seeds(tier):
    """All texts of 2..N lines over REPEAT_ALPHABET that are balanced as a layout and
    contain a run of lines twice (two disjoint balanced ranges with identical lines)."""
    N = 5 if tier == "quick" else 6
    out = []
    for n in range(2, N + 1):
        for combo in itertools.product(REPEAT_ALPHABET, repeat=n):
            lines = list(combo)
            if not balanced(lines, 0, n):
                continue
            seen = {}
            rep = False
            for (i, j) in ranges(lines):
                if balanced(lines, i, j):
                    key = combo[i:j]
                    if key in seen and seen[key] <= i:
                        rep = True
                        break
                    seen.setdefault(key, j)
            if rep:
                out.append(lines)
    return out


LAST_REJECTION = [None]      # message of the most recent rejection (shown by replay only)


def outcome_file(sch, path, env=None, cwd=None):
    import ZConfig
    saved = {k: os.environ.get(k) for k in env} if env else {}
    back = os.getcwd() if cwd else None
    try:
        if env:
            os.environ.update(env)
        if cwd:
            os.chdir(cwd)
        cfg, _ = ZConfig.loadConfig(sch, path)
        return ("tree", H.tree(cfg))
    except ZConfig.ConfigurationError as e:
        LAST_REJECTION[0] = "%s: %s" % (type(e).__name__, e)
        return ("rejected",)
    except Exception as e:
        return ("internal", core.exc_desc(e))
    finally:
        if back:
            os.chdir(back)
        for k, v in saved.items():
            if v is None:
                os.environ.pop(k, None)
            else:
                os.environ[k] = v


def outcome_text(sch, text):
    r = H.load(sch, text)
    if r[0] == "ok":
        return ("tree", H.tree(r[1]))
    if r[0] == "rejected":
        return ("rejected",)
    return ("internal", core.exc_desc(r[1]))


def spec_label(sp):
    if sp is None:
        return "-"
    return "%s/%s/%s/%s" % (sp["form"], sp["via"], sp["namekind"],
                            sp["site"] if sp["via"] in SP.DEFINING_VIAS else "-")


def run_spelled(scr, sch, lines, acc, mid, base, cuts, places, specs, kind):
    """One layout whose references are written as `specs` say; oracle = the inlined text."""
    text = "\n".join(lines) + "\n"
    case = {"member": mid, "text": text, "cuts": [list(c) for c in cuts], "places": list(places),
            "specs": [dict(sp) if sp else None for sp in specs]}
    acc.current = case
    path, inl, env = build_spelled(scr, lines, cuts, places, specs)
    late = any(sp and sp["site"] == "after" and sp["via"] in SP.DEFINING_VIAS for sp in specs)
    if late:
        expect = ("rejected",)
    elif inl == lines:
        expect = base
    else:
        expect = outcome_text(sch, "\n".join(inl) + "\n")
        if expect[0] == "internal":
            acc.extra["inlined_internal_errors(C07's)"] += 1
            return
    got = outcome_file(sch, path, env)
    acc.ev()
    acc.transitions += 1
    acc.nt()
    acc.sample(lambda: dict(case, kind=kind))
    acc.cls("%s:%s" % (kind, got[0]))
    x = acc.extra
    # coverage counters by EXPECTED outcome (independent of what the implementation did)
    x["expected %s:%s" % (kind, expect[0])] += 1
    for idx, sp in enumerate(specs):
        if sp is None:
            continue
        if late:
            if sp["site"] == "after":
                x["spell late define, seed-%s: form=%s via=%s" % (base[0], sp["form"], sp["via"])] += 1
        elif expect[0] == "tree":
            site = sp["site"] if sp["via"] in SP.DEFINING_VIAS else "-"
            x["spell tree: form=%s via=%s" % (sp["form"], sp["via"])] += 1
            x["spell tree: place=%s form=%s" % (places[idx], sp["form"])] += 1
            x["spell tree: site=%s via=%s" % (site, sp["via"])] += 1
            x["spell tree: site=%s form=%s" % (site, sp["form"])] += 1
            x["spell tree: namekind=%s form=%s" % (sp["namekind"], sp["form"])] += 1
            x["spell tree: includer=%s form=%s" % ("main" if cuts[idx][2] is None else "fragment", sp["form"])] += 1
    if got[0] == "internal":
        acc.violation("internal-error", case, got[1], expect[0],
                      tags={"kind": "internal-error", "exc": got[1]["class"], "where": got[1]["where"],
                            "spelled": [spec_label(sp) for sp in specs]})
    elif got != expect:
        acc.violation("late-define-accepted" if late else "spelled-include-differs-from-inlined-text", case,
                      [got[0], repr(got[1:])[:300],
                       (LAST_REJECTION[0] or "").replace(scr.base, "<tmp>") if got[0] == "rejected" else ""],
                      [expect[0], repr(expect[1:])[:300]],
                      tags={"kind": kind, "spelled": [spec_label(sp) for sp in specs], "places": list(places),
                            "seed": base[0]})


def rot_spec(scr, multi, sites):
    """The next spelling in rotation (quick and thorough alike: one per layout of the ordinary seeds)."""
    L = SPELL_COMBOS_M if multi else SPELL_COMBOS
    f, v, nk = L[scr.nsp % len(L)]
    scr.nsp += 1
    site = "here"
    if v in SP.DEFINING_VIAS:
        site = sites[scr.nsite % len(sites)]
        scr.nsite += 1
    return mkspec(f, v, nk, site)


def rot_specs(scr, site_lists):
    specs = [rot_spec(scr, True, sl) for sl in site_lists]
    if specs[0]["namekind"] == "homonym":        # the same name for every fragment of the layout
        for sp in specs[1:]:
            sp["namekind"] = "homonym"
    return specs


def check_spell_seed(scr, sch, lines, acc, mid, tier):
    """Full product of the spelling axis on one short text."""
    text = "\n".join(lines) + "\n"
    base = outcome_text(sch, text)
    acc.ev()
    if base[0] == "internal":
        acc.extra["seed_internal_errors(C07's)"] += 1
        return
    acc.cls("spell-seed-" + base[0])
    acc.states += 1
    bal = [(i, j) for (i, j) in ranges(lines) if balanced(lines, i, j)]

    def go(cuts, places, specs, kind):
        run_spelled(scr, sch, lines, acc, mid, base, cuts, places, specs, kind)

    if base[0] != "tree":
        # a rejected text cannot tell a reference that was not found from one that was: one spelling
        # per single-range layout, in rotation
        for (i, j) in bal:
            for pl in PLACES:
                go([(i, j, None)], (pl,), [rot_spec(scr, False, ("here",))], "spell-single-rejected-seed")
            scr.nsp += 2
        return
    for (i, j) in bal:
        for pl in PLACES:
            for f, v, nk in SPELL_COMBOS:
                go([(i, j, None)], (pl,), [mkspec(f, v, nk)], "spell-single")
            for f in LATE_FORMS:
                for v in LATE_VIAS:
                    go([(i, j, None)], (pl,), [mkspec(f, v, "plain", "after")], "spell-late-define")
    full = tier != "quick"
    pair_places = list(itertools.product(PLACES, repeat=2)) if full else \
        [("same", "sub"), ("sub", "parent"), ("parent", "same"), ("sub", "sub")]
    inner = [(f, v) for f in (SP.FORMS if full else PAIR_FORMS) for v in (SP.VIAS if full else PAIR_VIAS)
             if SP.applicable(f, v) and (f, v) != ("rel", "lit")]
    for a in range(len(bal)):
        for b in range(len(bal)):
            (i, j), (k, l) = bal[a], bal[b]
            if j <= k:
                cuts, kind, sites = [(i, j, None), (k, l, None)], "spell-pair-disjoint", ("here", "prev", "top")
            elif i <= k and l <= j and (i, j) != (k, l):
                cuts, kind, sites = [(i, j, None), (k, l, 0)], "spell-pair-nested", ("here", "top")
            else:
                continue
            for pls in pair_places:
                # the second / inner reference spelled, its definitions at every site
                for f, v in inner:
                    for site in (sites if v in SP.DEFINING_VIAS else ("here",)):
                        go(cuts, pls, [None, mkspec(f, v, "plain", site)], kind)
                # the first / outer reference spelled: the other one, written literally and relatively,
                # is resolved in a resource that was itself reached through a substituted reference
                for f, v in OUTER_SPELLED:
                    go(cuts, pls, [mkspec(f, v), None], kind)
                # the same file name for both fragments (same argument text, different resources
                # whenever the directories differ)
                for v in ("lit", "whole"):
                    go(cuts, pls, [mkspec("rel", "lit", "homonym"), mkspec("rel", v, "homonym")], kind)


def check_seed(scr, sch, lines, acc, mid, tier, cutsets=True, mode="all", fam=None):
    """mode: "all" = folds, every cut set, one spelled and one named variant per layout in rotation;
    "lean" = every cut set of one or two ranges only; "named" = the full product of the naming axis on every cut set (nothing else).
    fam = None or (tags, note): tags are added to the signature of a violation, note(cuts) -> names of
    coverage counters that are bumped when the layout is expected to give a value tree."""
    text = "\n".join(lines) + "\n"
    base = outcome_text(sch, text)
    acc.ev()
    if base[0] == "internal":
        acc.extra["seed_internal_errors(C07's)"] += 1
        return
    if mode != "named":
        acc.cls("seed-" + base[0])
        acc.states += 1
    else:
        acc.cls("named-seed-" + base[0])
    prof = depth_profile(lines)
    has_define = any(classify(l) == "define" for l in lines)
    bal = [(i, j) for (i, j) in ranges(lines) if balanced(lines, i, j)]
    unbal = [(i, j) for (i, j) in ranges(lines) if not balanced(lines, i, j)]
    famtags, famnote = fam if fam else ({}, None)
    x = acc.extra

    def run_case(cuts, places, expect, kind, top="abs", alias=()):
        named = top != "abs" or bool(alias)
        case = {"member": mid, "text": text, "cuts": [list(c) for c in cuts], "places": list(places)}
        if named:
            case.update(top=top, alias=list(alias))
        acc.current = case
        # a wrongly resolved reference finds nothing (accepted seeds: the load would be rejected) or a
        # harmless decoy (rejected seeds: the load might be accepted)
        path = build(scr, lines, cuts, places, top, alias, DECOY if named and base[0] != "tree" else None)
        arg, cwd = top_arg(top, path)
        x["cwd_decoys"] += plant_cwd_decoys(scr, cwd)
        got = outcome_file(sch, arg, None, cwd)
        acc.ev()
        acc.transitions += 1
        nontriv = any(prof[i] > 0 for i, j, p in cuts) or any(p is not None for i, j, p in cuts) or has_define \
            or named or fam is not None
        if nontriv:
            acc.nt()
        acc.sample(lambda: dict(case, kind=kind))
        acc.cls("%s:%s" % (kind, got[0]))
        # coverage counters by EXPECTED outcome (independent of what the implementation did)
        if named:
            x["expected named top=%s:%s" % (top, expect[0])] += 1
            x["expected named alias=%s:%s" % ("+".join(
                "outer" if cuts[a][2] is None and any(c[2] == a for c in cuts) else
                "inner" if cuts[a][2] is not None else "leaf" for a in alias) or "-", expect[0])] += 1
            if expect[0] == "tree":
                for idx in range(len(cuts)):
                    inc = cuts[idx][2]
                    if (inc is None and top in ("linkfile", "linkdir")) or inc in alias:
                        x["named tree: place=%s of a fragment whose includer is reached through a link" % places[idx]] += 1
        if famnote and expect[0] == "tree":
            for k in famnote(cuts):
                x[k] += 1
        if got[0] == "internal":
            acc.violation("internal-error", case, got[1], expect[0],
                          tags=dict(famtags, kind="internal-error", exc=got[1]["class"], where=got[1]["where"]))
        elif got != expect:
            tags = dict(famtags, kind=kind, places=list(places), nested=any(p is not None for _, _, p in cuts),
                        define=has_define, seed=base[0])
            if named:
                tags.update(top=top, alias=list(alias))
            acc.violation("unbalanced-fragment-accepted" if kind == "unbalanced" else
                          "named-layout-differs-from-inlined-text" if named else
                          "include-differs-from-inlined-text", case,
                          [got[0], repr(got[1:])[:300],
                           (LAST_REJECTION[0] or "").replace(scr.base, "<tmp>") if got[0] == "rejected" else ""],
                          [expect[0], repr(expect[1:])[:300]], tags=tags)

    full = tier != "quick"
    pair_places = list(itertools.product(PLACES, repeat=2)) if full else \
        [("same", "sub"), ("sub", "parent"), ("parent", "same"), ("sub", "sub")]
    # an outer fragment (in another directory) that itself includes two fragments one after the other:
    # the second inner include must still resolve against the OUTER fragment, not against whatever was
    # parsed last
    shapes = [("sub", "same", "same"), ("parent", "sub", "same"), ("sub", "sub", "parent")]
    if full:
        shapes += [("same", "sub", "sub"), ("parent", "parent", "same"), ("sub", "parent", "sub")]

    def pairs():
        for a in range(len(bal)):
            for b in range(len(bal)):
                (i, j), (k, l) = bal[a], bal[b]
                if j <= k:                                   # disjoint, a before b
                    yield "disjoint", [(i, j, None), (k, l, None)]
                elif i <= k and l <= j and (i, j) != (k, l):  # b nested in a
                    yield "nested", [(i, j, None), (k, l, 0)]

    def triples():
        for (i, j) in bal:
            inner = [(k, l) for (k, l) in bal if i <= k and l <= j and (k, l) != (i, j)]
            for (k, l), (m, n) in itertools.combinations(inner, 2):
                if l <= m:
                    yield [(i, j, None), (k, l, 0), (m, n, 0)]

    if mode == "named":
        # full product of the naming axis
        for (i, j) in bal:
            for pl in PLACES:
                for t, al in TOP_COMBOS_1:
                    run_case([(i, j, None)], (pl,), base, "named-single", t, al)
        for rel, cuts in pairs():
            for pls in pair_places:
                for t, al in (TOP_COMBOS_N if rel == "nested" else TOP_COMBOS_1 + [("abs", (0, 1))]):
                    run_case(cuts, pls, base, "named-pair-" + rel, t, al)
        for cuts in triples():
            for pls in shapes:
                for t, al in (TOP_COMBOS_N if full else TOP_COMBOS_1):
                    run_case(cuts, pls, base, "named-outer-with-two-inner", t, al)
        return

    rot = mode == "all"
    if rot:
        check_folds(scr, sch, lines, acc, mid, tier, base, bal, has_define)
    if not cutsets:
        return
    def spelled(cuts, places, specs, kind):
        run_spelled(scr, sch, lines, acc, mid, base, cuts, places, specs, kind)

    def named(cuts, places, kind, combos):
        # naming axis, one (naming of the outer resource, aliased fragments) per layout in rotation
        t, al = combos[scr.ntop % len(combos)]
        scr.ntop += 1
        run_case(cuts, places, base, kind, t, al)

    for (i, j) in bal:
        for pl in PLACES:
            run_case([(i, j, None)], (pl,), base, "single")
            if rot:
                # spelling axis, one spelling per layout in rotation
                spelled([(i, j, None)], (pl,), [rot_spec(scr, False, ("here",))], "spelled-single")
                named([(i, j, None)], (pl,), "named-single", TOP_COMBOS_1)
        scr.nsp += 2     # keeps the rotation from running in step with the 3 placements
    for (i, j) in unbal:
        run_case([(i, j, None)], ("same",), ("rejected",), "unbalanced")
    def spelled_pair_places():
        # quick: one of the placement pairs per pair of ranges, in rotation; thorough: all
        if full:
            return pair_places
        scr.npp += 1
        return [pair_places[scr.npp % len(pair_places)]]

    def named_pair_places():
        if full:
            return pair_places
        scr.ntp += 1
        return [pair_places[scr.ntp % len(pair_places)]]

    for rel, cuts in pairs():
        for pls in pair_places:
            run_case(cuts, pls, base, "pair-" + rel)
        if not rot:
            continue
        if rel == "disjoint":
            for pls in spelled_pair_places():
                spelled(cuts, pls, rot_specs(scr, (("here", "top"), ("here", "prev", "top"))), "spelled-pair-disjoint")
            for pls in named_pair_places():
                named(cuts, pls, "named-pair-disjoint", TOP_COMBOS_1)
        else:
            for pls in spelled_pair_places():
                spelled(cuts, pls, rot_specs(scr, (("here", "top"), ("here", "top"))), "spelled-pair-nested")
            for pls in named_pair_places():
                named(cuts, pls, "named-pair-nested", TOP_COMBOS_N)
    if not rot:
        return
    for cuts in triples():
        for pls in shapes:
            run_case(cuts, pls, base, "outer-with-two-inner")
        if not full:
            scr.npp += 1
        for pls in (shapes if full else [shapes[scr.npp % len(shapes)]]):
            spelled(cuts, pls, rot_specs(scr, (("here", "top"), ("here", "top"), ("here", "prev", "top"))),
                    "spelled-outer-with-two-inner")
        for pls in (shapes if full else []):        # quick: on the spell seeds only (full product there)
            named(cuts, pls, "named-outer-with-two-inner", TOP_COMBOS_N)
    if full and len(lines) <= 6:
        for a, b, c in itertools.permutations(range(len(bal)), 3):
            (i, j), (k, l), (m, n) = bal[a], bal[b], bal[c]
            if i <= k and l <= j and (i, j) != (k, l) and k <= m and n <= l and (k, l) != (m, n):
                for pls in (("sub", "parent", "sub"), ("parent", "parent", "same"), ("same", "sub", "parent")):
                    run_case([(i, j, None), (k, l, 0), (m, n, 1)], pls, base, "triple-nested")
            elif j <= k and l <= m:
                run_case([(i, j, None), (k, l, None), (m, n, None)], ("same", "sub", "parent"), base,
                         "triple-disjoint")


def outcome_loader(ld, path):
    import ZConfig
    try:
        cfg, _ = ld.loadURL(path)
        return ("tree", H.tree(cfg))
    except ZConfig.ConfigurationError as e:
        LAST_REJECTION[0] = "%s: %s" % (type(e).__name__, e)
        return ("rejected",)
    except Exception as e:
        return ("internal", core.exc_desc(e))


def fold_steps(scr, sch, ld, lines, cuts, classes, dirs, history, faults=FAULTS):
    """Execute one folded layout: -> list of (step, outcome, rejection message).  'fresh' = ZConfig.loadConfig of
    the layout; with `history`, for every fault: the layout with the fault line in the shared
    fragment loaded on the reused loader `ld` ('fault:<f>'), then the fault-free layout written to
    the SAME paths loaded on `ld` again ('after:<f>')."""
    out = []
    path = build_folded(scr, lines, cuts, classes, dirs)
    def rec(step, got):
        out.append((step, got, LAST_REJECTION[0] if got[0] == "rejected" else ""))

    rec("fresh", outcome_file(sch, path))
    if history:
        stray = stray_close_for(lines, [c for c, k in zip(cuts, classes) if k == 0][0][0])
        for f in faults:
            p2 = build_folded(scr, lines, cuts, classes, dirs, fault=f, stray=stray, n=scr.n)
            assert p2 == path
            rec("fault:" + f, outcome_loader(ld, path))
            build_folded(scr, lines, cuts, classes, dirs, n=scr.n)
            rec("after:" + f, outcome_loader(ld, path))
    return out


def check_folds(scr, sch, lines, acc, mid, tier, base, bal, has_define):
    import ZConfig.loader
    text = "\n".join(lines) + "\n"
    # one loader object per seed, reused by every history load of the seed (a loader that has
    # seen %import carries a private schema: not the subject here)
    ld = None if any(classify(l) == "directive" for l in lines) else ZConfig.loader.ConfigLoader(sch)
    nstruct = 0
    for kind, cuts, classes in fold_structures(lines, bal, tier):
        nstruct += 1
        scr.ns += 1
        ns = scr.ns
        ncls = max(classes) + 1
        assigns = dir_assignments(ncls, tier, ns)
        for di, dirs in enumerate(assigns):
            # the history steps on one directory assignment per structure, rotating with the
            # structure number so that every assignment is used
            history = ld is not None and di == ns % len(assigns)
            case = {"member": mid, "text": text, "fold": True, "cuts": [list(c) for c in cuts],
                    "classes": list(classes), "dirs": list(dirs), "history": history}
            acc.current = case
            # quick: one fault per structure, alternating; thorough: both
            faults = FAULTS if tier != "quick" else (FAULTS[(ns // 3) % 2],)
            case["faults"] = list(faults)
            steps = fold_steps(scr, sch, ld, lines, cuts, classes, dirs, history, faults)
            for step, got, _ in steps:
                acc.ev()
                acc.transitions += 1
                acc.nt()
                expect = ("rejected",) if step.startswith("fault:") else base
                sk = step.split(":")[0]
                acc.cls("%s/%s:%s" % (kind, sk, got[0]))
                # coverage counters by EXPECTED outcome (independent of what the implementation did)
                acc.extra["expected %s/%s:%s" % (kind, sk, expect[0])] += 1
                acc.extra["expected fold/%s:%s" % (sk, expect[0])] += 1
                if got[0] == "internal":
                    acc.violation("internal-error", dict(case, step=step), got[1], expect[0],
                                  tags={"kind": "internal-error", "exc": got[1]["class"], "where": got[1]["where"],
                                        "fold": kind, "step": step})
                elif got != expect:
                    vk = {"fresh": "shared-fragment-differs-from-inlined-text",
                          "fault": "faulty-shared-fragment-accepted",
                          "after": "reused-loader-differs-after-rejected-load"}[sk]
                    acc.violation(vk, dict(case, step=step), [got[0], repr(got[1:])[:300]],
                                  [expect[0], repr(expect[1:])[:300]],
                                  tags={"kind": kind, "step": step, "dirs": list(dirs), "define": has_define,
                                        "seed": base[0]})
            acc.sample(lambda: dict(case, kind=kind))
    if nstruct:
        acc.extra["seeds-with-a-repeated-run"] += 1


def define_seeds():
    A = ["%define a x", "%define a y", "%define B $a", "%define c $a$b", "u $a", "u ${b}", "u $c", "<s>", "</s>"]
    out = [t.rstrip("\n").split("\n") for t in DEFINE_TEXTS]
    for n in (3, 4):
        for combo in itertools.product(A, repeat=n):
            if not any(c.startswith("%define") for c in combo):
                continue
            if n == 4 and not (combo[0].startswith("%define") and combo[3].startswith("u ")
                               and sum(c.startswith("%define") for c in combo) >= 2):
                continue
            d = 0
            ok = True
            for c in combo:
                if c == "<s>":
                    d += 1
                elif c == "</s>":
                    d -= 1
                    if d < 0:
                        ok = False
            if ok and d == 0:
                out.append(list(combo))
    return out


# ---------------------------------------------------------------------------
# import axis: '%import' lines in the line alphabet.  A '%import' changes the state of the LOAD (the section
# types known from that line on), not of a section or of the definitions, so it is the third kind of thing that
# has to flow into and out of a fragment in reading order.

IMPORT_PKGS = ("vzc06pa", "vzc06pb")
IMPORT_COMPONENTS = {
    "vzc06pa": '<component>\n  <sectiontype name="pa1" implements="a"><multikey name="k"/></sectiontype>\n</component>\n',
    "vzc06pb": '<component>\n  <sectiontype name="pb1" implements="a"><key name="pk" default="d"/></sectiontype>\n'
               '</component>\n',
}
IMPORT_SCHEMA = """<schema>
  <abstracttype name="a"/>
  <sectiontype name="t"><multikey name="k"/><multisection type="a" name="*" attribute="items"/></sectiontype>
  <multikey name="k"/>
  <multisection type="a" name="*" attribute="items"/>
  <multisection type="t" name="*" attribute="ts"/>
</schema>
"""
IMPORT_ALPHABET = ("%import vzc06pa", "%import vzc06pb", "<pa1>", "</pa1>", "<pb1/>", "<t>", "</t>", "k a")


class ImportPackages:
    """The two component packages of the import axis on a scratch sys.path entry (fixed names, so that a
    replay sees the same texts)."""

    def __init__(self):
        import sys
        self.dir = tempfile.mkdtemp(prefix="vz-c06-pkgs-", dir="/dev/shm" if os.path.isdir("/dev/shm") else None)
        for name, xml in IMPORT_COMPONENTS.items():
            d = os.path.join(self.dir, name)
            os.makedirs(d)
            with open(os.path.join(d, "__init__.py"), "w") as f:
                f.write("# generated\n")
            with open(os.path.join(d, "component.xml"), "w") as f:
                f.write(xml)
        self.purge()
        sys.path.insert(0, self.dir)

    @staticmethod
    def purge():
        import importlib
        import sys
        for k in [k for k in sys.modules if k.split(".")[0] in IMPORT_PKGS]:
            del sys.modules[k]
        importlib.invalidate_caches()

    def close(self):
        import sys
        try:
            sys.path.remove(self.dir)
        except ValueError:
            pass
        self.purge()
        shutil.rmtree(self.dir, ignore_errors=True)


def import_seeds(tier):
    """All texts of 2..N lines over IMPORT_ALPHABET that are balanced as a layout, hold an '%import' line and
    a line that uses a section type of a component."""
    N = 4 if tier == "quick" else 5
    out = []
    for n in range(2, N + 1):
        for combo in itertools.product(IMPORT_ALPHABET, repeat=n):
            if not any(c.startswith("%import") for c in combo) or not any(c.startswith("<p") for c in combo):
                continue
            if balanced(list(combo), 0, n):
                out.append(list(combo))
    return out


def import_fam(lines):
    imp = [n for n, l in enumerate(lines) if l.startswith("%import")]
    use = [n for n, l in enumerate(lines) if l.startswith("<p")]

    def note(cuts):
        out = []
        first = min(c[0] for c in cuts)
        if any(n < first for n in imp) and any(n >= first for n in use):
            out.append("import tree: %import before the first %include, component type used in or after the fragment")
        if any(i <= n < j and u >= j for i, j, _ in cuts for n in imp for u in use):
            out.append("import tree: %import inside a fragment, component type used after that fragment")
        if any(p is not None and any(cuts[p][0] <= n < i for n in imp) and any(i <= u < j for u in use)
               for i, j, p in cuts):
            out.append("import tree: %import in an outer fragment, component type used in an inner fragment")
        return out

    return {"family": "import"}, note


# ---------------------------------------------------------------------------
# character axis: what a LINE is.  Lines end at LF (the parser reads with readline()); every other character
# is an ordinary character inside a line - in the original text and in a resource alike.  One character c at a
# time is put inside a key value, a comment, a %define value (and so into the value that refers to it) and a
# section name, for every c of CHARS: all C0 controls but LF and CR, DEL, all C1 controls (NEL among them),
# NBSP, SHY, a Latin-1 letter, and from beyond Latin-1: OGHAM SPACE MARK, ZERO WIDTH SPACE, LINE SEPARATOR,
# PARAGRAPH SEPARATOR, IDEOGRAPHIC SPACE, ZERO WIDTH NO-BREAK SPACE (the byte order mark, here inside a line),
# REPLACEMENT CHARACTER, a character outside the BMP.  (A bare CR is left out: file objects opened in text mode
# translate it, so "the original text given as a file object" is not well defined for it.)

CHARS = [c for c in range(0x00, 0x20) if c not in (0x0a, 0x0d)] + [0x7f] + list(range(0x80, 0xa0)) + \
    [0xa0, 0xad, 0xe9, 0x1680, 0x200b, 0x2028, 0x2029, 0x3000, 0xfeff, 0xfffd, 0x1f600]
# one per class, for the longer texts of the quick tier
REP_CHARS = [0x0c, 0x85, 0xe9, 0x2028, 0x1f600]
CHAR_ALPHABET = ("k a{c}b", "#c{c}d", "%define d e{c}f", "k $d", "<t n{c}m>", "<t>", "</t>")


def char_texts(n):
    """All texts of n lines over CHAR_ALPHABET (the character still a placeholder) that are balanced as a
    layout and hold the character."""
    out = []
    for combo in itertools.product(CHAR_ALPHABET, repeat=n):
        if any("{c}" in l for l in combo) and balanced(list(combo), 0, n):
            out.append(combo)
    return out


def char_members(tier):
    """-> list of (code point, line counts)"""
    if tier == "quick":
        return [(c, (1, 2) + ((3,) if c in REP_CHARS else ())) for c in CHARS]
    return [(c, (1, 2, 3) + ((4,) if c in REP_CHARS else ())) for c in CHARS]


def char_fam(c, lines):
    ch = chr(c)
    at = [n for n, l in enumerate(lines) if ch in l]
    label = "U+%04X" % c

    def note(cuts):
        out = []
        if any(i <= n < j for i, j, _ in cuts for n in at):
            out.append("char tree: %s inside a fragment" % label)
        else:
            out.append("char tree: %s only in the including resource" % label)
        return out

    return {"family": "char", "char": label}, note


def shard(member, acc):
    kind, tier = member[0], member[-1]
    scr = Scratch()
    pk = None
    try:
        if kind == "corpus":
            _, name, S, root, cdepth, lean = member[:6]
            xml = M.render(S)
            sch = H.load_schema(xml)
            mid = {"name": name, "schema": xml}
            na = nr = 0
            cap = 6 if tier == "quick" else 40
            for events, d in C.nodes(S, root, cdepth, lean):
                if d.verdict == "U" or len(events) < 3:
                    continue
                text = H.render_events(events)
                lines = text.rstrip("\n").split("\n")
                if len(lines) > (7 if tier == "quick" else 9):
                    continue
                if d.verdict == "A":
                    na += 1
                    if na > cap:
                        continue
                else:
                    nr += 1
                    if nr > cap:
                        continue
                check_seed(scr, sch, lines, acc, mid, tier)
                # wave 6: the same text with its LAST closer missing (one section left open at the end: rejected).
                # Among its unbalanced ranges are those that leave exactly that section open while the rest of the text
                # is fine - a fragment that leaves a section open must be rejected even where nothing else is wrong
                # (in an unbalanced range of a BALANCED text the rest of the text is broken too and hides it)
                if d.verdict == "A" and classify(lines[-1]) == "close" and na % (3 if tier == "quick" else 1) == 0:
                    acc.extra["truncated_seeds"] += 1
                    check_seed(scr, sch, lines[:-1], acc, mid, tier, mode="lean")
        elif kind == "import":
            _, name, xml, seeds = member[:4]
            pk = ImportPackages()
            mid = {"name": name, "schema": xml, "packages": "import-axis"}
            for lines in seeds:
                # a schema object of its own for every seed: what an %import leaves behind on the schema
                # object is C12's / C13's subject
                # (seeds the inlined text of which is rejected: every cut set of one or two ranges, nothing else)
                sch = H.load_schema(xml)
                lean = outcome_text(sch, "\n".join(lines) + "\n")[0] != "tree"
                check_seed(scr, sch, lines, acc, mid, tier, mode="lean" if lean else "all", fam=import_fam(lines))
        elif kind == "char":
            _, name, xml, c, counts = member[:5]
            sch = H.load_schema(xml)
            mid = {"name": name, "schema": xml}
            for n in counts:
                for combo in char_texts(n):
                    lines = [l.replace("{c}", chr(c)) for l in combo]
                    check_seed(scr, sch, lines, acc, mid, tier, mode="all" if n <= (1 if tier == "quick" else 2) else "lean",
                               fam=char_fam(c, lines))
        else:
            _, name, xml, seeds = member[:4]
            sch = H.load_schema(xml)
            mid = {"name": name, "schema": xml}
            for lines in seeds:
                if kind == "spell":
                    check_spell_seed(scr, sch, lines, acc, mid, tier)
                elif kind == "named":
                    check_seed(scr, sch, lines, acc, mid, tier, mode="named")
                else:
                    check_seed(scr, sch, lines, acc, mid, tier, cutsets=(kind != "repeat"))
    finally:
        scr.close()
        if pk is not None:
            pk.close()
    acc.traces = acc.transitions
    return acc


def run(tier):
    # Both tiers take their seeds from the quick generators (the seed sets of the thorough tier - one line longer on
    # every axis, every 4th member of the full family - were measured at more than an hour on 16 cores and are not
    # registered); the thorough tier goes deeper per seed: three cuts, all placement pairs, all shapes, both faults.
    gen_tier = "quick"
    mem = [("corpus",) + m + (tier,) for m in C.members_bounded(gen_tier, 4)]
    ds = define_seeds()
    step = 40
    for i in range(0, len(ds), step):
        mem.append(("fixed", "define-%d" % i, DEFINE_SCHEMA, ds[i:i + step], tier))
    rs = repeat_seeds(gen_tier)
    for i in range(0, len(rs), step):
        mem.append(("repeat", "repeat-%d" % i, REPEAT_SCHEMA, rs[i:i + step], tier))
    ss = spell_seeds(gen_tier)
    sstep = 3 if tier == "quick" else 1
    for i in range(0, len(ss), sstep):
        mem.append(("spell", "spell-%d" % i, REPEAT_SCHEMA, ss[i:i + sstep], tier))
    # wave 5: naming axis (full product on the spell seeds), import axis, character axis
    # Both tiers explore the wave-5 axes with the same bounds: the deeper variant (seeds one line longer on each of the
    # three axes) was measured at about 80 minutes on 16 cores and is not registered.
    t5 = "quick"
    ss5 = ss
    for i in range(0, len(ss5), 3):
        mem.append(("named", "named-%d" % i, REPEAT_SCHEMA, ss5[i:i + 3], t5))
    ims = import_seeds(t5)
    istep = 12
    for i in range(0, len(ims), istep):
        mem.append(("import", "import-%d" % i, IMPORT_SCHEMA, ims[i:i + istep], t5))
    cms = char_members(t5)
    for c, counts in cms:
        mem.append(("char", "char-U+%04X" % c, REPEAT_SCHEMA, c, counts, t5))
    quick = True        # for the wave-5 text below
    ss_all, ss = ss, ss5
    wave5 = (
        "NAMING AXIS (under which name a resource is known; 'the URL of the including resource' is the URL it was "
        "named / referred to by, references are resolved against it lexically): the outer file is named to "
        "ZConfig.loadConfig as %r = file:/// URL, file:/ URL, URL with a dot segment, path with a dot segment, "
        "relative path from the working directory above, bare file name in its own directory, a symbolic link to "
        "the real file in another directory (fragments beside the LINK), a path through a symbolic link to the real "
        "directory (the 'parent' placement is the parent of the LINK) - or by its absolute path; and a fragment is "
        "stored at its place as a symbolic link to a real file elsewhere (single range: %r; nested pair, 0 = outer, "
        "1 = inner: %r).  Accepted seeds: nothing exists where a reference resolved against the real location would "
        "lead; rejected seeds: a harmless decoy file is there.  (a) FULL PRODUCT on the %d spell seeds: every "
        "balanced range x 3 placements x %d (naming, alias) combinations; every disjoint / nested pair x %s "
        "placement pairs x %d / %d combinations; every outer-with-two-inner triple x %d shapes x %d combinations.  "
        "(b) ROTATION on every other seed handled in full (corpus, %%define, import, short character seeds): every "
        "single-range layout and every pair of ranges (%s)%s once more with a (naming, alias) combination drawn in "
        "turn.  "
        "IMPORT AXIS (a third thing that flows in reading order, besides definitions and the open section: the "
        "section types known to the load): %d import seeds = all layout-balanced texts of 2..%d lines over %r that "
        "hold an %%import and a use of a component type (two generated component packages, each adding one "
        "implementer of the abstract type of the schema; a schema object of its own per seed); accepted ones are "
        "treated like every other seed (all cut sets, folds, spelled and named rotation), rejected ones with every "
        "cut set of one or two ranges.  "
        "CHARACTER AXIS (what a line is: lines end at LF only, in the text and in a resource alike): for each of %d "
        "characters c (all C0 controls but LF / CR, DEL, all C1 controls, NBSP, SHY, U+00E9, U+1680, U+200B, U+2028, "
        "U+2029, U+3000, U+FEFF, U+FFFD, U+1F600; resources are UTF-8 files) all layout-balanced texts of %s lines "
        "over %r that hold c - inside a key value, a comment, a %%define value referred to later, a section name - "
        "(for %d class representatives also %d lines): %s.  "
        % (list(TOPS), list(SINGLE_ALIASES), list(NESTED_ALIASES), len(ss), len(TOP_COMBOS_1),
           "4" if quick else "9", len(TOP_COMBOS_1) + 1, len(TOP_COMBOS_N), 3 if quick else 6,
           len(TOP_COMBOS_1) if quick else len(TOP_COMBOS_N),
           "one placement pair each, in turn" if quick else "all placement pairs",
           "" if quick else " and every outer-with-two-inner triple",
           len(ims), 4 if quick else 5, list(IMPORT_ALPHABET),
           len(CHARS), "1..2" if quick else "1..3", list(CHAR_ALPHABET), len(REP_CHARS), 3 if quick else 4,
           "one-line texts like every other seed, longer ones with every cut set of one or two ranges" if quick else
           "texts up to two lines like every other seed, longer ones with every cut set of one or two ranges"))
    ss = ss_all
    run = core.Run(
        "C06", tier, "model_checking",
        rule="seeds = accepted and rejected corpus texts (3..%d lines, capped per schema) and %d %%define texts "
             "(all 3-/4-line texts over an 8-line define/use/section alphabet); per seed every balanced line range "
             "as a fragment in 3 placements (same / sub-directory with a space in its name / parent directory), "
             "every unbalanced range (must be rejected; also in every %s accepted seed with its last closer "
             "missing, where the rest of the text is fine), every ordered pair of disjoint or nested balanced ranges x "
             "%s placement pairs%s; real files, ZConfig.loadConfig(path) vs loadConfigFile(StringIO(original)).  "
             "FOLD AXIS (resource identity): for every seed above and for %d repeat seeds (all texts of 2..%d lines "
             "over the %d-line alphabet %r that are layout-balanced and contain a run of lines twice), every pair of "
             "disjoint balanced ranges with IDENTICAL lines becomes ONE file included from both places: both at the "
             "top of the main file (fold-siblings%s), one directly and one through any wrapper fragment in either "
             "order (fold-via-then-direct, fold-direct-then-via), both inside any one wrapper "
             "(fold-siblings-in-fragment), each inside its own wrapper (fold-diamond; fold-chain when the wrappers are "
             "identical too and are folded as well)%s; files in absolute directories main / sub / parent, %s, references = relative path from the includer's directory.  Steps per "
             "folded layout: fresh ZConfig.loadConfig == inlined text; and (%s) on ONE ConfigLoader per seed: the "
             "layout with a fault line appended to the shared fragment (%%include of the main file = cycle; a section "
             "end the fragment did not open) must be rejected, then the fault-free layout on the same paths must again "
             "equal the inlined text.  "
             "SPELLING AXIS (how the reference is written; the argument is $-expanded, THEN resolved against the "
             "includer's URL): form of the expanded reference %r (relative / ./relative / absolute path / file:/// / "
             "file:/) x via %r (literal; blanks and tabs around it; the whole reference, its directory part, directory "
             "part with the slash, file name, stem, directory and name, or the scheme from fresh %%define names written "
             "$n or ${n}; directory part from the environment $(E)) x name kind (plain, a '$' in the file name written "
             "'$$', one file name for all fragments of a layout) x site of the %%define lines (just before the "
             "%%include; first lines of the main file; last lines of the previous sibling fragment; just after the "
             "%%include = too late, must be rejected).  Oracle: loadConfigFile(StringIO(inlined text with the %%define "
             "lines left in place)); every spelling is first checked with the reference models of $-substitution and "
             "RFC 3986 resolution to denote the fragment's file.  (a) FULL PRODUCT on the accepted ones of %d spell "
             "seeds (all layout-balanced texts of 1..%d lines over %r; the rejected ones: single-range layouts with one "
             "spelling each, in turn): every balanced range x 3 placements x all %d (form, via, "
             "name kind) + late defines (%r x %r); every disjoint / nested pair of ranges x %s placement pairs x "
             "second / inner reference in %d (form, via) x every site, first / outer reference in %r with the other "
             "one literal, and both under one file name.  (b) ROTATION on every other seed: every single-range "
             "layout, every pair of ranges (%s) and every outer-with-two-inner triple (%s) is loaded once more "
             "with spellings drawn in turn from the %d / %d combinations (several fragments: all of them spelled, "
             "sites in turn).  "
             "%s"
             "states = seeds, transitions = loads of include layouts.  Non-trivial = a range inside a section, a "
             "nested cut, a seed with %%define, a folded layout (a resource read more than once in one load), a "
             "reference not written as a literal relative path, an outer resource not named by its plain absolute "
             "path, a resource stored as a symbolic link, a seed of the import or the character family."
             % (7 if tier == "quick" else 9, len(ds), "third" if tier == "quick" else "", "4" if tier == "quick" else "9",
                "" if tier == "quick" else ", triples for seeds <= 6 lines",
                len(rs), 5 if tier == "quick" else 6, len(REPEAT_ALPHABET), list(REPEAT_ALPHABET),
                "; three at once for seeds <= 5 lines" if tier == "quick" else "; every three at once",
                "" if tier == "quick" else ", two different repeated runs folded at once (fold-two-classes)",
                "all 3 for one file, for k = 2, 3 files three assignments per structure (leaf in each directory, "
                "wrappers shifted by an offset rotating over consecutive structures so that all 3^k occur)"
                if tier == "quick" else "all 3 / 9 assignments for 1 / 2 files, 9 of 27 for 3 files (every directory "
                "pair for leaf x each wrapper, rotating so that all 27 occur over consecutive structures)",
                "on one directory assignment per structure, rotating; " +
                ("one of the two faults per structure, alternating" if tier == "quick" else "both faults"),
                list(SP.FORMS), list(SP.VIAS), len(ss), 3 if tier == "quick" else 4, list(SPELL_ALPHABET),
                len(SPELL_COMBOS), list(LATE_FORMS), list(LATE_VIAS), "4" if tier == "quick" else "9",
                len(PAIR_FORMS) * len(PAIR_VIAS) if tier == "quick" else
                len([1 for f in SP.FORMS for v in SP.VIAS if SP.applicable(f, v)]) - 1,
                [list(c) for c in OUTER_SPELLED],
                "one placement pair each, in turn" if tier == "quick" else "all placement pairs",
                "one shape each, in turn" if tier == "quick" else "all shapes",
                len(SPELL_COMBOS), len(SPELL_COMBOS_M), wave5),
        bounds={"members": len(mem), "max_cuts": 2 if tier == "quick" else 3, "max_cuts_folded": 4,
                "repeat_seeds": len(rs), "repeat_seed_max_lines": 5 if tier == "quick" else 6,
                "fold_faults": list(FAULTS), "fold_dirs": list(DIRS),
                "spell_seeds": len(ss), "spell_seed_max_lines": 3 if tier == "quick" else 4,
                "spell_forms": list(SP.FORMS), "spell_vias": list(SP.VIAS),
                "spell_namekinds": list(NAMEKINDS) + ["homonym"], "spell_sites": list(SITES),
                "spell_combinations": len(SPELL_COMBOS), "spell_combinations_multi": len(SPELL_COMBOS_M),
                "naming_tops": ["abs"] + list(TOPS), "naming_aliases_single": [list(a) for a in SINGLE_ALIASES],
                "naming_aliases_nested": [list(a) for a in NESTED_ALIASES],
                "naming_combinations": [len(TOP_COMBOS_1), len(TOP_COMBOS_N)],
                "import_seeds": len(ims), "import_seed_max_lines": 4 if quick else 5,
                "import_alphabet": list(IMPORT_ALPHABET),
                "characters": ["U+%04X" % c for c in CHARS], "character_representatives": ["U+%04X" % c for c in REP_CHARS],
                "character_alphabet": list(CHAR_ALPHABET),
                "character_max_lines": [2, 3] if quick else [3, 4]},
        assumptions=["include arguments are URL-quoted references (a space is written %20; '$' stays literal); "
                     "absolute spellings contain the scratch directory under /dev/shm",
                     "the %define names inc<i> / nam<i> and the environment names VZC06_INC<i> used by the "
                     "spellings do not occur in any seed",
                     "folded cuts have exactly identical lines (indentation included)",
                     "the file system under /dev/shm supports symbolic links; the scratch directory itself is not "
                     "reached through one",
                     "a resource file holds the UTF-8 encoding of its lines, each ended by one LF; the inlined text is "
                     "given to loadConfigFile as an io.StringIO (no newline translation)",
                     "the package names vzc06pa / vzc06pb are free on sys.path"])
    core.pmap(shard, mem, run.acc, shard_budget=3000.0)
    a = run.acc
    run.require(a.classes.get("single:tree", 0) > 200 and a.classes.get("pair-nested:tree", 0) > 100,
                "few accepted include layouts")
    run.require(a.classes.get("unbalanced:rejected", 0) > 200, "few unbalanced fragments")
    run.require(a.extra.get("truncated_seeds", 0) > 100, "few seeds with the last closer missing")
    run.require(a.extra.get("cwd_decoys", 0) > 1000, "few decoy files in the working directory")
    x = a.extra
    for k in ("fold-siblings", "fold-via-then-direct", "fold-direct-then-via", "fold-siblings-in-fragment",
              "fold-diamond", "fold-chain", "fold-siblings-3"):
        run.require(x.get("expected %s/fresh:tree" % k, 0) > 50,
                    "fold axis: few layouts of kind %s with an accepted seed (a resource included twice in one load)" % k)
        run.require(x.get("expected %s/after:tree" % k, 0) > 10,
                    "fold axis: few reloads of an accepted layout after a rejected load for kind %s" % k)
    run.require(x.get("expected fold/fault:rejected", 0) > 1000, "fold axis: few faulty shared fragments")
    run.require(x.get("expected fold/fresh:rejected", 0) > 500, "fold axis: few rejected seeds with a folded layout")
    run.require(x.get("seeds-with-a-repeated-run", 0) > 1000, "fold axis: few seeds with a repeated run")
    if tier != "quick":
        run.require(x.get("expected fold-two-classes/fresh:tree", 0) > 50, "fold axis: few two-class layouts")
    # spelling axis: every cell of the stated products was reached with a layout the inlined text of which is accepted
    for f in SP.FORMS:
        for v in SP.VIAS:
            if SP.applicable(f, v):
                run.require(x.get("spell tree: form=%s via=%s" % (f, v), 0) > 200,
                            "spelling axis: few accepted layouts with form=%s via=%s" % (f, v))
        for pl in PLACES:
            run.require(x.get("spell tree: place=%s form=%s" % (pl, f), 0) > 500,
                        "spelling axis: few accepted layouts with place=%s form=%s" % (pl, f))
        for nk in NAMEKINDS + ("homonym",):
            run.require(x.get("spell tree: namekind=%s form=%s" % (nk, f), 0) > 100,
                        "spelling axis: few accepted layouts with namekind=%s form=%s" % (nk, f))
        for site in ("here", "top", "prev"):
            run.require(x.get("spell tree: site=%s form=%s" % (site, f), 0) > 100,
                        "spelling axis: few accepted layouts with site=%s form=%s" % (site, f))
        run.require(x.get("spell tree: includer=fragment form=%s" % f, 0) > 500,
                    "spelling axis: few accepted layouts with a %s reference inside a fragment" % f)
    for v in SP.DEFINING_VIAS:
        for site in ("here", "top", "prev"):
            run.require(x.get("spell tree: site=%s via=%s" % (site, v), 0) > 20,
                        "spelling axis: few accepted layouts with site=%s via=%s" % (site, v))
    for f in LATE_FORMS:
        for v in LATE_VIAS:
            run.require(x.get("spell late define, seed-tree: form=%s via=%s" % (f, v), 0) > 50,
                        "spelling axis: few late defines with form=%s via=%s" % (f, v))
    for k in ("spell-single", "spell-pair-disjoint", "spell-pair-nested", "spelled-single", "spelled-pair-disjoint",
              "spelled-pair-nested", "spelled-outer-with-two-inner"):
        run.require(x.get("expected %s:tree" % k, 0) > 1000, "spelling axis: few accepted layouts of kind %s" % k)
    # naming axis: every way of naming the outer resource, every alias pattern and every placement behind a link
    # was reached with a layout whose inlined text is accepted
    for t in ("abs",) + TOPS:
        run.require(x.get("expected named top=%s:tree" % t, 0) > (1000 if t != "abs" else 500),
                    "naming axis: few accepted layouts with the outer resource named as %s" % t)
        run.require(x.get("expected named top=%s:rejected" % t, 0) > 500,
                    "naming axis: few rejected layouts (decoys present) with the outer resource named as %s" % t)
    for al in ("-", "leaf", "outer", "outer+inner"):
        run.require(x.get("expected named alias=%s:tree" % al, 0) > 1000,
                    "naming axis: few accepted layouts with alias pattern %s" % al)
    for pl in PLACES:
        run.require(x.get("named tree: place=%s of a fragment whose includer is reached through a link" % pl, 0) > 1000,
                    "naming axis: few accepted layouts with a %s-placed fragment of an includer reached through a link" % pl)
    for k in ("named-single", "named-pair-disjoint", "named-pair-nested", "named-outer-with-two-inner"):
        run.require(a.classes.get("%s:tree" % k, 0) > 1000, "naming axis: few accepted layouts of kind %s" % k)
    # import axis
    for k, n in (("%import before the first %include, component type used in or after the fragment", 2000),
                 ("%import inside a fragment, component type used after that fragment", 1000),
                 ("%import in an outer fragment, component type used in an inner fragment", 200)):
        run.require(x.get("import tree: " + k, 0) > n, "import axis: few accepted layouts with " + k)
    # character axis: every character, inside a fragment and outside, with an accepted inlined text
    for c in CHARS:
        for k, n in (("inside a fragment", 100), ("only in the including resource", 2)):
            run.require(x.get("char tree: U+%04X %s" % (c, k), 0) > n,
                        "character axis: few accepted layouts with U+%04X %s" % (c, k))
    return run


def show(text):
    """Printable form of a resource: every character outside printable ASCII (LF apart) escaped."""
    return "".join(ch if ch == "\n" or " " <= ch <= "~" else ch.encode("unicode_escape").decode("ascii") for ch in text)


def print_files(scr):
    for dp, dn, fn in os.walk(scr.base):
        for d in sorted(dn):
            q = os.path.join(dp, d)
            if os.path.islink(q):
                print("--- %s -> %s (directory)" % (os.path.relpath(q, scr.base), os.readlink(q).replace(scr.base, "<tmp>")))
        for f in sorted(fn):
            q = os.path.join(dp, f)
            if os.path.islink(q):
                print("--- %s -> %s" % (os.path.relpath(q, scr.base), os.readlink(q).replace(scr.base, "<tmp>")))
            else:
                print("--- %s\n%s" % (os.path.relpath(q, scr.base), show(open(q, encoding="utf-8", newline="").read())), end="")


def replay_fold(body):
    import ZConfig.loader
    case = body["case"]
    rc = 0
    for _ in range(2):
        scr = Scratch()
        try:
            sch = H.load_schema(case["member"]["schema"])
            lines = case["text"].rstrip("\n").split("\n")
            cuts = [tuple(c) for c in case["cuts"]]
            exp = outcome_text(sch, case["text"])
            ld = ZConfig.loader.ConfigLoader(sch)
            steps = fold_steps(scr, sch, ld, lines, cuts, tuple(case["classes"]), tuple(case["dirs"]),
                               bool(case.get("history", True)), tuple(case.get("faults") or FAULTS))
            print_files(scr)
            print("inlined text          :", exp[0], repr(exp[1:])[:300])
            for step, got, msg in steps:
                want = ("rejected",) if step.startswith("fault:") else exp
                bad = got != want
                print("%-22s: %s %s%s" % (step + (" (reused loader)" if step != "fresh" else ""), got[0],
                                          msg.replace(scr.base, "<tmp>") if msg else repr(got[1:])[:300],
                                          "   <-- differs" if bad else ""))
                if bad and step == case.get("step"):
                    rc = 1
        finally:
            scr.close()
    return rc


def replay(body):
    case = body["case"]
    pk = ImportPackages() if case["member"].get("packages") else None
    try:
        if case.get("fold"):
            return replay_fold(body)
        return replay_layout(body)
    finally:
        if pk is not None:
            pk.close()


def replay_layout(body):
    case = body["case"]
    rc = 0
    for _ in range(2):
        scr = Scratch()
        try:
            sch = H.load_schema(case["member"]["schema"])
            lines = case["text"].rstrip("\n").split("\n")
            cuts = [tuple(c) for c in case["cuts"]]
            if case.get("specs"):
                path, inl, env = build_spelled(scr, lines, cuts, case["places"], case["specs"])
                got = outcome_file(sch, path, env)
                exp = outcome_text(sch, "\n".join(inl) + "\n")
                if body["kind"] == "late-define-accepted":
                    exp = ("rejected",)
                if env:
                    print("environment:", env)
            else:
                exp = outcome_text(sch, case["text"])
                top, alias = case.get("top", "abs"), tuple(case.get("alias", ()))
                named = top != "abs" or bool(alias)
                path = build(scr, lines, cuts, case["places"], top, alias, DECOY if named and exp[0] != "tree" else None)
                arg, cwd = top_arg(top, path)
                plant_cwd_decoys(scr, cwd)
                got = outcome_file(sch, arg, None, cwd)
                print("loadConfig(schema, %r)%s" % (arg.replace(scr.base, "<tmp>"),
                                                    " in the working directory " + cwd.replace(scr.base, "<tmp>") if cwd else ""))
            if got[0] == "rejected":
                print("rejection    :", show((LAST_REJECTION[0] or "").replace(scr.base, "<tmp>")))
            print_files(scr)
            print("with includes:", got[0], repr(got[1:])[:300])
            print("inlined     :", exp[0], repr(exp[1:])[:300], "(expected %s)" % body["expected"][0])
            if got[0] != body["expected"][0] or (got[0] == "tree" and got != exp):
                rc = 1
        finally:
            scr.close()
    return rc
