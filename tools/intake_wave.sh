#!/bin/bash
# intake_wave.sh CNN X [X...] : run tools/intake_seed.py for each change letter, print a one-line summary each
p=$1; shift
for x in "$@"; do python3 /verif/tools/intake_seed.py $p $x 2>&1 | /venv/bin/python -c "
import sys,json
t=sys.stdin.read()
i=t.rfind('}')
try:
    d=json.loads(t[:i+1])
    print(d['property'],d['change'],'confirmed',d['confirmed'],{k:(v['rc'],v['violation_lines'],v['kinds'],v['secs']) for k,v in (d.get('checks') or {}).items()})
    if not d['confirmed']: print(json.dumps({k:d.get(k) for k in ('demo_without_patch','demo_with_patch','suite_with_patch','patch_applies')})[:600])
except Exception as e:
    print('PARSE-FAIL',e,t[-600:])
"; done
