"""C19 - every resource opened during a load is closed, however the load ends.

Engine E4 (fault-point enumeration), level "fault_enumeration".

Scenario space: every ordered include / %import / extends / <import package> / <import src>
tree of 3..N resources (N = 4 quick, 5 thorough) from a generator of three node kinds

    S  schema document   slots: extends="..." (S), <import package> (P), <import src> (S)
    P  component package slots: <import package> (P)
    C  configuration     slots: %include inside a section (C), %import (P), %include (C)

in three families - "schema" (a schema graph is loaded), "config" (a configuration graph is
loaded against a one-file schema), "session" (a schema graph, then a configuration graph
against it, faults anywhere in both calls) - plus every such tree with one extra reference
edge (diamonds / repeated references), plus the loadFile entry point for the trees.
Files are REAL files in a scratch directory under /dev/shm, component packages are real
packages on sys.path, and the REAL openResource / urlopen / openPackageResource run.

For each scenario: one recording run counts the fault points (vz.engine.faults), then the
scenario is re-run once per (point, exception variant) with exactly that point failing.
Oracle after every call that returned or raised: every Resource handed out by createResource
is closed (closed is True, file is None, underlying file closed); every urlopen stream is
closed and was closed before the Resource for it was created; and a following failure-free
load (same SchemaLoader / same schema object with a fresh ConfigLoader) gives the
failure-free outcome.

Wave 2 - two more axes, both about the window between the OPEN of a resource and its FIRST READ
(the existing fault points - open, read i, conversion k, section datatype s - all lie at or after the
first read of the innermost open resource, so a resource whose `with` starts late went unnoticed):

* entry point x command-line overrides: the same trees are loaded through every public entry point
  (ZConfig.loadSchema / loadSchemaFile / loadConfig / loadConfigFile next to the loader methods), the
  configuration ones with an override set from a small alphabet - none, the top-level key, the key of
  the first-level / nested section of file j for every configuration file j, an imported section type,
  all of them at once, an unknown key, an unconsumable path.  With overrides ZConfig uses
  cmdline.ExtendedConfigLoader, which converts override names with the schema's key type when the
  schema matcher is created (top resource open, nothing read yet), inside createChildMatcher (while
  the file that opens the section is being read) and replays the values when a section finishes.  The
  top-level schema of these scenarios carries keytype=vzdt.keyt and datatype=vzdt.sect, sections are
  named, so every one of those conversions is an enumerated fault point.
* back edges: every tree also with every %include edge from a configuration file to itself or to one
  of its ancestors.  The failure-free load ends in ZConfig's own "resource includes itself" error,
  raised after the resource was opened once more and before its first line is read.
"""
import functools
import os
import shutil
import sys
import tempfile

from vz import core
from vz.engine import faults as F

PKG = "vzc19p"          # generated component packages: vzc19p<idx>
DT = "vz.harness.vzdt."

# ----------------------------------------------------------------------------
# scenario generator


def _splits(m, k):
    """all k-tuples of non-negative ints summing to m"""
    if k == 1:
        yield (m,)
        return
    for a in range(m + 1):
        for rest in _splits(m - a, k - 1):
            yield (a,) + rest


SLOTS = {"S": ("S", "P", "S"), "P": ("P",), "C": ("C", "P", "C")}
SLOT_NAMES = {"S": ("extends", "import-package", "import-src"), "P": ("import-package",),
              "C": ("include-in-section", "percent-import", "include")}


@functools.lru_cache(maxsize=None)
def trees(kind, n):
    """all ordered trees with n nodes and a root of `kind`; a tree is (kind, slot0, slot1, ...)
    where each slot is a tuple of trees"""
    if n < 1:
        return ()
    out = []
    kinds = SLOTS[kind]
    for parts in _splits(n - 1, len(kinds)):
        choices = [forests(k, p) for k, p in zip(kinds, parts)]
        combos = [()]
        for ch in choices:
            combos = [c + (f,) for c in combos for f in ch]
        for c in combos:
            out.append((kind,) + c)
    return tuple(out)


@functools.lru_cache(maxsize=None)
def forests(kind, m):
    """all ordered forests with m nodes in total whose trees have roots of `kind`"""
    if m == 0:
        return ((),)
    out = []
    for k in range(1, m + 1):
        for t in trees(kind, k):
            for rest in forests(kind, m - k):
                out.append((t,) + rest)
    return tuple(out)


def size(t):
    return 1 + sum(size(c) for slot in t[1:] for c in slot)


def flatten(t, nodes, parent=None, slot=None):
    """number the nodes in text order (DFS preorder); nodes[i] = dict"""
    i = len(nodes)
    node = {"i": i, "kind": t[0], "parent": parent, "slot": slot, "slots": [[] for _ in t[1:]]}
    nodes.append(node)
    for s, sl in enumerate(t[1:]):
        for c in sl:
            node["slots"][s].append(flatten(c, nodes, i, s))
    return i


def subtree(nodes, i):
    out = {i}
    for sl in nodes[i]["slots"]:
        for c in sl:
            out |= subtree(nodes, c)
    return out


def extra_edges(nodes, lo, hi):
    """every extra reference edge (u, slot, v) inside nodes[lo:hi] that keeps the graph acyclic
    and is not a repetition of v's own tree edge"""
    out = []
    for v in range(lo + 1, hi):
        below = subtree(nodes, v)
        for u in range(lo, hi):
            if u in below:
                continue
            for s, k in enumerate(SLOTS[nodes[u]["kind"]]):
                if k != nodes[v]["kind"]:
                    continue
                if nodes[v]["parent"] == u and nodes[v]["slot"] == s:
                    continue
                out.append((u, s, v))
    return out


def back_edges(nodes, lo, hi):
    """every %include edge (u, slot, v) inside nodes[lo:hi] from a configuration file u to itself or to
    one of its ancestors v (the include cycle ZConfig must refuse after opening v once more)"""
    out = []
    for v in range(lo, hi):
        if nodes[v]["kind"] != "C":
            continue
        for u in sorted(subtree(nodes, v)):
            if nodes[u]["kind"] != "C":
                continue
            for s, k in enumerate(SLOTS["C"]):
                if k == "C":
                    out.append((u, s, v))
    return out


def override_targets(nodes, lo, hi):
    """option paths of the scenario: (kind, node, path) for the first-level section a<j> and the nested
    section b<j> of every configuration file j, and for the section <q<c>> of every component c that a
    configuration file %imports, as seen from the top of the configuration"""
    prefix = {}
    out = []
    for j in range(lo, hi):
        nd = nodes[j]
        if nd["kind"] != "C":
            continue
        par = nd["parent"]
        if par is None or par < lo:
            prefix[j] = []
        elif nd["slot"] == 0:
            prefix[j] = prefix[par] + ["a%d" % par]
        else:
            prefix[j] = prefix[par]
        out.append(("sec", j, prefix[j] + ["a%d" % j, "k"]))
        out.append(("sub", j, prefix[j] + ["a%d" % j, "b%d" % j, "k"]))
        for c in nd["slots"][1]:
            out.append(("imp", c, prefix[j] + ["q%d" % c, "k"]))
    return out


def override_list(ov, nodes, lo, hi):
    """the value specifiers of override set `ov` = [kind] or [kind, node]"""
    kind = ov[0]
    tg = override_targets(nodes, lo, hi)
    if kind == "none":
        return []
    if kind == "top":
        return ["mk=o"]
    if kind == "unknown":
        return ["mk=o", "nosuch=1"]
    if kind == "unconsumed":
        return ["mk=o", "zz/k=1"]
    if kind == "all":
        return ["mk=o", "y0=o"] + ["%s=o%s%d" % ("/".join(p), k, j) for k, j, p in tg if k != "imp"]
    for k, j, p in tg:
        if k == kind and j == ov[1]:
            return ["%s=o%s%d" % ("/".join(p), k, j)]
    raise core.HarnessError("C19: no override target %r" % (ov,))


def scenarios(tier):
    """The explored scenario set (deterministic, independent of the seed)."""
    N = 4 if tier == "quick" else 5
    one = ("S", (), (), ())
    out = []

    alt = [0]

    def add(family, st, ct, via, extra=None, api=None, ov=None, cyclic=False, nv=None):
        # quick tier: the largest graphs with an extra edge get one exception variant per point
        vsel = 0
        if nv is None:
            nv = 1 if (tier == "quick" and extra is not None and size(ct or st) >= 4) else 2
            if tier != "quick" and extra is not None and size(ct or st) >= 5:
                # thorough tier (CPU bound): 5-resource graphs with an extra edge get one exception variant
                # per point, the first and the second one alternately from scenario to scenario
                nv = 1
                vsel = alt[0]
                alt[0] ^= 1
        spec = {"family": family, "schema": st, "config": ct, "via": via, "extra": extra,
                "variants": nv}
        if vsel:
            spec["vsel"] = vsel
        if api is not None:         # wave 2 keys only where used: wave-1 specs (and replays) unchanged
            spec["api"] = api
            spec["ov"] = ov
        if cyclic:
            spec["cyclic"] = True
        out.append(spec)

    for n in range(3, N + 1):
        for t in trees("S", n):
            for via in ("url", "file"):
                add("schema", t, None, via)
            nodes = []
            flatten(t, nodes)
            for e in extra_edges(nodes, 0, len(nodes)):
                add("schema", t, None, "url", list(e))
        for t in trees("C", n):
            for via in ("url", "file"):
                add("config", one, t, via)
            nodes = []
            flatten(one, nodes)
            flatten(t, nodes)
            for e in extra_edges(nodes, 1, len(nodes)):
                add("config", one, t, "url", list(e))
    for a in range(2, N - 1):
        for b in range(2, N - a + 1):
            for st in trees("S", a):
                for ct in trees("C", b):
                    add("session", st, ct, "url")
    # ---- wave 2: public entry points x override sets, and include cycles
    quick = tier == "quick"
    for n in range(3, N + 1):
        for t in trees("S", n):
            if n > (3 if quick else 4):
                continue
            for via in ("url", "file"):
                add("schema", t, None, via, api="fn")
        for t in trees("C", n):
            nodes = []
            flatten(one, nodes)
            flatten(t, nodes)
            big = n >= 4
            if quick:
                add("config", one, t, "url", api="fn", ov=["top"])
                add("config", one, t, "file", api="fn", ov=["top"], nv=1 if big else 2)
                add("config", one, t, "url", api="ext", ov=["all"], nv=1 if big else 2)
                add("config", one, t, "url", api="fn", ov=["unknown"], nv=1 if big else 2)
            elif n <= 4:
                for k in ("top", "all", "unknown"):
                    add("config", one, t, "url", api="ext", ov=[k])
                for k in ("none", "top", "all", "unknown", "unconsumed"):
                    add("config", one, t, "url", api="fn", ov=[k])
                for k in ("top", "all"):
                    add("config", one, t, "file", api="fn", ov=[k])
                for k, j, _ in override_targets(nodes, 1, len(nodes)):
                    add("config", one, t, "url", api="fn", ov=[k, j], nv=1 if big else 2)
            else:
                add("config", one, t, "url", api="ext", ov=["all"], nv=1)
            # the refusal of the cycle is a failure of the failure-free run; the fault points in front of it
            # repeat those of the plain trees, so the largest trees get the failure-free run (+ repeat and
            # reload with the same loader) only: variants = 0
            for e in back_edges(nodes, 1, len(nodes)):
                add("config", one, t, "url", list(e), cyclic=True, nv=0 if n >= (4 if quick else 5) else 2)
    for a in range(2, N - 1):
        for b in range(2, N - a + 1):
            for st in trees("S", a):
                for ct in trees("C", b):
                    add("session", st, ct, "url", api="fn", ov=["all"], nv=2 if a + b <= 4 else 1)
                    if not quick:
                        add("session", st, ct, "url", api="fn", ov=["top"], nv=2 if a + b <= 4 else 1)
    return out


# ----------------------------------------------------------------------------
# scenario -> files


def _schema_text(node, top, serves_config, typed_top=False):
    i = node["i"]
    ext, pkgs, srcs = node["slots"]
    L = []
    # typed_top (wave 2, configuration scenarios loaded through the public functions): the schema itself
    # has the counting key type and section datatype, so the conversion of a top-level key name (in the
    # file and in a command-line override) and the datatype of the root section are fault points
    typed = ' keytype="%skeyt" datatype="%ssect"' % (DT, DT) if (top and typed_top) else ""
    L.append("<schema%s%s>" % (' extends="%s"' % " ".join("s%d.xml" % c for c in ext) if ext else "", typed))
    if top and serves_config:
        L.append('<abstracttype name="ext"/>')
    L.append('<sectiontype name="t%d" keytype="%skeyt" datatype="%ssect">' % (i, DT, DT))
    L.append('<key name="K%d" datatype="%sconv" default="d%d"/>' % (i, DT, i))
    L.append("</sectiontype>")
    for c in pkgs:
        L.append('<import package="%s%d"/>' % (PKG, c))
    for c in srcs:
        L.append('<import src="s%d.xml"/>' % c)
    if top and serves_config:
        L.append('<sectiontype name="sec" keytype="%skeyt" datatype="%ssect">' % (DT, DT))
        L.append('<key name="k" datatype="%sconv"/>' % DT)
        L.append('<multikey name="mk" datatype="%sconv"/>' % DT)
        L.append('<multisection type="sec" name="*" attribute="subs"/>')
        L.append('<multisection type="ext" name="*" attribute="exts"/>')
        L.append("</sectiontype>")
        L.append('<multikey name="mk" datatype="%sconv"/>' % DT)
        L.append('<multisection type="sec" name="*" attribute="secs"/>')
        L.append('<multisection type="ext" name="*" attribute="exts"/>')
    L.append('<multisection type="t%d" name="*" attribute="a%d"/>' % (i, i))
    L.append('<key name="y%d" datatype="%sconv" default="e%d"/>' % (i, DT, i))
    L.append("</schema>")
    return "\n".join(L) + "\n"


def _component_text(node, implements):
    i = node["i"]
    (pkgs,) = node["slots"]
    L = ["<component>"]
    L.append('<sectiontype name="q%d"%s keytype="%skeyt" datatype="%ssect">'
             % (i, ' implements="ext"' if implements else "", DT, DT))
    L.append('<key name="K" datatype="%sconv" default="g%d"/>' % (DT, i))
    L.append("</sectiontype>")
    for c in pkgs:
        L.append('<import package="%s%d"/>' % (PKG, c))
    L.append('<sectiontype name="r%d"/>' % i)
    L.append("</component>")
    return "\n".join(L) + "\n"


def _config_text(node, named=False):
    i = node["i"]
    insec, imps, incs = node["slots"]
    if named:       # wave 2: sections addressable by an option path
        L = ["mk m%d" % i, "<sec a%d>" % i, "k v%d" % i, "<sec b%d>" % i, "k w%d" % i, "</sec>"]
    else:
        L = ["mk m%d" % i, "<sec>", "k v%d" % i, "<sec>", "k w%d" % i, "</sec>"]
    for c in insec:
        L.append("%%include c%d.conf" % c)
    L.append("</sec>")
    for c in imps:
        L.append("%%import %s%d" % (PKG, c))
        L.append("<q%d>" % c)
        L.append("k u%d" % c)
        L.append("</q%d>" % c)
    for c in incs:
        L.append("%%include c%d.conf" % c)
    L.append("mk z%d" % i)
    return "\n".join(L) + "\n"


class Mat:
    """A scenario materialised in a directory."""


def materialize(spec, root):
    m = Mat()
    m.spec = spec
    m.family = spec["family"]
    m.via = spec["via"]
    m.dir = root
    nodes = []
    flatten(tuple_tree(spec["schema"]), nodes)
    ns = len(nodes)
    has_config = spec["config"] is not None
    if has_config:
        croot = flatten(tuple_tree(spec["config"]), nodes)
    if spec.get("extra"):
        u, s, v = spec["extra"]
        nodes[u]["slots"][s].append(v)
    m.nodes = nodes
    m.packages = []
    in_config_graph = set(range(ns, len(nodes)))
    m.api = spec.get("api")
    m.overrides = None
    if m.api and has_config:
        m.overrides = override_list(spec["ov"], nodes, ns, len(nodes))
    typed = m.overrides is not None
    for nd in nodes:
        i = nd["i"]
        if nd["kind"] == "S":
            text = _schema_text(nd, i == 0, has_config, typed)
            with open(os.path.join(root, "s%d.xml" % i), "w") as f:
                f.write(text)
        elif nd["kind"] == "C":
            with open(os.path.join(root, "c%d.conf" % i), "w") as f:
                f.write(_config_text(nd, typed))
        else:
            name = "%s%d" % (PKG, i)
            d = os.path.join(root, name)
            os.mkdir(d)
            with open(os.path.join(d, "__init__.py"), "w") as f:
                f.write("")
            with open(os.path.join(d, "component.xml"), "w") as f:
                f.write(_component_text(nd, i in in_config_graph))
            m.packages.append(name)
    m.schema_path = os.path.join(root, "s0.xml")
    m.config_path = os.path.join(root, "c%d.conf" % croot) if has_config else None
    m.armed_resources = (len(nodes) - 1) if m.family == "config" else len(nodes)
    return m


def tuple_tree(t):
    """JSON round trip turns tuples into lists"""
    return (t[0],) + tuple(tuple(tuple_tree(c) for c in sl) for sl in t[1:])


def file_url(path):
    from urllib.request import pathname2url
    return "file://" + pathname2url(path)


def purge_packages():
    for k in [k for k in sys.modules if k.startswith(PKG)]:
        del sys.modules[k]


# ----------------------------------------------------------------------------
# observation: value trees and schema digests


def tree(v):
    from vz.harness import vzdt
    if isinstance(v, vzdt.Wrapped):
        return ("W", tree(v.value))
    if hasattr(v, "getSectionAttributes"):
        return ("S", v.getSectionType(), v.getSectionName(),
                tuple((a, tree(getattr(v, a))) for a in sorted(v.getSectionAttributes())))
    if isinstance(v, list):
        return ("L",) + tuple(tree(x) for x in v)
    if isinstance(v, dict):
        return ("D",) + tuple(sorted((k, tree(x)) for k, x in v.items()))
    return (type(v).__name__, v)


def _dt(f):
    n = getattr(f, "__qualname__", None)
    if n is None:
        return type(f).__module__ + "." + type(f).__qualname__ + "()"
    return getattr(f, "__module__", "?") + "." + n


def _default(info):
    try:
        d = info.getdefault()
    except Exception as e:       # pragma: no cover
        return "raises " + type(e).__name__

    def vi(x):
        if hasattr(x, "value") and hasattr(x, "position"):
            pos = x.position
            if pos is not None:
                pos = tuple(F.short(p) if isinstance(p, str) else p for p in pos)
            return (x.value, pos)
        return repr(x)
    if isinstance(d, list):
        return [vi(x) for x in d]
    if isinstance(d, dict):
        return sorted((k, [vi(y) for y in x] if isinstance(x, list) else vi(x)) for k, x in d.items())
    return vi(d) if d is not None else None


def _type_digest(t):
    if t.isabstract():
        return ("abstract", t.name, tuple(t.getsubtypenames()), t.description)
    ch = []
    for key, info in t:
        if info.issection():
            ch.append((key, "section", info.name, info.attribute, info.minOccurs, str(info.maxOccurs),
                       info.handler, info.sectiontype.name))
        else:
            ch.append((key, "key", type(info).__name__, info.name, info.attribute, info.minOccurs,
                       str(info.maxOccurs), info.handler, _dt(info.datatype), _default(info)))
    return ("concrete", t.name, _dt(t.keytype), _dt(t.valuetype), _dt(t.datatype), tuple(ch),
            t.description, getattr(t, "example", None))


def schema_digest(schema):
    """Complete structural digest of a loaded schema."""
    types = tuple((n, _type_digest(schema.gettype(n))) for n in sorted(schema.gettypenames()))
    comps = tuple(sorted(schema._components))
    return (F.short(schema.url), schema.handler, _type_digest(schema), types, comps)


def exc_sig(e, scratch=None):
    msg = str(e)
    if scratch:
        msg = msg.replace(scratch, "<scratch>")
    return (type(e).__name__, msg[:300])


# ----------------------------------------------------------------------------
# running one session (schema call, then optional configuration call)


def load_top(loader, path, via):
    """-> ("ok", value) | ("raised", (class, message)); the API call under observation"""
    try:
        if via == "file":
            f = open(path)
            try:
                return "ok", loader.loadFile(f, file_url(path))
            finally:
                f.close()
        return "ok", loader.loadURL(path)
    except (Exception, F.InjectedInterrupt) as e:
        return "raised", exc_sig(e, os.path.dirname(path))


class SchemaFn:
    """Entry point `ZConfig.loadSchema` / `ZConfig.loadSchemaFile` (a fresh SchemaLoader per call)."""

    def loadURL(self, url):
        import ZConfig
        return ZConfig.loadSchema(url)

    def loadFile(self, file, url):
        import ZConfig
        return ZConfig.loadSchemaFile(file, url)


class ConfigFn:
    """Entry point `ZConfig.loadConfig` / `ZConfig.loadConfigFile` with `overrides` (a fresh loader per
    call: ConfigLoader without, cmdline.ExtendedConfigLoader with overrides)."""

    def __init__(self, schema, overrides):
        self.schema = schema
        self.overrides = overrides

    def loadURL(self, url):
        import ZConfig
        return ZConfig.loadConfig(self.schema, url, overrides=list(self.overrides))

    def loadFile(self, file, url):
        import ZConfig
        return ZConfig.loadConfigFile(self.schema, file, url, overrides=list(self.overrides))


class Inst(F.Instrument):
    """Instrument that also notes, in the recording run, whether a conversion / section-datatype point
    lies in the window between the open of the innermost open resource and its first read."""

    def _dt(self, kind, value):
        if not (self.active and self.record):
            return F.Instrument._dt(self, kind, value)
        window = False
        for rec in reversed(self.resources):
            if not rec["res"].closed:
                window = rec["reads"] == 0
                break
        n0 = len(self.points)
        F.Instrument._dt(self, kind, value)
        if len(self.points) > n0:
            self.points[-1]["window"] = window


def _probs(inst, phase, seen, out):
    for p in inst.check():
        p = dict(p, phase=phase)
        key = repr(sorted(p.items()))
        if key not in seen:
            seen.add(key)
            out.append(p)


def run_session(m, inst, fault=None, record=False, reuse=None):
    """One observed session.  `reuse` = result of an earlier session of the same scenario:
    the follow-up load re-uses its SchemaLoader (schema call) or its schema object
    (configuration call with a fresh ConfigLoader)."""
    from ZConfig.loader import ConfigLoader, SchemaLoader
    armed_schema = m.family != "config"
    res = {"problems": [], "schema": None, "sl": None, "sdig": None, "cfg": None, "failed_in": None}
    seen = set()
    inst.begin(fault, record)
    inst.active = False
    if reuse is not None and reuse["schema"] is not None and m.config_path is not None:
        schema = reuse["schema"]
        res["sl"] = reuse["sl"]
        res["sdig"] = reuse["sdig"]
    else:
        if m.api and m.config_path is None:
            sl = SchemaFn()
        else:
            sl = reuse["sl"] if reuse is not None else SchemaLoader()
        res["sl"] = sl
        inst.active = armed_schema
        st, val = load_top(sl, m.schema_path, m.via if armed_schema else "url")
        if armed_schema:
            _probs(inst, "schema", seen, res["problems"])
        inst.active = False
        if st != "ok":
            res["failed_in"] = "schema"
            res["outcome"] = ("schema-raised", val)
            return res
        schema = val
        if armed_schema:
            res["sdig"] = schema_digest(schema)
    res["schema"] = schema
    if m.config_path is None:
        res["outcome"] = ("schema-ok", res["sdig"])
        return res
    if m.overrides is None:
        cl = ConfigLoader(schema)
    elif m.api == "ext":        # the loader object itself (what loadConfig builds), kept for a reload
        from ZConfig.cmdline import ExtendedConfigLoader
        cl = ExtendedConfigLoader(schema)
        for o in m.overrides:
            cl.addOption(o)
    else:
        cl = ConfigFn(schema, m.overrides)
    res["cl"] = cl
    inst.active = True
    st, val = load_top(cl, m.config_path, m.via if not armed_schema else "url")
    _probs(inst, "config", seen, res["problems"])
    inst.active = False
    if st == "ok":
        res["cfg"] = ("ok", tree(val[0]))
    else:
        res["failed_in"] = "config"
        res["cfg"] = ("raised", val)
    res["outcome"] = ("session", res["sdig"], res["cfg"])
    return res


VARIANTS = {"read": ("oserror", "custom"), "rawread": ("oserror", "custom"),
            "conv": ("valueerror", "custom"), "sect": ("valueerror", "custom")}


def variants(point, how):
    if point["kind"] == "open":
        return ("oserror", "urlerror") if how == "url" else ("oserror", "custom")
    return VARIANTS[point["kind"]]


def outcome_class(res):
    o = res["outcome"]
    if o[0] == "schema-raised":
        return "schema-call-raised:" + o[1][0]
    if o[0] == "schema-ok":
        return "schema-call-returned"
    return "config-call-returned" if o[2][0] == "ok" else "config-call-raised:" + o[2][1][0]


def report_problems(acc, spec, fault, res, when):
    for p in res["problems"]:
        tags = {"kind": p["kind"], "phase": p["phase"], "when": when}
        for k in ("via", "loader", "nested"):
            if k in p:
                tags[k] = p[k]
        acc.violation(p["kind"], {"spec": spec, "fault": fault}, p,
                      "every resource / URL stream closed when the call returns or raises", tags=tags,
                      size=_size(spec, fault))


def _size(spec, fault):
    n = size(tuple_tree(spec["schema"])) + (size(tuple_tree(spec["config"])) if spec["config"] else 0)
    return n * 1000 + (1 if spec.get("extra") else 0) * 500 + (len(repr(fault)) if fault else 0)


def check_scenario(spec, root, inst, acc, only_fault=None, verbose=False):
    """Recording run + one run per fault point.  Returns False if rejected as vacuous."""
    d = tempfile.mkdtemp(dir=root)
    sys.path.insert(0, d)
    try:
        m = materialize(spec, d)
        acc.current = {"spec": spec, "fault": None}
        rec = run_session(m, inst, None, record=True)
        points = list(inst.points)
        how = {op["o"]: op["how"] for op in inst.opens}
        nres = len(inst.resources)
        kinds = {p["kind"] for p in points}
        kinds = {"read" if k == "rawread" else k for k in kinds}
        # scenarios whose failure-free load ZConfig itself refuses half-way: an include cycle is refused as
        # soon as the second Resource (the file opened once more) exists, an override addressed to an
        # %import-ed section type when that section opens (top + component = 2 Resources at least); section
        # datatypes run when the enclosing section finishes, which a cycle in a first <sec> precedes
        refused = bool(spec.get("cyclic")) or (spec.get("ov") or [None])[0] == "imp"
        need = {"read", "open", "conv"} | ({"sect"} if spec["config"] and not spec.get("cyclic") else set())
        if nres < (2 if refused else 3) or not need <= kinds:
            acc.extra["scenarios_rejected_as_vacuous"] += 1
            return False
        acc.states += 1
        acc.extra["scenarios_" + spec["family"]] += 1
        acc.extra["scenarios_via_" + spec["via"]] += 1
        if spec.get("cyclic"):
            acc.extra["scenarios_with_back_edge"] += 1
            acc.cls("back-edge-failure-free:" + outcome_class(rec) + ":" + (
                "refused-as-cycle" if "includes itself" in str(rec["outcome"][2][1]) else "other"))
        elif spec.get("extra"):
            acc.extra["scenarios_with_extra_edge"] += 1
        if spec.get("api"):
            acc.extra["scenarios_entry_" + ("ExtendedConfigLoader.load" if spec["api"] == "ext" else
                                            "loadSchema" if spec["config"] is None else "loadConfig")
                      + ("File" if spec["via"] == "file" else "URL" if spec["api"] == "ext" else "")] += 1
            if spec.get("ov"):
                acc.extra["scenarios_overrides_" + spec["ov"][0]] += 1
                acc.cls("overrides-%s-failure-free:%s" % (spec["ov"][0], outcome_class(rec)))
        acc.extra["resources_seen"] += nres
        ff = rec["outcome"]
        acc.ev()
        acc.cls("failure-free:" + outcome_class(rec))
        report_problems(acc, spec, None, rec, "failure-free")
        again = run_session(m, inst, None, reuse=rec)
        report_problems(acc, spec, None, again, "failure-free-repeat")
        if again["outcome"] != ff:
            acc.violation("later-load-differs", {"spec": spec, "fault": None}, again["outcome"], ff,
                          tags={"kind": "later-load-differs", "family": spec["family"], "after": "failure-free"},
                          size=_size(spec, None))
        if spec.get("cyclic") and rec["failed_in"] == "config":
            same_loader_reload(m, inst, acc, spec, None, rec, ff, verbose)
        if verbose:
            print("  failure-free outcome:", outcome_class(rec), " points:", len(points), " resources:", nres)
            if m.overrides is not None:
                print("  overrides:", m.overrides)
        for p in points:
            first = True
            vs = variants(p, how.get(p["a"]))
            nv = spec.get("variants", 2)
            # scenarios that get both ordinary exception variants also get the one `except Exception` cannot see
            for exc in (vs[spec.get("vsel", 0):][:1] if nv == 1 else vs[:nv] + (("interrupt",) if nv >= 2 else ())
                        + (("garbage",) if p["kind"] == "rawread" else ())):
                fault = [p["kind"], p["a"], p["b"], exc]
                if only_fault is not None and fault != only_fault:
                    continue
                acc.current = {"spec": spec, "fault": fault}
                purge_packages()
                res = run_session(m, inst, fault)
                if not inst.fired:
                    raise core.HarnessError("C19: fault point %r of %r was not reached on re-execution"
                                            % (fault, spec))
                acc.ev()
                acc.transitions += 1
                acc.traces += 1
                acc.extra["fault_runs_" + p["kind"]] += 1
                if first:
                    acc.extra["points_" + p["kind"]] += 1
                    if p["depth"] >= 1:
                        acc.nt()
                        acc.extra["points_nested_" + p["kind"]] += 1
                    if p.get("window"):
                        acc.extra["points_between_open_and_first_read_" + p["kind"]] += 1
                    first = False
                oc = outcome_class(res)
                acc.cls("faulted:" + oc)
                acc.clause("closure+later-load after fault in " + p["kind"])
                report_problems(acc, spec, fault, res, "faulted")
                later = run_session(m, inst, None, reuse=res)
                report_problems(acc, spec, fault, later, "load-after-failed-load")
                if later["outcome"] != ff:
                    acc.violation("later-load-differs", {"spec": spec, "fault": fault},
                                  later["outcome"], ff,
                                  tags={"kind": "later-load-differs", "family": spec["family"],
                                        "after": "fault-in-" + p["kind"], "exc": exc,
                                        "failed_in": res["failed_in"]},
                                  size=_size(spec, fault))
                if spec.get("extra") is None and res["failed_in"] == "config" and spec.get("api") != "fn":
                    same_loader_reload(m, inst, acc, spec, fault, res, ff, verbose)
                if verbose:
                    print("  fault %r -> %s; problems=%d; later load %s" % (
                        fault, oc, len(res["problems"]),
                        "same as failure-free" if later["outcome"] == ff else "DIFFERS"))
                    for pr in res["problems"] + later["problems"]:
                        print("     problem:", pr)
                acc.sample(lambda: {"family": spec["family"], "schema": spec["schema"],
                                    "config": spec["config"], "extra": spec.get("extra"),
                                    "via": spec["via"], "fault": fault, "at": p["url"],
                                    "depth": p["depth"], "outcome": oc,
                                    "entry": spec.get("api"), "overrides": m.overrides,
                                    "back_edge": bool(spec.get("cyclic"))})
        return True
    finally:
        inst.end()
        inst.cleanup()
        try:
            sys.path.remove(d)
        except ValueError:
            pass
        sys.path_importer_cache.pop(d, None)
        purge_packages()
        shutil.rmtree(d, ignore_errors=True)


def same_loader_reload(m, inst, acc, spec, fault, res, ff, verbose):
    """Observation outside the outcome oracle (closure is still demanded): load again with the very
    ConfigLoader instance whose load failed.  A ConfigLoader keeps a private derived schema after
    the first %import; whether a failed load may leave it half-extended is not stated by the
    property, so a differing outcome is only counted."""
    inst.begin(None)
    inst.active = True
    st, val = load_top(res["cl"], m.config_path, m.via if m.family == "config" else "url")
    probs = {"problems": []}
    _probs(inst, "config", set(), probs["problems"])
    inst.active = False
    report_problems(acc, spec, fault, probs, "reload-with-the-failed-ConfigLoader")
    cfg = ("ok", tree(val[0])) if st == "ok" else ("raised", val)

    def has_package(t):
        return t[0] == "P" or any(has_package(c) for sl in t[1:] for c in sl)
    after = "fault-in-" + fault[0] if fault else "refused-include-cycle"
    if type(res["cl"]).__name__ == "ExtendedConfigLoader":
        acc.extra["reloads_with_failed_ExtendedConfigLoader"] += 1
    if not fault:
        acc.extra["reloads_with_refusing_ConfigLoader"] += 1
    if cfg == ff[2]:
        acc.extra["observed_reload_with_failed_ConfigLoader_same_outcome"] += 1
    elif not has_package(tuple_tree(spec["config"])):
        # no %import anywhere: the loader has no designed per-loader state (its private derived schema
        # only exists after an %import), so the failed load must have left nothing behind in it either
        acc.violation("later-load-differs", {"spec": spec, "fault": fault}, cfg, ff[2],
                      tags={"kind": "later-load-differs", "family": spec["family"],
                            "after": after, "loader": "same ConfigLoader instance (no %import)",
                            "class": type(res["cl"]).__name__},
                      size=_size(spec, fault))
    else:
        acc.extra["observed_reload_with_failed_ConfigLoader_differs_after_" + after.replace("-", "_")] += 1
        if verbose:
            print("  (observation) reload with the failed ConfigLoader instance differs:", cfg[0],
                  cfg[1] if cfg[0] == "raised" else "")


def shard_func(shard, acc):
    import ZConfig  # noqa: F401  (from core.REPO_SRC)
    root = tempfile.mkdtemp(prefix="vzc19-", dir="/dev/shm")
    inst = Inst()
    path0 = list(sys.path)
    try:
        inst.install()
        for spec in shard:
            check_scenario(spec, root, inst, acc)
    finally:
        inst.cleanup()
        inst.uninstall()
        sys.path[:] = path0
        purge_packages()
        shutil.rmtree(root, ignore_errors=True)
    return acc


WAVE2_BOUNDS = {
    "quick": {
        "override_sets": "every configuration tree of 3..4 files: loadConfig x {top-level key; top-level key + "
                         "unknown key}, loadConfigFile x {top-level key}, ExtendedConfigLoader.loadURL x {all "
                         "targets at once}; sessions (2+2 resources): loadConfig x {all}; 4-file trees: first "
                         "exception variant only except loadConfig x {top-level key}; loadSchema / "
                         "loadSchemaFile: 3-resource schema trees",
        "back_edges": "every configuration tree of 3..4 files x every (file, %include slot, ancestor-or-self) "
                      "edge; 3-file trees with every fault point in front of the refusal, 4-file trees: "
                      "failure-free run (the refusal itself), its repeat and the reload with the same loader only"},
    "thorough": {
        "override_sets": "configuration trees of 3..4 files: loadConfig x {none, top, all, unknown, unconsumed}, "
                         "loadConfigFile x {top, all}, ExtendedConfigLoader.loadURL x {top, all, unknown}, "
                         "loadConfig x {each single first-level / nested / imported-type section target} (4-file "
                         "trees: first exception variant only); trees of 5 files: ExtendedConfigLoader x {all} "
                         "(first variant only); all sessions: loadConfig x {top, all} (5 resources: first "
                         "variant only); loadSchema / loadSchemaFile: schema trees of 3..4 resources",
        "back_edges": "every configuration tree of 3..5 files x every (file, %include slot, ancestor-or-self) "
                      "edge; 3..4-file trees with every fault point in front of the refusal x 2 variants, 5-file "
                      "trees: failure-free run (the refusal itself), its repeat and the reload with the same "
                      "loader only"},
}


def run(tier):
    N = 4 if tier == "quick" else 5
    specs = scenarios(tier)
    run = core.Run(
        "C19", tier, "fault_enumeration",
        rule="every ordered include / %%import / extends / <import package> / <import src> tree of 3..%d "
             "resources (families: schema load, configuration load, schema-then-configuration session), each "
             "tree also with every acyclic extra reference edge and via loadFile; per scenario a recording run "
             "counts the fault points (open of resource j, read() of its URL stream, readline()/read() i of "
             "resource j, k-th datatype conversion, i-th section datatype call) and the scenario is re-run once "
             "per point and exception variant with exactly that point failing.  Non-trivial = fault point "
             "passed while a resource is open around it (nesting depth >= 1), counted once per (scenario, point); "
             "scenarios are distinct labelled graphs and shards partition them.  "
             "Wave 2, the window between the open of a resource and its first read: (a) entry point x "
             "command-line overrides - the trees are also loaded through ZConfig.loadSchema / loadSchemaFile / "
             "loadConfig / loadConfigFile and through a cmdline.ExtendedConfigLoader object (reloaded after a "
             "failed load), the configuration ones with an override set from the alphabet {none, top-level key, "
             "key of the first-level section of file j, key of the nested section of file j, key of an "
             "%%import-ed section type, all of these at once, unknown key, unconsumable path}; the top-level schema "
             "then has keytype=vzdt.keyt and datatype=vzdt.sect and sections are named, so the conversion of every "
             "override name (when the schema matcher is created: top resource open, nothing read; inside "
             "createChildMatcher while the file opening the section is open) and the replay of every override value "
             "are fault points; (b) back edges - every tree with every %%include edge from a configuration file to "
             "itself or an ancestor: the failure-free load is refused by ZConfig ('resource includes itself') after "
             "the file was opened once more and before its first line is read, and the fault points before it are "
             "enumerated as usual; the refused load is followed by a reload with the same ConfigLoader." % N,
        bounds={"max_resources": N, "min_resources": 3, "scenarios_generated": len(specs),
                "wave2_entry_points": ["ZConfig.loadSchema", "ZConfig.loadSchemaFile", "ZConfig.loadConfig",
                                       "ZConfig.loadConfigFile", "cmdline.ExtendedConfigLoader(schema).loadURL"],
                "wave2_override_sets": WAVE2_BOUNDS[tier]["override_sets"],
                "wave2_back_edges": WAVE2_BOUNDS[tier]["back_edges"],
                "wave2_scenarios": sum(1 for sp in specs if sp.get("api") or sp.get("cyclic")),
                "exception_variants": {"read/rawread": ["OSError", "InjectedFault(RuntimeError)"],
                                       "open": ["OSError", "URLError (URL) / InjectedFault (package)"],
                                       "conv/sect": ["ValueError", "InjectedFault(RuntimeError)"],
                                       "rawread, additionally": ["no exception: the read delivers bytes that are not "
                                                                 "valid UTF-8 (the failure happens while decoding)"],
                                       "every kind, where both variants above are used": [
                                           "InjectedInterrupt(BaseException) - not an Exception, like "
                                           "KeyboardInterrupt / SystemExit"]},
                "faults_per_run": 1,
                "quick_tier_reduction": "scenarios with 4 resources AND an extra edge get only the first "
                                        "exception variant per point" if tier == "quick" else None,
                "thorough_tier_reduction": None if tier == "quick" else
                "CPU bound of about 6000 CPU-seconds: scenarios with 5 resources AND an extra edge get one exception "
                "variant per point instead of two (the first and the second variant alternately from scenario to "
                "scenario; all scenarios with <= 4 resources and all 5-resource trees without an extra edge keep "
                "both); wave-2 axes on 5-resource graphs reduced as stated in wave2_*"})
    run.assumptions = [
        "files are real files under /dev/shm opened by the real urlopen / package loader; remote URL schemes "
        "are not exercised (the stream handling in openResource is scheme independent)",
        "the later load uses the same SchemaLoader (schema call) or the same schema object with a fresh "
        "ConfigLoader (configuration call; for the public functions: the same function call again); re-using a "
        "ConfigLoader / ExtendedConfigLoader whose load failed is judged only when the configuration has no "
        "%import (otherwise counted as an observation)",
        "schema-side reference cycles (extends / <import src> of an ancestor) are not generated: they end in "
        "RecursionError on the unchanged tree",
        "sys.modules entries of generated component packages are not ZConfig state and are purged",
    ]
    nshards = 128 if tier == "quick" else 512
    shards = [specs[i::nshards] for i in range(nshards)]
    shards = [s for s in shards if s]
    core.pmap(shard_func, shards, run.acc, shard_budget=600.0)
    x = run.acc.extra
    run.require(run.acc.states >= 1, "no scenario passed the vacuity guard")
    for fam in ("schema", "config", "session"):
        run.require(x.get("scenarios_" + fam, 0) > 0, "no scenario of family " + fam)
    for k in ("read", "rawread", "open", "conv", "sect"):
        run.require(x.get("points_nested_" + k, 0) > 0, "no nested fault point of kind " + k)
    run.require(x.get("scenarios_via_file", 0) > 0, "loadFile never used")
    run.require(x.get("scenarios_with_extra_edge", 0) > 0, "no diamond scenario")
    run.require(any(k.startswith("failure-free:config-call-returned") for k in run.acc.classes),
                "no configuration scenario loads successfully")
    run.require(any(k.startswith("failure-free:schema-call-returned") for k in run.acc.classes),
                "no schema scenario loads successfully")
    run.require(x.get("scenarios_rejected_as_vacuous", 0) == 0,
                "generator produced scenarios the vacuity guard rejects")
    # wave 2: the new axes were really exercised
    nconf = sum(len(trees("C", n)) for n in range(3, N + 1))
    run.require(x.get("points_between_open_and_first_read_conv", 0) >= 3 * nconf,
                "fewer than 3 conversion points per configuration tree between the open of a resource and its "
                "first read (override names converted when the schema matcher is created)")
    for k in ("loadSchema", "loadSchemaFile", "loadConfig", "loadConfigFile", "ExtendedConfigLoader.loadURL"):
        run.require(x.get("scenarios_entry_" + k, 0) >= 13, "entry point %s used by fewer than 13 scenarios" % k)
    for k in ("top", "all", "unknown") + (("none", "sec", "sub", "imp", "unconsumed") if tier != "quick" else ()):
        run.require(x.get("scenarios_overrides_" + k, 0) >= 13, "override set %r in fewer than 13 scenarios" % k)
    for k in ("top", "all"):
        run.require(run.acc.classes.get("overrides-%s-failure-free:config-call-returned" % k, 0)
                    == x.get("scenarios_overrides_" + k, -1),
                    "a load with the %r override set does not succeed in the failure-free run" % k)
    run.require(x.get("scenarios_with_back_edge", 0) >= 10 * nconf
                and run.acc.classes.get("back-edge-failure-free:config-call-raised:ConfigurationError:"
                                        "refused-as-cycle", 0) == x.get("scenarios_with_back_edge", -1),
                "back-edge scenarios missing or not all refused as an include cycle")
    run.require(x.get("reloads_with_failed_ExtendedConfigLoader", 0) > 0
                and x.get("reloads_with_refusing_ConfigLoader", 0) > 0,
                "no reload with a failed ExtendedConfigLoader / with a ConfigLoader that refused a cycle")
    return run


def replay(body):
    import ZConfig  # noqa: F401
    case = body["case"]
    spec = case["spec"]
    fault = case.get("fault")
    rc = 0
    for n in (1, 2):
        print("--- replay execution %d: scenario %s fault %s" % (n, core._short(spec, 400), fault))
        acc = core.Acc()
        root = tempfile.mkdtemp(prefix="vzc19-", dir="/dev/shm")
        inst = Inst()
        path0 = list(sys.path)
        try:
            inst.install()
            ok = check_scenario(spec, root, inst, acc, only_fault=fault if fault else [], verbose=True)
            if not ok:
                print("scenario rejected as vacuous")
        finally:
            inst.cleanup()
            inst.uninstall()
            sys.path[:] = path0
            purge_packages()
            shutil.rmtree(root, ignore_errors=True)
        for v in acc.violations.values():
            print("REPLAY violation:", v["kind"], "observed=", core._short(v["observed"], 300),
                  "expected=", core._short(v["expected"], 300))
        print("replayed: %d violation signature(s)" % len(acc.violations))
        if acc.violations:
            rc = 1
    return rc
