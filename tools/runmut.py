#!/usr/bin/env python3
"""runmut.py [--suite] [--tier T] PATCH PROP [PROP...]

Runs checks against a patched copy of the repository WITHOUT touching /repo:
makes a scratch git worktree of /repo HEAD under /dev/shm, applies PATCH (a path,
or a name under /verif/mutants, or /verif/seeded/<id>/patch.diff), optionally runs
the repository test suite there (--suite), then runs ./check PROP for each PROP with
VZ_SRC pointing at the worktree and VZ_OUT at a scratch directory (so /verif/evidence
is not overwritten), and removes the worktree.  Safe to run concurrently."""
import subprocess, sys, os, shutil, time
args = sys.argv[1:]
suite = False
tier = os.environ.get("VERIF_TIER", "quick")
while args and args[0].startswith("--"):
    if args[0] == "--suite":
        suite = True
        args = args[1:]
    elif args[0] == "--tier":
        tier = args[1]
        args = args[2:]
    else:
        raise SystemExit("unknown option " + args[0])
patch, props = args[0], args[1:]
cands = [patch, "/verif/mutants/%s.diff" % patch, "/verif/mutants/%s" % patch,
         "/verif/seeded/%s/patch.diff" % patch]
patch = next(p for p in cands if os.path.isfile(p))
label = patch.split('/')[-2] if patch.endswith('patch.diff') else os.path.basename(patch)
def sh(*a, **k):
    return subprocess.run(a, capture_output=True, text=True, stdin=subprocess.DEVNULL, **k)
wt = "/dev/shm/mutwt-%d" % os.getpid()
r = sh("git", "-C", "/repo", "worktree", "add", "--detach", wt, "HEAD")
assert r.returncode == 0, r.stderr
rc_all = 0
try:
    r = sh("git", "-C", wt, "apply", patch)
    assert r.returncode == 0, r.stderr
    if suite:
        env = dict(os.environ, PYTHONPATH=wt + "/src")
        r = sh("/venv/bin/python", "-m", "pytest", "-q", "-p", "no:cacheprovider", "--timeout=900",
               cwd=wt, env=env)
        tail = r.stdout.strip().splitlines()[-1] if r.stdout.strip() else r.stderr[-200:]
        failed = [l.split()[1] for l in r.stdout.splitlines() if l.startswith(("FAILED", "ERROR"))]
        # fails on the unchanged tree too when stdin is not a TTY (it then reads stdin as a config)
        failed = [f for f in failed if not f.endswith("test_validator.py::TestValidator::test_schema_only")]
        tail = ("SUITE-PASSES " if not failed else "SUITE-FAILS %s " % failed[:4]) + tail
        print("SUITE[%s]: rc=%d %s" % (label, r.returncode, tail))
    env = dict(os.environ, VZ_SRC=wt + "/src", VZ_OUT=wt + "/_out")
    env.pop("PYTHONPATH", None)
    for p in props:
        t = time.time()
        r = sh("/verif/check", p, "--tier", tier, cwd="/verif", env=env)
        lines = r.stdout.strip().splitlines()
        v = [l for l in lines if l.startswith("VIOLATION")]
        print("CHECK %s on %s: rc=%d violations=%d (%.0fs)" % (p, label, r.returncode, len(v), time.time() - t))
        for l in lines[:6]:
            print("   ", l[:300])
        if r.returncode not in (0, 1):
            print(r.stdout[-1500:], r.stderr[-1500:])
finally:
    sh("git", "-C", "/repo", "worktree", "remove", "--force", wt)
    shutil.rmtree(wt, ignore_errors=True)
    sh("git", "-C", "/repo", "worktree", "prune")
