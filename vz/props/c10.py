"""C10 - schema documents are accepted exactly when they obey the schema language rules.

Engine E3: base documents are rendered from the schema model (rule-satisfying by
construction: the generated family, the rich / C08 / C13 schemas, a composed
document with derived key types, and a component document imported by a schema);
they must load.  For every rule of the statement an edit operator produces a
rule-violating variant; it is applied at EVERY applicable site of every base
document (thorough: every pair of edits at distinct elements) and the edited
document must raise ZConfig.SchemaError from loadSchemaFile.  Rule-preserving edit
operators (applied at every site) must keep the document loadable.
"""
import copy
import io
import itertools
import os
import xml.etree.ElementTree as ET

from vz import core
from vz.gen import schema as M
from vz.harness import load as H
from vz.harness import pkgs
from vz.ref import schemadoc as R
from vz.ref import schemanames as N
from vz.ref import schemaprefix as PX

ITEM_TAGS = ("key", "multikey", "section", "multisection")
CONTAINER_TAGS = ("schema", "sectiontype")


def parents(root):
    return {c: p for p in root.iter() for c in p}


def elems(root):
    return list(root.iter())


# ---------------------------------------------------------------------------
# rule-violating operators: (rule id, applicable(elem, parent, root) -> bool, apply(elem, parent, root))

def _types(root):
    return [e for e in root if e.tag in ("sectiontype", "abstracttype")]


def _container_items(cont):
    return [e for e in cont if e.tag in ITEM_TAGS]


def _eff_attr(e):
    if e.get("attribute"):
        return e.get("attribute")
    n = e.get("name")
    if n and n not in ("*", "+"):
        return n.lower().replace("-", "_")
    return None


def op_dup_type(e, p, root):
    p.insert(list(p).index(e) + 1, copy.deepcopy(e))


def op_dup_item(e, p, root):
    p.insert(list(p).index(e) + 1, copy.deepcopy(e))


def op_rename_type_to_other(e, p, root):
    other = [t for t in _types(root) if t is not e][0]
    e.set("name", other.get("name").upper())


def op_same_attribute(e, p, root):
    other = [x for x in _container_items(p) if x is not e and _eff_attr(x)][0]
    e.set("attribute", _eff_attr(other))


def op_inherited_key_name(e, p, root):
    base = [t for t in _types(root) if t.get("name") == e.get("extends")][0]
    k = [x for x in base if x.tag in ("key", "multikey") and x.get("name") != "+"]
    k = copy.deepcopy(k[0])
    # the very same name: a duplicate under every key type
    if "attribute" in k.attrib:
        k.set("attribute", "fresh_attr")
    e.append(k)


def op_inherited_attribute_of(tag):
    """A derived type gets a new key whose attribute= equals the attribute of an item of kind `tag`
    inherited from its base (keys, multikeys, named and unnamed sections, multisections)."""
    def f(e, p, root):
        base = [t for t in _types(root) if t.get("name") == e.get("extends")][0]
        it = [x for x in _container_items(base) if x.tag == tag and _eff_attr(x)][0]
        new = ET.SubElement(e, "key")
        new.set("name", "freshname")
        new.set("attribute", _eff_attr(it))
    return f


def base_has(tag):
    def f(e, p, r):
        return is_type(e) and e.get("extends") and any(
            x.tag == tag and _eff_attr(x) for t in _types(r) if t.get("name") == e.get("extends")
            for x in _container_items(t))
    return f


def op_use_before_definition(e, p, root):
    # move the definition of the type this element refers to behind everything else
    ref = e.get("type") or e.get("extends") or e.get("implements")
    t = [x for x in _types(root) if x.get("name", "").lower() == ref.lower()][0]
    root.remove(t)
    root.append(t)


def set_attr(name, value):
    def f(e, p, root):
        e.set(name, value)
    return f


def del_attr(name):
    def f(e, p, root):
        del e.attrib[name]
    return f


def op_unkeyed_default(e, p, root):
    d = ET.SubElement(e, "default")
    d.text = "x"


def op_keyed_default(e, p, root):
    d = ET.SubElement(e, "default")
    d.set("key", "k")
    d.text = "x"


def op_colliding_defaults(e, p, root):
    for k in ("Dup", "dup"):
        d = ET.SubElement(e, "default")
        d.set("key", k)
        d.text = "x"


def op_nest_same(e, p, root):
    e.append(copy.deepcopy(e))


def op_unknown_child(e, p, root):
    ET.SubElement(e, "bogus")


def op_stray_text(e, p, root):
    e.text = (e.text or "") + "stray text"


def op_nested_schema(e, p, root):
    ET.SubElement(e, "schema")


def op_two_descriptions(e, p, root):
    for i in range(2):
        d = ET.Element("description")
        d.text = "d%d" % i
        e.insert(0, d)


def _base_has_case_colliding_defaults(e, root):
    base = [t for t in _types(root) if t.get("name") == e.get("extends")]
    if not base or (base[0].get("keytype") or "basic-key") == "basic-key":
        return False
    for k in base[0]:
        if k.tag == "key" and k.get("name") == "+":
            keys = [d.get("key") for d in k if d.tag == "default"]
            if len(set(x.lower() for x in keys)) < len(keys):
                return True
    return False


def is_type(e):
    return e.tag == "sectiontype"


def abstract_names(root):
    return [t.get("name") for t in root if t.tag == "abstracttype"]


def concrete_names(root):
    return [t.get("name") for t in root if t.tag == "sectiontype"]


def refers_to_earlier_type(e, p, root):
    ref = e.get("type") if e.tag in ("section", "multisection") else (e.get("extends") or e.get("implements")
                                                                       if e.tag == "sectiontype" else None)
    if not ref:
        return False
    ts = [x for x in _types(root) if x.get("name", "").lower() == ref.lower()]
    if not ts:
        return False
    # only meaningful when the reference is not already the last element of the document
    return list(root)[-1] is not ts[0] and (p is root or ts[0] is not p)


VIOLATING = [
    ("duplicate-type-name", lambda e, p, r: e.tag in ("sectiontype", "abstracttype") and p is r, op_dup_type),
    ("duplicate-type-name-other-kind", lambda e, p, r: e.tag in ("sectiontype", "abstracttype") and p is r and len(_types(r)) > 1,
     op_rename_type_to_other),
    ("duplicate-item", lambda e, p, r: e.tag in ITEM_TAGS, op_dup_item),
    ("duplicate-attribute", lambda e, p, r: e.tag in ITEM_TAGS and any(x is not e and _eff_attr(x) for x in _container_items(p)),
     op_same_attribute),
    ("duplicate-inherited-key-name",
     lambda e, p, r: is_type(e) and e.get("extends") and not e.get("keytype") and any(
         x.tag in ("key", "multikey") and x.get("name") != "+" for t in _types(r) if t.get("name") == e.get("extends") for x in t),
     op_inherited_key_name),
    ("duplicate-inherited-attribute-of-key", base_has("key"), op_inherited_attribute_of("key")),
    ("duplicate-inherited-attribute-of-multikey", base_has("multikey"), op_inherited_attribute_of("multikey")),
    ("duplicate-inherited-attribute-of-section", base_has("section"), op_inherited_attribute_of("section")),
    ("duplicate-inherited-attribute-of-multisection", base_has("multisection"),
     op_inherited_attribute_of("multisection")),
    ("type-used-before-definition", refers_to_earlier_type, op_use_before_definition),
    ("extends-abstract", lambda e, p, r: is_type(e) and abstract_names(r) and not e.get("extends"),
     lambda e, p, r: e.set("extends", abstract_names(r)[0])),
    ("extends-undefined", lambda e, p, r: is_type(e), set_attr("extends", "nosuchtype")),
    ("implements-concrete", lambda e, p, r: is_type(e) and [n for n in concrete_names(r) if n != e.get("name")] and
     list(r).index(e) > min(list(r).index(t) for t in r if t.tag == "sectiontype"),
     lambda e, p, r: e.set("implements", [t.get("name") for t in list(r)[:list(r).index(e)] if t.tag == "sectiontype"][0])),
    ("implements-undefined", lambda e, p, r: is_type(e), set_attr("implements", "nosuchtype")),
    ("star-as-key-name", lambda e, p, r: e.tag in ("key", "multikey"), set_attr("name", "*")),
    ("wildcard-key-without-attribute", lambda e, p, r: e.tag in ("key", "multikey") and e.get("name") == "+",
     del_attr("attribute")),
    ("wildcard-section-without-attribute", lambda e, p, r: e.tag in ("section", "multisection") and
     e.get("name") in ("*", "+") and e.get("attribute"), del_attr("attribute")),
    ("multisection-fixed-name", lambda e, p, r: e.tag == "multisection", set_attr("name", "fixedname")),
    ("default-on-required-key", lambda e, p, r: e.tag == "key" and e.get("required") == "yes" and e.get("name") != "+",
     set_attr("default", "x")),
    ("required-on-key-with-default", lambda e, p, r: e.tag == "key" and e.get("default") is not None,
     set_attr("required", "yes")),
    ("default-attribute-on-multikey", lambda e, p, r: e.tag == "multikey", set_attr("default", "x")),
    # wave 6: the default= attribute is an un-keyed default too
    ("default-attribute-on-wildcard-key", lambda e, p, r: e.tag == "key" and e.get("name") == "+" and
     e.get("default") is None, set_attr("default", "x")),
    ("unkeyed-default-on-wildcard", lambda e, p, r: e.tag in ("key", "multikey") and e.get("name") == "+", op_unkeyed_default),
    ("keyed-default-on-plain-multikey", lambda e, p, r: e.tag == "multikey" and e.get("name") != "+", op_keyed_default),
    ("colliding-wildcard-defaults", lambda e, p, r: e.tag == "key" and e.get("name") == "+" and
     (p.get("keytype") or "basic-key") == "basic-key" and not p.get("extends"), op_colliding_defaults),
    ("derived-keytype-makes-inherited-defaults-collide",
     lambda e, p, r: is_type(e) and e.get("extends") and _base_has_case_colliding_defaults(e, r),
     set_attr("keytype", "basic-key")),
    ("malformed-key-name", lambda e, p, r: e.tag in ("key", "multikey") and e.get("name") != "+" and
     (p.get("keytype") or "basic-key") == "basic-key" and not p.get("extends"), set_attr("name", "1bad")),
    ("empty-name", lambda e, p, r: e.tag in ("key", "multikey", "sectiontype", "abstracttype"), set_attr("name", "")),
    ("malformed-type-name", lambda e, p, r: e.tag in ("sectiontype", "abstracttype"), set_attr("name", "1bad")),
    ("malformed-attribute", lambda e, p, r: e.tag in ITEM_TAGS, set_attr("attribute", "1bad")),
    ("attribute-with-hyphen", lambda e, p, r: e.tag in ITEM_TAGS, set_attr("attribute", "a-b")),
    ("reserved-attribute-prefix", lambda e, p, r: e.tag in ITEM_TAGS, set_attr("attribute", "getSectionThing")),
    ("malformed-handler", lambda e, p, r: e.tag in ITEM_TAGS + ("schema",), set_attr("handler", "1bad")),
    ("required-not-yes-no", lambda e, p, r: e.tag in ITEM_TAGS, set_attr("required", "true")),
    ("required-upper-case", lambda e, p, r: e.tag in ITEM_TAGS, set_attr("required", "YES")),
    ("unknown-datatype", lambda e, p, r: e.tag in ("key", "multikey", "sectiontype", "schema"),
     set_attr("datatype", "nosuchdatatype")),
    ("unknown-keytype", lambda e, p, r: e.tag in ("sectiontype", "schema"), set_attr("keytype", "nosuchdatatype")),
    ("section-without-type", lambda e, p, r: e.tag in ("section", "multisection"), del_attr("type")),
    ("section-of-unknown-type", lambda e, p, r: e.tag in ("section", "multisection"), set_attr("type", "nosuchtype")),
    ("element-nested-in-itself", lambda e, p, r: e.tag in ITEM_TAGS + ("sectiontype", "abstracttype"), op_nest_same),
    ("unknown-element", lambda e, p, r: e.tag in ITEM_TAGS + CONTAINER_TAGS + ("abstracttype",), op_unknown_child),
    ("stray-text", lambda e, p, r: e.tag in ("section", "multisection", "abstracttype") + CONTAINER_TAGS or
     (e.tag in ("key", "multikey") and len(e) == 0), op_stray_text),
    ("nested-schema-element", lambda e, p, r: e.tag in CONTAINER_TAGS, op_nested_schema),
    ("malformed-prefix", lambda e, p, r: e.tag in CONTAINER_TAGS, set_attr("prefix", "1.bad")),
    ("relative-prefix-without-outer", lambda e, p, r: e.tag == "schema", set_attr("prefix", ".rel")),
]


def op_rename_fresh(e, p, root):
    e.set("name", "zfresh")


def op_add_description(e, p, root):
    d = ET.Element("description")
    d.text = "text < with & markup"
    e.insert(0, d)


def op_add_example_meta(e, p, root):
    for tag in ("example", "metadefault"):
        d = ET.Element(tag)
        d.text = "  some text  "
        e.insert(0, d)


PRESERVING = [
    ("rename-key-to-fresh-name", lambda e, p, r: e.tag in ("key", "multikey") and e.get("name") != "+", op_rename_fresh),
    ("fresh-attribute", lambda e, p, r: e.tag in ITEM_TAGS, set_attr("attribute", "zfresh_attr")),
    ("required-no", lambda e, p, r: e.tag in ITEM_TAGS and e.get("required") is None, set_attr("required", "no")),
    ("handler-added", lambda e, p, r: e.tag in ITEM_TAGS + ("schema",), set_attr("handler", "Some-Handler.1")),
    ("default-on-optional-key", lambda e, p, r: e.tag == "key" and e.get("name") != "+" and e.get("required") != "yes"
     and (e.get("datatype") in (None, "string")), set_attr("default", "")),
    ("description-added", lambda e, p, r: e.tag in ITEM_TAGS + ("sectiontype", "abstracttype", "schema"), op_add_description),
    ("example-metadefault-added", lambda e, p, r: e.tag in ITEM_TAGS, op_add_example_meta),
    ("explicit-null-datatype", lambda e, p, r: e.tag == "sectiontype" and not e.get("datatype") and not e.get("extends"),
     set_attr("datatype", "null")),
    ("upper-case-type-reference", lambda e, p, r: e.tag in ("section", "multisection"),
     lambda e, p, r: e.set("type", e.get("type").upper())),
    ("prefix-added", lambda e, p, r: e.tag in CONTAINER_TAGS, set_attr("prefix", "vz.harness")),
]


# ---------------------------------------------------------------------------

def base_documents(tier):
    docs = []
    env = M.type_env()
    for lab, items in M.selections(1, full=True):
        for pl in (0, 1, 2):
            S, _ = M.place(items, pl, env)
            docs.append(("+".join(lab) + "@%d" % pl, M.render(S)))
    sel2 = M.selections(2)
    for i, (lab, items) in enumerate(sel2):
        if len(items) == 2 and i % (9 if tier == "quick" else 2) == 0:
            S, _ = M.place(items, 1, env)
            docs.append(("+".join(lab) + "@1", M.render(S)))
    for name, S, _ in M.rich_schemas():
        docs.append((name, M.render(S)))
    from vz.props import c08, c13
    docs.append(("c08", M.render(c08.schema())))
    docs.append(("c13", M.render(c13.schema_model())))
    base = M.SType("idbase", (M.Key("+", attribute="opts", default=(("Da", "1"), ("da", "2"))), M.Key("Kx", attribute="kx_upper"), M.Key("kx")),
                   keytype="identifier")
    derived = M.SType("idderived", (M.Key("more"),), extends="idbase")
    other = M.SType("plain", (M.MultiKey("+", attribute="m", defaults=(("a", "1"), ("A", "2"))),), keytype="basic-key")
    comp = M.Schema(types=(M.AType("abs"), base, derived, other,
                           M.SType("impl", (M.Key("k", "integer", default="1"),), implements="abs", extends=None)),
                    items=(M.Sect("*", "idderived", attribute="ds", multi=True), M.Sect("n1", "abs"),
                           M.Key("top", required=True)), prefix="vz.harness", keytype="identifier")
    docs.append(("composed", M.render(comp)))
    # section types whose key type differs from the schema's, each with a single-valued wildcard key
    bk_in_id = M.SType("bkwild", (M.Key("+", attribute="opts", default=(("a", "1"), ("b", "2"))),), keytype="basic-key")
    id_in_bk = M.SType("idwild", (M.Key("+", attribute="opts", default=(("Da", "1"), ("da", "2"))),), keytype="identifier")
    docs.append(("keytypes-id-schema", M.render(M.Schema(types=(bk_in_id,), keytype="identifier",
                                                         items=(M.Sect("*", "bkwild", attribute="s"),)))))
    docs.append(("keytypes-bk-schema", M.render(M.Schema(types=(id_in_bk, bk_in_id),
                                                         items=(M.Sect("*", "idwild", attribute="s"),
                                                                M.Sect("*", "bkwild", attribute="t"))))))
    # a base type holding one item of every kind, a derived type and a second-level derived type
    allk = M.SType("allkinds", (M.Key("bk1"), M.MultiKey("bm1"), M.Key("+", attribute="bw"),
                                M.Sect("bn1", "l1"), M.Sect("*", "l1", attribute="bs"),
                                M.Sect("+", "l1", attribute="bms", multi=True)))
    d1 = M.SType("derived1", (M.Key("dk1"),), extends="allkinds")
    d2 = M.SType("derived2", (M.MultiKey("dm2"),), extends="derived1")
    docs.append(("derived-all-kinds", M.render(M.Schema(types=(M.SType("l1", (M.Key("lk"),)), allk, d1, d2),
                                                         items=(M.Sect("*", "derived2", attribute="ds", multi=True),)))))
    return docs


def observe(xml, loader=None):
    import ZConfig
    try:
        ZConfig.loadSchemaFile(io.StringIO(xml), "file:///v/schema.xml")
        return ("accepted",)
    except ZConfig.SchemaError as e:
        return ("schema-error", str(e)[:120])
    except ZConfig.ConfigurationError as e:
        return ("other-config-error", type(e).__name__, str(e)[:120])
    except Exception as e:
        return ("internal", core.exc_desc(e))


def site_depth(e, pm, root):
    d = 0
    while e is not root:
        e = pm[e]
        d += 1
    return d


def apply_at(xml, ops):
    """ops = [(operator tuple, element index)] applied in order on a fresh tree."""
    root = ET.fromstring(xml)
    es = elems(root)
    pm = parents(root)
    targets = [(op, es[i]) for op, i in ops]
    for op, e in targets:
        p = pm.get(e, root) if e is not root else root
        op[2](e, p, root)
    return ET.tostring(root, encoding="unicode")


def explore_doc(name, xml, acc, tier, wrap=None):
    """wrap(xml_of_edited_doc) -> the document to load (identity for schemas; for component
    documents it writes component.xml and returns the importing schema)."""
    wrap = wrap or (lambda x: x)
    o = observe(wrap(xml))
    acc.ev()
    acc.states += 1
    case0 = {"document": name, "xml": xml}
    if o[0] != "accepted":
        acc.violation("rule-abiding-document-refused", case0, o, "accepted", tags={"kind": "positive", "edit": "none"})
        return
    root = ET.fromstring(xml)
    es = elems(root)
    pm = parents(root)
    sites = []
    for i, e in enumerate(es):
        p = pm.get(e, root)
        for op in VIOLATING:
            try:
                ok = op[1](e, p, root)
            except (IndexError, ValueError, TypeError, AttributeError):
                ok = False
            if ok:
                sites.append((op, i))
    for op, i in sites:
        edited = apply_at(xml, [(op, i)])
        o = observe(wrap(edited))
        acc.ev()
        acc.transitions += 1
        deep = site_depth(es[i], pm, root) >= 2 or (es[i].tag == "sectiontype" and es[i].get("extends")) or wrap("") != ""
        if deep:
            acc.nt()
        acc.cls("violating:" + o[0])
        acc.clause(op[0])
        case = {"document": name, "xml": xml, "edit": op[0], "site": i, "site_tag": es[i].tag, "edited": edited}
        acc.sample(lambda: dict(case, outcome=o[0]))
        if o[0] != "schema-error":
            acc.violation("rule-violation-not-reported-as-schema-error", case, o, "ZConfig.SchemaError from loadSchemaFile",
                          tags={"kind": "negative", "edit": op[0], "outcome": o[0], "site_tag": es[i].tag})
    for i, e in enumerate(es):
        p = pm.get(e, root)
        for op in PRESERVING:
            try:
                ok = op[1](e, p, root)
            except (IndexError, ValueError, TypeError, AttributeError):
                ok = False
            if not ok:
                continue
            edited = apply_at(xml, [(op, i)])
            o = observe(wrap(edited))
            acc.ev()
            acc.transitions += 1
            acc.cls("preserving:" + o[0])
            if site_depth(e, pm, root) >= 2:
                acc.nt()
            case = {"document": name, "xml": xml, "edit": op[0], "site": i, "site_tag": e.tag, "edited": edited}
            if o[0] != "accepted":
                acc.violation("rule-abiding-document-refused", case, o, "accepted",
                              tags={"kind": "positive", "edit": op[0], "site_tag": e.tag})
    if tier != "quick":
        # pairs of violating edits at distinct elements
        npairs = len(sites) * (len(sites) - 1) // 2
        stride = max(1, npairs // PAIR_CAP)      # documents with many sites: every stride-th pair (stated in bounds)
        if stride > 1:
            acc.extra["documents_with_strided_pairs"] += 1
        for pi, ((op1, i), (op2, j)) in enumerate(itertools.combinations(sites, 2)):
            if pi % stride:
                continue
            if i == j or (op1[0], op2[0]) in PAIR_SKIP or _related(es, pm, i, j):
                continue
            try:
                edited = apply_at(xml, [(op1, i), (op2, j)])
            except (IndexError, ValueError):
                continue
            o = observe(wrap(edited))
            acc.ev()
            acc.transitions += 1
            acc.nt()
            acc.cls("violating-pair:" + o[0])
            if o[0] != "schema-error":
                acc.violation("rule-violation-not-reported-as-schema-error",
                              {"document": name, "xml": xml, "edit": [op1[0], op2[0]], "site": [i, j], "edited": edited},
                              o, "ZConfig.SchemaError from loadSchemaFile",
                              tags={"kind": "negative-pair", "edit": "%s+%s" % (op1[0], op2[0]), "outcome": o[0]})
    acc.traces = acc.transitions


PAIR_SKIP = set()
PAIR_CAP = 12000         # thorough tier: at most this many violating-edit pairs per base document


def _related(es, pm, i, j):
    """True if one site is an ancestor of the other (an edit may remove or move the other's site)."""
    a, b = es[i], es[j]
    x = b
    while x in pm:
        x = pm[x]
        if x is a:
            return True
    x = a
    while x in pm:
        x = pm[x]
        if x is b:
            return True
    return False


# ---------------------------------------------------------------------------
# wave 2, axis N: the complete parent x child matrix of the DTD vocabulary at every element, one and two levels
# deep (text-only elements included as parents), and axis T: text at every text position of every element.
# The verdict comes from the DTD content model transcribed in vz.ref.schemadoc, not from an operator.

LEAF = "zleaftype"


def make_child(tag, parent, inner_text=False):
    """A minimal instance of `tag` that breaks no OTHER rule wherever it ends up being registered (fresh names,
    explicit fresh attributes, a type defined at the top of the document)."""
    c = ET.Element(tag)
    if tag in ("key", "multikey"):
        c.set("name", "zfresh" + tag[0])
        c.set("attribute", "zfresh_attr_" + tag[0])
    elif tag == "section":
        c.set("name", "zfreshs")
        c.set("type", LEAF)
        c.set("attribute", "zfresh_attr_s")
    elif tag == "multisection":
        c.set("name", "*")
        c.set("type", LEAF)
        c.set("attribute", "zfresh_attr_ms")
    elif tag in ("sectiontype", "abstracttype"):
        c.set("name", "zfresh" + tag[0] + "type")
    elif tag == "import":
        c.set("package", "ZConfig.components.basic")
        c.set("file", "mapping.xml")
    elif tag == "default":
        if parent is not None and parent.get("name") == "+":
            c.set("key", "zfreshdk")
        c.text = "1"
    elif tag in R.TEXT_ONLY:
        c.text = "some text"
    if inner_text and tag not in R.TEXT_ONLY:
        c.text = "stray text"
    return c


def legal_child_judged(tag, e):
    """For a DTD-legal child `tag` of the EXISTING element e (of a rule-abiding document): 'accept' when the
    edited document still satisfies every rule, 'total' where the statement is silent."""
    if tag in ("description", "example", "metadefault"):
        return "total" if any(x.tag == tag for x in e) else "accept"      # cardinality is not nesting (DESIGN 8.3)
    if tag == "default":
        if e.get("required") == "yes" or e.get("default") is not None:
            return "total"
        if e.tag == "multikey" or e.get("name") == "+":
            return "accept"
        return "total"                                                   # <default> in a plain <key>: unspecified
    if tag == "import":
        return "total"
    return "accept"


def fresh_child_judged(tag2, tag1):
    """For a DTD-legal child tag2 of a freshly made tag1 element."""
    if tag2 == "default":
        return "accept" if tag1 == "multikey" else "total"
    if tag2 == "import":
        return "total"
    return "accept"


def nest_expect(e, chain, textmode):
    if textmode == "inner":
        return "reject", "stray-text-in-inserted-element"
    v1 = R.nesting(chain[0], e.tag)
    if len(chain) == 1:
        if v1 == "illegal":
            return "reject", "child-not-in-content-model"
        if v1 == "unspecified":
            return "total", "dtd-and-parser-table-disagree"
        j = legal_child_judged(chain[0], e)
        return j, ("legal-child" if j == "accept" else "legal-child-unjudged")
    v2 = R.nesting(chain[1], chain[0])
    if v1 == "illegal" or v2 == "illegal":
        return "reject", ("element-inside-text-only-element" if chain[0] in R.TEXT_ONLY else "child-not-in-content-model")
    if v1 == "unspecified" or v2 == "unspecified":
        return "total", "dtd-and-parser-table-disagree"
    if legal_child_judged(chain[0], e) != "accept" or fresh_child_judged(chain[1], chain[0]) != "accept":
        return "total", "legal-chain-unjudged"
    return "accept", "legal-chain"


def nest_doc(xml, site, chain, pos, textmode):
    root = ET.fromstring(xml)
    e = elems(root)[site]
    shift = 0
    if any(t in ("section", "multisection") for t in chain):
        t = ET.Element("sectiontype")
        t.set("name", LEAF)
        root.insert(0, t)
        shift = 1 if e is root else 0
    c1 = make_child(chain[0], e, textmode == "inner" and len(chain) == 1)
    if pos == "first":
        e.insert(shift, c1)
    else:
        e.append(c1)
    if len(chain) == 2:
        c2 = make_child(chain[1], c1, textmode == "inner")
        c1.append(c2)
        if textmode == "mixed":
            c1.text = "text before "
            c2.tail = " text after"
        elif chain[0] in R.TEXT_ONLY:
            c1.text = None
    return ET.tostring(root, encoding="unicode")


def nest_cases(root, tier):
    """(site index, chain, position, textmode) - the whole matrix at every element."""
    quick = tier == "quick"
    positions = ("last",) if quick else ("last", "first")
    for i, e in enumerate(elems(root)):
        poss = positions if len(e) else ("last",)
        for c in R.CHILD_TAGS:
            for pos in poss:
                yield i, (c,), pos, "none"
            if not quick and c not in R.TEXT_ONLY:
                yield i, (c,), "last", "inner"
        for c1 in R.CHILD_TAGS:
            if R.nesting(c1, e.tag) == "illegal":
                continue                     # refused at c1 already: the one-level case above
            for c2 in R.CHILD_TAGS:
                modes = ("none", "mixed") if c1 in R.TEXT_ONLY else ("none",)
                if not quick and c2 not in R.TEXT_ONLY:
                    modes += ("inner",)
                for pos in ((("first",) if c1 in R.TEXT_ONLY else ("last",)) if quick else poss):
                    for tm in modes:
                        yield i, (c1, c2), pos, tm


def judge_outcome(o, expect):
    """-> None if fine, else the violation kind."""
    if expect == "reject":
        return None if o[0] == "schema-error" else "rule-violation-not-reported-as-schema-error"
    if expect == "accept":
        return None if o[0] == "accepted" else "rule-abiding-document-refused"
    if expect == "refuse":
        return None if o[0] in ("schema-error", "other-config-error") else "rule-violation-not-refused-at-load-time"
    if expect == "unfound":
        if o[0] in ("schema-error", "other-config-error"):
            return None
        if o[0] == "internal" and o[1].get("class") in UNFOUND_EXCEPTIONS:
            return None
        return "document-naming-a-nonexistent-datatype-accepted" if o[0] == "accepted" else \
            "nonexistent-datatype-not-reported-as-schema-or-import-error"
    if expect == "total-at-load":
        return None if o[0] in ("accepted", "schema-error", "other-config-error") else "unspecified-region-not-total"
    return None if o[0] in ("accepted", "schema-error") else "unspecified-region-not-total"


VERDICT_EXPECT = {"accept": "accept", "reject": "reject", "unspecified": "total"}
# what the import of a dotted name that names nothing may raise (Registry.get: "an (unspecified) exception")
UNFOUND_EXCEPTIONS = ("ImportError", "ModuleNotFoundError", "AttributeError")
EXPECT_TEXT = {"unfound": "not accepted: ZConfig.SchemaError (or the exception of the failed import) from loadSchemaFile",
               "reject": "ZConfig.SchemaError from loadSchemaFile", "accept": "accepted",
               "total": "accepted or ZConfig.SchemaError",
               "refuse": "ZConfig.SchemaError (or another ConfigurationError) from loadSchemaFile",
               "total-at-load": "accepted, or ZConfig.SchemaError / another ConfigurationError from loadSchemaFile"}


def explore_nesting(name, xml, acc, tier, wrap=None):
    wrap = wrap or (lambda x: x)
    root = ET.fromstring(xml)
    es = elems(root)
    pm = parents(root)
    for i, chain, pos, tm in nest_cases(root, tier):
        e = es[i]
        expect, clause = nest_expect(e, chain, tm)
        edited = nest_doc(xml, i, chain, pos, tm)
        o = observe(wrap(edited))
        acc.ev()
        acc.transitions += 1
        if e is not root:
            acc.nt()
        acc.cls("nesting:%s:%s" % (expect, o[0]))
        acc.clause("nesting:" + clause)
        acc.extra["nesting_cell:%s>%s" % (e.tag if len(chain) == 1 else chain[0], chain[-1])] += 1
        case = {"document": name, "xml": xml, "edit": "insert " + ">".join(chain), "site": i, "site_tag": e.tag,
                "position": pos, "text": tm, "edited": edited, "expect": expect}
        acc.sample(lambda: dict(case, outcome=o[0]))
        bad = judge_outcome(o, expect)
        if bad:
            acc.violation(bad, case, o, EXPECT_TEXT[expect],
                          tags={"kind": bad, "axis": "nesting", "parent": e.tag, "chain": ">".join(chain),
                                "text": tm, "outcome": o[0]})
    acc.traces = acc.transitions


def explore_text(name, xml, acc, tier, wrap=None):
    """Axis T: text at every text position of every non-text element."""
    wrap = wrap or (lambda x: x)
    root = ET.fromstring(xml)
    es = elems(root)
    for i, e in enumerate(es):
        if e.tag in R.TEXT_ONLY:
            continue
        for k in range(len(e) + 1):
            if k == 0 and _old_stray_applies(e):
                continue                     # the 'stray-text' operator already puts text there
            r2 = ET.fromstring(xml)
            e2 = elems(r2)[i]
            if k == 0:
                e2.text = (e2.text or "") + "stray text"
            else:
                e2[k - 1].tail = (e2[k - 1].tail or "") + "stray text"
            edited = ET.tostring(r2, encoding="unicode")
            o = observe(wrap(edited))
            acc.ev()
            acc.transitions += 1
            if e is not root:
                acc.nt()
            acc.cls("text-position:reject:" + o[0])
            acc.clause("text-position:" + ("before-first-child" if k == 0 else
                                           "after-text-only-child" if e[k - 1].tag in R.TEXT_ONLY else "after-child"))
            if o[0] != "schema-error":
                case = {"document": name, "xml": xml, "edit": "text at position %d" % k, "site": i, "site_tag": e.tag,
                        "edited": edited, "expect": "reject"}
                acc.violation("rule-violation-not-reported-as-schema-error", case, o, EXPECT_TEXT["reject"],
                              tags={"kind": "negative", "axis": "text-position", "parent": e.tag,
                                    "after": "-" if k == 0 else e[k - 1].tag, "outcome": o[0]})
    acc.traces = acc.transitions


def _old_stray_applies(e):
    return e.tag in ("section", "multisection", "abstracttype") + CONTAINER_TAGS or (
        e.tag in ("key", "multikey") and len(e) == 0)


# ---------------------------------------------------------------------------
# wave 2, axis K: every container in the context of every other container of the SAME document (one parser).
# A document is a sequence of containers; each has its own key type and a short item list over a spelling
# alphabet on which the key types normalise differently.  The reference (vz.ref.schemadoc.judge_container)
# decides each container by itself; the document is acceptable iff every container is.

SPELLINGS = ("Host", "host", "h-x", "h_x")
ITEM_KINDS = ("key", "multikey", "section")
CTX_ITEMS = tuple((k, s, x) for k in ITEM_KINDS for s in SPELLINGS for x in (True, False))   # x: explicit attribute


def ctx_specs(maxlen, ordered):
    out = [()]
    for n in range(1, maxlen + 1):
        it = itertools.product(CTX_ITEMS, repeat=n) if ordered else itertools.combinations_with_replacement(CTX_ITEMS, n)
        out += list(it)
    return out


def ctx_ref_items(spec, letter):
    return [(k, s, ("x%s%d" % (letter, i)) if x else None) for i, (k, s, x) in enumerate(spec)]


def ctx_render_items(spec, letter, ind):
    out = []
    for i, (k, s, x) in enumerate(spec):
        a = ' attribute="x%s%d"' % (letter, i) if x else ""
        if k == "section":
            out.append('%s<section name="%s" type="zleaf"%s/>\n' % (ind, s, a))
        else:
            out.append('%s<%s name="%s"%s/>\n' % (ind, k, s, a))
    return "".join(out)


def _kt_attr(kt):
    return ' keytype="%s"' % kt if kt else ""


_RENDER_CACHE = {}
_JUDGE_CACHE = {}


def _render_cont(c):
    r = _RENDER_CACHE.get(c)
    if r is None:
        place, letter, kt, spec, ext = c
        if place == "top":
            r = ctx_render_items(spec, letter, "  ")
        else:
            r = '  <sectiontype name="c%s"%s%s>\n%s  </sectiontype>\n' % (
                letter, ' extends="c%s"' % ext if ext else "", _kt_attr(kt), ctx_render_items(spec, letter, "    "))
        if len(_RENDER_CACHE) > 200000:
            _RENDER_CACHE.clear()
        _RENDER_CACHE[c] = r
    return r


def ctx_document(conts, root_tag="schema", schema_attrs="", leaf=True):
    """conts: list of (place, letter, keytype rendering or None, spec, extends-letter or None); place in
    'type' / 'top'.  At most one 'top' container (its key type is the schema's)."""
    ks = None
    body = []
    for c in conts:
        if c[0] == "top":
            ks = c[2]
        body.append(_render_cont(c))
    return '<%s%s%s>\n%s%s</%s>\n' % (root_tag, _kt_attr(ks), schema_attrs,
                                     '  <sectiontype name="zleaf"/>\n' if leaf else "", "".join(body), root_tag)


def ctx_judge(conts):
    """Reference verdict of the document: (verdict, clause, per-container verdicts)."""
    done = {}
    verdicts = []
    for place, letter, kt, spec, ext in conts:
        items = ctx_ref_items(spec, letter) if ext else None
        if ext:
            bkt, bentries, bverdict = done[ext]
            eff = kt or bkt
            if bverdict != "accept":
                v = (bverdict, "base-type-" + bverdict, [])
            else:
                v = R.judge_container(eff, items, inherited=bentries, explicit_keytype=kt)
        else:
            eff = kt or "basic-key"
            ck = (eff, letter, spec)
            v = _JUDGE_CACHE.get(ck)
            if v is None:
                if len(_JUDGE_CACHE) > 200000:
                    _JUDGE_CACHE.clear()
                v = _JUDGE_CACHE[ck] = R.judge_container(eff, ctx_ref_items(spec, letter))
        done[letter] = (eff, v[2], v[0])
        verdicts.append(v)
    effs = [done[c[1]][0] for c in conts]
    for want in ("reject", "unspecified"):
        for v in verdicts:
            if v[0] == want:
                return want, v[1], verdicts, effs
    return "accept", verdicts[-1][1], verdicts, effs


def ctx_combos(tier):
    """(layout, [keytype renderings per container]) ; layout = tuple of (place, letter, extends)."""
    tt = (("type", "a", None), ("type", "b", None))
    te = (("type", "a", None), ("type", "b", "a"))
    t_top = (("type", "a", None), ("top", "b", None))
    top_t = (("top", "a", None), ("type", "b", None))
    if tier == "quick":
        kts = (None, "identifier")
        for lay, ordered in ((tt, True), (te, False), (t_top, False), (top_t, False)):
            for ka in kts:
                for kb in kts:
                    yield lay, (ka, kb), ordered, 1
    else:
        kts = (None, "basic-key", "identifier", R.LOWER_KEY)
        for lay in (tt, te, t_top, top_t):
            for ka in kts:
                for kb in kts:
                    yield lay, (ka, kb), True, 1
        ttt = (("type", "a", None), ("type", "m", None), ("type", "b", None))
        tte = (("type", "a", None), ("type", "m", None), ("type", "b", "a"))
        for lay in (ttt, tte):
            for ks in itertools.product((None, "identifier"), repeat=3):
                yield lay, ks, False, 1


def ctx_shards(tier):
    out = []
    nchunk = 5
    for lay, kts, ordered, _ in ctx_combos(tier):
        for ch in range(nchunk):
            out.append(("ctx", tier, lay, kts, ordered, ch, nchunk, "schema"))
    if tier != "quick":
        tt = (("type", "a", None), ("type", "b", None))
        for ka in (None, "identifier"):
            for kb in (None, "identifier"):
                for ch in range(nchunk):
                    out.append(("ctx", tier, tt, (ka, kb), True, ch, nchunk, "component"))
    return out


def explore_ctx(arg, acc):
    _, tier, lay, kts, ordered, ch, nchunk, root_tag = arg
    hist_specs = ctx_specs(1, True)
    b_specs = ctx_specs(2, ordered)[ch::nchunk]
    P = None
    load = observe
    try:
        if root_tag == "component":
            P = pkgs.Packages()
            real = P.add_component("ctx", [])
            path = os.path.join(P.dir, real, "component.xml")
            schema = '<schema>\n  <import package="%s"/>\n</schema>\n' % real

            def load(x):
                with open(path, "w") as f:
                    f.write(x)
                return observe(schema)
        _explore_ctx(acc, tier, lay, kts, hist_specs, b_specs, root_tag, load)
    finally:
        if P is not None:
            P.close()
    acc.traces = acc.transitions
    return acc


def _explore_ctx(acc, tier, lay, kts, hist_specs, b_specs, root_tag, load):
    nh = len(lay) - 1                                   # history containers before the one under test
    relation = "extends" if lay[-1][2] else "sibling"
    places = "+".join(p for p, _, _ in lay)
    alone = {}

    def cont(idx, spec):
        place, letter, ext = lay[idx]
        return (place, letter, kts[idx], spec, ext)

    def alone_outcome(idx, spec):
        """The implementation's own verdict on a document holding just this container."""
        k = (idx, spec)
        if k not in alone:
            conts = [cont(idx, spec)]
            xml = ctx_document(conts, root_tag)
            o = load(xml)
            acc.extra["ctx_single_container_loads"] += 1
            v, clause, _, _ = ctx_judge(conts)
            bad = judge_outcome(o, VERDICT_EXPECT[v])
            if bad:
                acc.violation(bad, {"document": "container-context", "xml": xml, "expect": VERDICT_EXPECT[v]}, o,
                              EXPECT_TEXT[VERDICT_EXPECT[v]],
                              tags={"kind": bad, "axis": "container-context", "relation": "alone", "places": conts[0][0],
                                    "clause": clause, "root": root_tag, "outcome": o[0]})
            alone[k] = (o[0], xml)
        return alone[k][0]

    for idx in range(len(lay)):
        if lay[idx][2] is None:
            for spec in (b_specs if idx == nh else hist_specs):
                alone_outcome(idx, spec)

    for hist in itertools.product(hist_specs, repeat=nh):
        for b in b_specs:
            conts = [cont(i, h) for i, h in enumerate(hist)] + [cont(nh, b)]
            xml = ctx_document(conts, root_tag)
            v, clause, per, effs = ctx_judge(conts)
            acc.current = xml
            o = load(xml)
            acc.ev()
            acc.transitions += 1
            if any(hist):
                acc.nt()
            expect = VERDICT_EXPECT[v]
            how = "reference"
            if v == "unspecified" and relation == "sibling":
                # differential: independent containers - the document is acceptable iff each one alone is
                singles = [alone_outcome(i, c[3]) for i, c in enumerate(conts)]
                if all(x in ("accepted", "schema-error") for x in singles):
                    expect = "accept" if all(x == "accepted" for x in singles) else "reject"
                    how = "differential"
            acc.cls("context:%s:%s" % (expect, o[0]))
            acc.clause("context:" + clause)
            # would the verdict on the LAST container change if it were judged under an earlier container's key type?
            if not lay[-1][2]:
                own = per[-1][0]
                items_b = ctx_ref_items(b, lay[-1][1])
                if any(e != effs[-1] and R.judge_container(e, items_b)[0] != own for e in effs[:-1]):
                    acc.extra["ctx_verdict_depends_on_whose_keytype:" + own] += 1
            case = {"document": "container-context", "xml": xml, "expect": expect, "decided_by": how,
                    "containers": [[c[0], c[2] or "default", c[4] or "-"] for c in conts], "root": root_tag}
            acc.sample(lambda: dict(case, outcome=o[0], clause=clause))
            bad = judge_outcome(o, expect)
            if bad:
                acc.violation(bad, case, o, EXPECT_TEXT[expect],
                              tags={"kind": bad, "axis": "container-context", "relation": relation, "places": places,
                                    "clause": clause, "root": root_tag, "outcome": o[0]})
    # every single-container document once more AFTER all the others were loaded in this process
    for (idx, spec), (first, xml) in sorted(alone.items(), key=lambda kv: kv[1][1]):
        o = load(xml)
        acc.extra["ctx_reloads_after_other_documents"] += 1
        if o[0] != first:
            acc.violation("verdict-changes-between-two-loads", {"document": "container-context", "xml": xml,
                                                               "expect": first}, o, first,
                          tags={"kind": "verdict-changes-between-two-loads", "axis": "container-context"})


# ---------------------------------------------------------------------------
# wave 3, axis S: the SPELLING of every name-bearing attribute.  For every slot of vz.ref.schemanames (element x
# attribute: names of keys / multikeys / sections / multisections with and without an explicit attribute, key= of a
# <default>, names of section types and abstract types, attribute, handler, required, datatype, keytype, type /
# extends / implements references, prefix), in every container position (the schema's own items, a section type, a
# derived section type that inherits its key type; thorough: also a component) and under every key type, the value
# runs over ALL strings up to a length over an alphabet that contains white space of every kind, plus a well-formed
# stem with every short string inserted at every position.  The verdict comes from the documented type of the
# attribute (anchored patterns), not from the implementation.

def spell_params(tier):
    if tier == "quick":
        return {"alphabet": N.ALPHABET_QUICK, "bare": 2, "ins": 1, "keytypes": (None, "identifier")}
    return {"alphabet": N.ALPHABET_THOROUGH, "bare": 3, "ins": 2,
            "keytypes": (None, "basic-key", "identifier", R.LOWER_KEY)}


def spell_shards(tier):
    P = spell_params(tier)
    out = []
    for slot, (_, _, _, kt_dependent) in N.SLOTS.items():
        places = ("top",) if slot in N.PLACELESS else N.PLACES
        for place in places:
            for kt in (P["keytypes"] if kt_dependent else (None,)):
                out.append(("spell", tier, slot, place, kt, "schema"))
                if tier != "quick" and place != "top":
                    out.append(("spell", tier, slot, place, kt, "component"))
    return out


def _position_class(v, i):
    return "first" if i == 0 else "last" if i == len(v) - 1 else "middle"


def explore_spelling(arg, acc):
    _, tier, slot, place, kt, root_tag = arg
    P = spell_params(tier)
    render, judge, stem, _ = N.SLOTS[slot]
    eff = kt or "basic-key"
    Pk = None
    load = observe
    try:
        if root_tag == "component":
            Pk = pkgs.Packages()
            real = Pk.add_component("spell", [])
            path = os.path.join(Pk.dir, real, "component.xml")
            schema = '<schema>\n  <import package="%s"/>\n</schema>\n' % real

            def load(x):
                with open(path, "w") as f:
                    f.write(x.replace("<schema", "<component", 1).replace("</schema>", "</component>"))
                return observe(schema)
        for v in N.slot_values(slot, P["alphabet"], P["bare"], P["ins"]):
            expect, clause = judge(v, eff)
            if expect is None:
                acc.extra["spell_not_generated:" + clause] += 1
                continue
            xml = render(v, kt, place)
            acc.current = xml
            o = load(xml)
            acc.ev()
            acc.transitions += 1
            if len(v) >= 2:
                acc.nt()
            acc.cls("spelling:%s:%s" % (expect, o[0]))
            acc.clause("spelling:" + clause)
            acc.extra["spell_slot:" + slot] += 1
            if expect in ("reject", "refuse"):
                # how far from an acceptable value?  (one character too many, and where)
                for i in range(len(v)):
                    if judge(v[:i] + v[i + 1:], eff)[0] == "accept":
                        acc.extra["spell_one_char_from_acceptable:" + _position_class(v, i)] += 1
                        if v[i] in N.WHITESPACE:
                            acc.extra["spell_acceptable_plus_whitespace:%s:%r" % (_position_class(v, i), v[i])] += 1
                        break
            case = {"document": "spelling", "xml": xml, "expect": expect, "slot": slot, "value": v, "place": place,
                    "keytype": eff, "root": root_tag}
            acc.sample(lambda: dict(case, outcome=o[0], clause=clause))
            bad = judge_outcome(o, expect)
            if bad:
                acc.violation(bad, case, o, EXPECT_TEXT[expect],
                              tags={"kind": bad, "axis": "spelling", "slot": slot, "place": place, "clause": clause,
                                    "root": root_tag, "outcome": o[0]})
    finally:
        if Pk is not None:
            Pk.close()
    acc.traces = acc.transitions
    return acc


# ---------------------------------------------------------------------------
# wave 3, axis X: the container context of axis K ACROSS FILES.  The earlier container(s) live in base schema
# file(s) named by <schema extends="...">: the base's own items (which the extending schema inherits), a section
# type of the base, one or two bases in both listing orders, a base that itself extends a base; every file's
# <schema> carries its own key type (absent / basic-key / identifier), and so does every section type.  The
# reference judges every container under ITS OWN effective key type: the extending schema's is its keytype= when
# present, else the bases' common one (docs: conflicting bases need an explicit keytype); inherited entries count.

XMAIN = "file:///v/schema.xml"
_MEMLOADER = []


def xurl(i):
    return "file:///v/base%d.xml" % i


def observe_files(files, main=XMAIN):
    """Load `main` through a SchemaLoader whose public openResource serves the file:///v/ URLs of `files`."""
    import ZConfig
    import ZConfig.loader
    if not _MEMLOADER:
        class MemSchemaLoader(ZConfig.loader.SchemaLoader):
            files = {}

            def openResource(self, url):
                url = str(url)
                if url in self.files:
                    return self.createResource(io.StringIO(self.files[url]), url)
                raise ZConfig.SchemaResourceError("no such resource", filename=url)
        _MEMLOADER.append(MemSchemaLoader)
    try:
        ld = _MEMLOADER[0]()
        ld.files = files
        ld.loadFile(io.StringIO(files[main]), main)
        return ("accepted",)
    except ZConfig.SchemaError as e:
        return ("schema-error", str(e)[:120])
    except ZConfig.ConfigurationError as e:
        return ("other-config-error", type(e).__name__, str(e)[:120])
    except ImportError as e:
        # (the traceback is not walked: axis P meets tens of thousands of expected failed imports)
        return ("internal", {"class": type(e).__name__, "msg": str(e)[:200], "where": "import"})
    except Exception as e:
        return ("internal", core.exc_desc(e))


def x_files(bases, main, listing, chain=False):
    """bases: list of container lists (base1, base2, ...); main: container list; listing: order of the base
    numbers in the extends attribute.  chain: base1 itself extends base2 (then listing is (1,))."""
    files = {}
    for i, conts in enumerate(bases, 1):
        ext = ' extends="base%d.xml"' % (i + 1) if chain and i < len(bases) else ""
        files[xurl(i)] = ctx_document(conts, schema_attrs=ext, leaf=(i == len(bases) if chain else i == 1))
    files[XMAIN] = ctx_document(main, schema_attrs=' extends="%s"' % " ".join("base%d.xml" % i for i in listing),
                                leaf=False)
    return files


def _top_of(conts):
    for i, c in enumerate(conts):
        if c[0] == "top":
            return i
    return None


def x_judge(bases, main, chain=False):
    """-> (verdict, clause, own verdict of the extending schema's top container, its effective key type,
    the bases' effective key types, its items, the merged inherited entries)."""
    worst = []

    def note(v, clause):
        worst.append((v, clause))

    def merge(merged, entries):
        names = {n: cls for cls, n, a in merged}
        attrs = {a for cls, n, a in merged}
        for cls, n, a in entries:
            if n in names:
                note(("reject", "duplicate-name-across-files") if names[n] == cls else
                     ("unspecified", "key-and-section-share-a-name"))
            if a in attrs:
                note("reject", "duplicate-attribute-across-files")
            names.setdefault(n, cls)
            attrs.add(a)
            merged.append((cls, n, a))

    def conflict_free(effs):
        return len(set(effs)) == 1

    def judge_file(conts, inherited, base_effs):
        """One file whose top container inherits `inherited` from files with key types `base_effs`."""
        ti = _top_of(conts)
        top_eff, top_entries, own = None, list(inherited), None
        for i, (place, letter, kt, spec, ext) in enumerate(conts):
            items = ctx_ref_items(spec, letter)
            if i != ti:
                v = R.judge_container(kt or "basic-key", items)
                if v[0] != "accept":
                    note(v[0], v[1])
                continue
            if kt:
                top_eff = kt
            elif not base_effs:
                top_eff = "basic-key"
            elif conflict_free(base_effs):
                top_eff = base_effs[0]
            else:
                note("reject", "conflicting-base-keytypes-and-no-own-keytype")
                top_eff = base_effs[0]
            v = R.judge_container(top_eff, items, inherited=inherited, explicit_keytype=kt if inherited else None)
            own = v
            if v[0] != "accept":
                note(v[0], v[1])
            top_entries = v[2]
        if ti is None:
            top_eff = base_effs[0] if base_effs and conflict_free(base_effs) else "basic-key"
        return top_eff, top_entries, own

    if chain:
        inherited, effs = [], []
        for conts in reversed(bases):
            eff, inherited, _ = judge_file(conts, inherited, effs)
            effs = [eff]
        base_effs = effs
    else:
        inherited, base_effs = [], []
        for conts in bases:
            eff, entries, _ = judge_file(conts, [], [])
            merge(inherited, entries)
            base_effs.append(eff)
    eff, _, own = judge_file(main, inherited, base_effs)
    ti = _top_of(main)
    items = ctx_ref_items(main[ti][3], main[ti][1]) if ti is not None else []
    for want in ("reject", "unspecified"):
        for v, clause in worst:
            if v == want:
                return want, clause, own, eff, base_effs, items, inherited
    return "accept", "every-container-acceptable-under-its-own-keytype", own, eff, base_effs, items, inherited


X_HIST5 = ((),) + tuple((("key", s, False),) for s in SPELLINGS)
X_HIST2 = X_HIST5[:2]


def x_layouts(tier):
    """(layout id, tuple of key type renderings) - what each rendering stands for is fixed by the layout."""
    quick = tier == "quick"
    two = (None, "identifier")
    own = (None, "basic-key", "identifier")
    if not quick:
        two = own = (None, "basic-key", "identifier", R.LOWER_KEY)
    for ks in two:
        for kb in own:
            yield "base-items>own-items", (ks, kb)
    for ka in two:
        for ks in two:
            for kb in own:
                yield "base-type>own-items", (ka, ks, kb)
    for ks in two:
        for kb in two:
            for ke in own:
                yield "base-items>own-type", (ks, kb, ke)
    for k1 in ((None, "identifier") if quick else (None, "basic-key", "identifier")):
        for k2 in ((None, "identifier") if quick else (None, "basic-key", "identifier")):
            for kb in ((None, "basic-key", "identifier")):
                for listing in ((1, 2), (2, 1)):
                    yield "two-bases>own-items", (k1, k2, kb, listing)
                yield "base-chain>own-items", (k1, k2, kb)


def x_shards(tier):
    nchunk = 3 if tier == "quick" else 6
    return [("xfile", tier, lay, kts, ch, nchunk) for lay, kts in x_layouts(tier) for ch in range(nchunk)]


def x_cases(lay, kts, hist25, hist5, hist2, b_specs):
    """-> (bases, main, listing, chain) for every history x every spec of the container under test."""
    if lay == "base-items>own-items":
        ks, kb = kts
        for h in hist25:
            for b in b_specs:
                yield [[("top", "a", ks, h, None)]], [("top", "b", kb, b, None)], (1,), False
    elif lay == "base-type>own-items":
        ka, ks, kb = kts
        for h in hist5:
            for b in b_specs:
                yield [[("type", "a", ka, h, None), ("top", "t", ks, (), None)]], [("top", "b", kb, b, None)], (1,), False
    elif lay == "base-items>own-type":
        ks, kb, ke = kts
        for h in hist5:
            for b in b_specs:
                yield [[("top", "a", ks, h, None)]], [("type", "b", kb, b, None), ("top", "t", ke, (), None)], (1,), False
    elif lay == "two-bases>own-items":
        k1, k2, kb, listing = kts
        for h in hist2:
            for b in b_specs:
                yield [[("top", "a", k1, h, None)], [("top", "m", k2, (), None)]], [("top", "b", kb, b, None)], listing, False
    elif lay == "base-chain>own-items":
        k1, k2, kb = kts
        for h in hist2:
            for b in b_specs:
                yield [[("top", "a", k1, (), None)], [("top", "m", k2, h, None)]], [("top", "b", kb, b, None)], (1,), True
    else:
        raise ValueError(lay)


def explore_xfile(arg, acc):
    _, tier, lay, kts, ch, nchunk = arg
    hist25 = ctx_specs(1, True)
    b_specs = ctx_specs(2, tier != "quick")[ch::nchunk]
    hist2 = X_HIST2 if tier == "quick" else X_HIST5
    for bases, main, listing, chain in x_cases(lay, kts, hist25, X_HIST5, hist2, b_specs):
        files = x_files(bases, main, listing, chain)
        v, clause, own, eff, base_effs, items, inherited = x_judge(bases, main, chain)
        acc.current = files
        o = observe_files(files)
        acc.ev()
        acc.transitions += 1
        acc.nt()
        expect = VERDICT_EXPECT[v]
        acc.cls("cross-file:%s:%s" % (expect, o[0]))
        acc.clause("cross-file:" + clause)
        acc.extra["xfile_layout:" + lay] += 1
        if own is not None and own[0] in ("accept", "reject"):
            # would the extending schema's own items be judged differently under a base's key type?
            if any(e != eff and R.judge_container(e, items, inherited=inherited)[0] != own[0] for e in base_effs):
                acc.extra["xfile_verdict_depends_on_whose_keytype:" + own[0]] += 1
        case = {"document": "cross-file", "files": files, "main": XMAIN, "expect": expect, "layout": lay,
                "keytypes": [k if isinstance(k, (str, type(None))) else list(k) for k in kts]}
        acc.sample(lambda: dict(case, outcome=o[0], clause=clause))
        bad = judge_outcome(o, expect)
        if bad:
            acc.violation(bad, case, o, EXPECT_TEXT[expect],
                          tags={"kind": bad, "axis": "cross-file", "layout": lay, "clause": clause, "outcome": o[0]})
    acc.traces = acc.transitions
    return acc


# ---------------------------------------------------------------------------
# wave 5, axis P: the RESOLUTION of dotted datatype / keytype names through the prefixes.  Until now every datatype
# name of the check had no dot (axis S: "dotted datatype names are not generated"), so which prefix a dot-relative
# name is resolved against - and whether a rule-abiding document using one is accepted at all - was outside C10.
# Here every datatype-bearing attribute (datatype / keytype of <schema>, of a section type, of a derived section type,
# of a later sibling type; datatype of a key / multikey in each of them and of the schema's own items that follow the
# types) carries every name of an alphabet of relative, absolute and stock names, in documents whose prefixes run over
# every combination of {none, absolute, relative} on the document element and on each of the three section types;
# the types live in the schema itself, in a component imported by a schema that has a prefix of its own, or in a base
# schema file that a schema with a prefix of its own extends.  The names refer to the package trees vz.harness.c10r /
# c10s in which every level publishes one name found at no other level: the reference (vz.ref.schemaprefix, from the
# documentation) knows under which effective prefix a name names something.

def px_params(tier):
    A, B, C, O, P_ = PX.A, PX.B, PX.C, PX.O, PX.P
    if tier == "quick":
        return {"p0": (None, A, B, O), "pI": (None, P_), "pt1": (None, ".inner", A, P_), "pd": (None, ".inner", O),
                "pt2": (None, ".inner"), "names": PX.NAMES_QUICK}
    return {"names": PX.NAMES, "p0": (None, A, B, O), "pI": (None, A, P_), "pt1": (None, ".inner", ".inner.inner", A, B, O, P_),
            "pd": (None, ".inner", A, O), "pt2": (None, ".inner", O)}


def px_descs(params, layout, p0, pI):
    for pt1 in params["pt1"]:
        for pd in params["pd"]:
            for pt2 in params["pt2"]:
                yield (layout, p0, pI, pt1, pd, pt2)


def px_shards(tier):
    out = []
    for mode in (("single",) if tier == "quick" else ("single", "pairs")):
        P = px_params(tier if mode == "single" else "quick")
        for layout in sorted(PX.LAYOUTS):
            for p0 in P["p0"]:
                for pI in ((None,) if layout == "schema" else P["pI"]):
                    out.append(("prefix", tier, mode, layout, p0, pI))
    return out


def px_self_check():
    """The reference's table of published names must be what the packages under vz/harness really publish."""
    import importlib
    for mod, names in PX.PUBLISHED.items():
        m = importlib.import_module(mod)
        pub = tuple(sorted(n for n in vars(m) if not n.startswith("_") and callable(getattr(m, n))))
        if pub != tuple(sorted(names)):
            raise core.HarnessError("vz.ref.schemaprefix.PUBLISHED[%r] = %r but the module publishes %r" % (mod, names, pub))
        sub = tuple(sorted(n for n in os.listdir(os.path.dirname(m.__file__))
                           if os.path.isdir(os.path.join(os.path.dirname(m.__file__), n)) and not n.startswith("_")))
        if sub != tuple(sorted(PX.SUBPACKAGES[mod])):
            raise core.HarnessError("sub-packages of %s: %r, reference says %r" % (mod, sub, PX.SUBPACKAGES[mod]))


def _px_one(acc, desc, effs, fill, slot_ids, mode):
    files = PX.render(desc, fill)
    expect, clause, per = PX.judge(desc, fill, effs)
    acc.current = files
    o = observe_files(files, PX.MAIN)
    acc.ev()
    acc.transitions += 1
    acc.cls("prefix:%s:%s" % (expect, o[0] if o[0] != "internal" else "raised-" + o[1].get("class", "?")))
    acc.clause("prefix:" + clause)
    depends = False
    for elem, attr, name, eff, e, _ in per:
        if not name.startswith("."):
            continue
        for other in PX.other_prefixes(desc, effs, elem):
            if (PX.judge_name(name, other)[0] == "accept") != (e == "accept"):
                depends = True
                acc.extra["prefix_verdict_depends_on_whose_prefix:" + ("accept" if e == "accept" else "refuse")] += 1
                break
        # the class of names written ON the element that carries the prefix= attribute (rather than below it)
        own = desc[PX.TYPE_PREFIX_VAR[elem]] if elem in PX.TYPE_PREFIX_VAR else None
        if own and attr in ("datatype", "keytype"):
            outer = effs[[f[2] for f in PX.LAYOUTS[desc[0]] if elem in f[5]][0]]
            if (PX.judge_name(name, outer)[0] == "accept") != (e == "accept"):
                acc.extra["prefix_name_on_the_prefix_bearing_element:%s:%s" % (
                    attr, "accept" if e == "accept" else "refuse")] += 1
    if depends:
        acc.nt()
    for sid in slot_ids:
        acc.extra["prefix_slot:" + sid] += 1
    case = {"document": "prefix-resolution", "files": files, "main": PX.MAIN, "expect": expect, "layout": desc[0],
            "prefixes": {"p0": desc[1], "pI": desc[2], "t1": desc[3], "d1": desc[4], "t2": desc[5]},
            "names": [[p[0], p[1], p[2], p[3], p[4]] for p in per]}
    acc.sample(lambda: dict(case, outcome=o[0], clause=clause))
    bad = judge_outcome(o, expect)
    if bad:
        acc.violation(bad, case, o, EXPECT_TEXT[expect],
                      tags={"kind": bad, "axis": "prefix-resolution", "layout": desc[0], "slot": "+".join(slot_ids),
                            "clause": clause, "outcome": o[0] if o[0] != "internal" else o[1].get("class")})


def explore_prefix(arg, acc):
    _, tier, mode, layout, p0, pI = arg
    P = px_params(tier if mode == "single" else "quick")
    sl = PX.slots(layout)
    for desc in px_descs(P, layout, p0, pI):
        effs = PX.site_prefixes(desc)
        if effs is None:
            acc.extra["prefix_not_generated:relative-prefix-where-no-prefix-is-set"] += 1
            continue
        if mode == "single":
            acc.states += 1
            _px_one(acc, desc, effs, {}, (), mode)               # no dotted name at all: must load
            for sid, elem, attr in sl:
                for name in P["names"]:
                    _px_one(acc, desc, effs, {(elem, attr): name}, (sid,), mode)
        else:
            for (s1, e1, a1), (s2, e2, a2) in itertools.combinations(sl, 2):
                for n1 in PX.PAIR_NAMES:
                    for n2 in PX.PAIR_NAMES:
                        _px_one(acc, desc, effs, {(e1, a1): n1, (e2, a2): n2}, (s1, s2), mode)
    acc.traces = acc.transitions
    return acc


def shard(arg, acc):
    kind = arg[0]
    if kind == "schema":
        _, name, xml, tier = arg
        explore_doc(name, xml, acc, tier)
    elif kind == "nest":
        _, name, xml, tier = arg
        explore_nesting(name, xml, acc, tier)
    elif kind == "text":
        _, name, xml, tier = arg
        explore_text(name, xml, acc, tier)
    elif kind == "ctx":
        explore_ctx(arg, acc)
    elif kind == "spell":
        explore_spelling(arg, acc)
    elif kind == "xfile":
        explore_xfile(arg, acc)
    elif kind == "prefix":
        explore_prefix(arg, acc)
    else:
        _, tier = arg
        P = pkgs.Packages()
        try:
            env = M.type_env()
            extra = M.SType("cwild", (M.Key("+", attribute="opts", default=(("Da", "1"),)), M.MultiKey("cm", "integer", defaults=("1",))))
            real = P.add_component("comp", list(env) + [extra])
            path = os.path.join(P.dir, real, "component.xml")
            comp_xml = open(path).read()
            schema = '<schema>\n  <import package="%s"/>\n  <multisection type="l1" name="*" attribute="ls"/>\n</schema>\n' % real

            def wrap(x):
                if x == "":
                    return "component"
                with open(path, "w") as f:
                    f.write(x)
                return schema
            # operators see a <component> root: treat it like <schema> for type-level edits
            explore_doc("component", comp_xml, acc, tier, wrap)
            explore_nesting("component", comp_xml, acc, tier, wrap)
            explore_text("component", comp_xml, acc, tier, wrap)
        finally:
            P.close()
    return acc


def nesting_documents(docs, tier):
    """Axis N/T runs on the hand-built documents (every element context occurs there) in the quick tier and on
    every base document in the thorough tier."""
    return [(n, x) for n, x in docs if tier != "quick" or ("@" not in n and n not in ("c08", "c13"))]


def text_documents(docs, tier):
    """Axis T runs on every base document in both tiers."""
    return list(docs)


def run(tier):
    docs = base_documents(tier)
    ndocs = nesting_documents(docs, tier)
    tdocs = text_documents(docs, tier)
    cshards = ctx_shards(tier)
    sshards = spell_shards(tier)
    xshards = x_shards(tier)
    pshards = px_shards(tier)
    px_self_check()
    PP = px_params(tier)
    SP = spell_params(tier)
    quick = tier == "quick"
    run = core.Run(
        "C10", tier, "model_checking",
        rule="(1) base documents (%d rendered schemas of the generated family, rich / C08 / C13 schemas, a composed document "
             "with derived key types and prefixes, and a component document imported by a schema) must load; %d "
             "rule-violating edit operators (one or more per rule of the statement) applied at every applicable "
             "element of every base document%s must raise ZConfig.SchemaError from loadSchemaFile; %d rule-preserving "
             "operators at every site must keep the document loadable.  "
             "(2) nesting matrix: at EVERY element of %d base documents (component included) every tag of the DTD "
             "vocabulary (+ schema, component, an unknown tag) is inserted as a child%s, and inside every child that "
             "is DTD-legal there again every tag%s; verdict from the DTD content model transcribed in vz.ref.schemadoc "
             "(illegal cell or element inside a text-only element => SchemaError; legal cell with fresh names => accepted; "
             "4 cells where DTD and the parser's published table disagree, cardinality and <default> in a plain key => only "
             "accepted-or-SchemaError).  (3) text at every text position (before the first child, after each child) of every "
             "non-text element of %d base documents => SchemaError.  "
             "(4) container context: documents holding %s containers in sequence (section types, a derived type "
             "after its base, the schema's own items before / after a type), each with its own key type out of %s, the "
             "earlier one(s) holding <= 1 and the last one <= 2 items (%s) out of {key, multikey, section} x spellings %s x "
             "{explicit, derived attribute}; the reference judges every container by itself under ITS key type (names "
             "unique after normalisation, attributes unique, names well formed, inherited entries included) and the "
             "document is accepted iff every container is; where the reference is silent (a key and a section sharing a "
             "name) the differential relation 'acceptable iff each container alone is acceptable' decides; every "
             "single-container document is loaded again after all the others.  "
             "(5) spelling: for each of %d slots (element x name-bearing attribute: name of key / multikey / section / "
             "multisection with and without an explicit attribute, key= of a <default>, name of sectiontype / abstracttype, "
             "attribute, handler, required, datatype, keytype, type / extends / implements references, prefix on schema / "
             "type / type inside a prefixed schema) in every container position (the schema's own items, a section type, a "
             "derived section type inheriting its key type%s) and, where the key type matters, under each key type of %s, the "
             "value runs over EVERY string of <= %d characters over %s and over a well-formed stem with every string of <= %d "
             "characters inserted at every position; white space is written as character references so that it reaches the "
             "parser; the verdict comes from the documented type of the attribute (basic-key, identifier, dotted-name, yes|no, "
             "documented stock datatype names) matched against the WHOLE value: malformed => SchemaError (a malformed key= of "
             "a <default>: any ConfigurationError at load time), well formed => accepted, non-ASCII identifiers / empty "
             "attribute= or prefix= / relative prefix on a type without outer prefix => accepted-or-SchemaError; dotted "
             "datatype names are not generated.  "
             "(6) cross-file context: the container context of (4) with the earlier container(s) in base schema file(s) named by "
             "<schema extends=...>: layouts %s; every <schema> and every section type has its own key type out of %s; base "
             "containers hold <= 1 item (any of the 24 for inherited items, a key in each spelling for a base's section type / "
             "the base of an extending section type%s), the container under test <= 2 (%s); the extending schema's own items are judged under "
             "its keytype= when present, else the bases' common key type (conflicting bases without an own keytype => "
             "SchemaError), with the bases' items as inherited entries.  "
             "(7) prefix resolution of dotted datatype names: documents made of a document element with prefix p0 holding a "
             "section type t1 (prefix pt1; a key and a multikey), a type d1 derived from t1 (prefix pd; a key), a later sibling "
             "type t2 (prefix pt2; a key) and, after the types, the schema's own key and multikey - in three layouts: all in one "
             "<schema>; the types in a <component> (prefix p0) imported by a schema with prefix pI; t1 and an own key in a "
             "base schema file (prefix p0) that a schema with prefix pI, holding d1 / t2 / the items, extends.  EVERY "
             "combination of p0 in %s, pI in %s, pt1 in %s, pd in %s, pt2 in %s (a relative prefix where none is set: not "
             "generated) x EVERY datatype-bearing attribute (datatype and keytype of each <schema> and of each of the "
             "three types - the element that carries prefix= itself -, datatype of every key / multikey: 14-17 slots per "
             "layout) x EVERY name of %s, one slot filled at a time%s; the names refer to the package trees "
             "vz.harness.c10r / c10s whose 5 levels each publish one name found at no other level (only_*) and one found at "
             "every level (conv).  Reference (vz.ref.schemaprefix, from docs/writing-schema.rst; its table of published names "
             "is compared with the packages before the run): a name is resolved against the EFFECTIVE prefix of the element "
             "it is written on (own prefix=, relative ones appended to the containing context's; else the containing "
             "context's; each file is a context of its own); resolves to a published name / stock name => accepted; relative "
             "name where no prefix is set => SchemaError; well-formed name that names nothing under the effective prefix => "
             "NOT accepted (SchemaError or the exception of the failed import, at load time); every document also without any "
             "dotted name => accepted.  "
             "states = base documents, transitions = documents loaded.  Non-trivial = edit site below schema top level "
             "(inside a section type, a derived type or the component) / a container preceded by a non-empty one / a spelled "
             "value of >= 2 characters / every cross-file document / a relative name whose verdict would be different under "
             "another effective prefix that is in play in the same document(s)."
             % (len(docs), len(VIOLATING), "" if quick else ", and every pair of violating edits at unrelated elements",
                len(PRESERVING), len(ndocs) + 1,
                " (last position)" if quick else " (first and last position, with and without stray text inside it)",
                " (one position; text-only children with and without surrounding text)" if quick
                else " (both positions, with / without surrounding text, with / without stray text inside)",
                len(tdocs) + 1,
                "two" if quick else "two or three",
                "{default basic-key, identifier}" if quick else
                "{default, explicit basic-key, identifier, a case-folding dotted-name key type}; also as a component",
                "ordered for two sibling types, unordered for a derived type and next to the schema's own items" if quick
                else "ordered",
                list(SPELLINGS),
                len(N.SLOTS), "" if quick else "; also inside a component imported by a schema",
                [k or "default" for k in SP["keytypes"]], SP["bare"], [c for c in SP["alphabet"]], SP["ins"],
                sorted(set(l for l, _ in x_layouts(tier))),
                "{absent, basic-key, identifier}" if quick else "{absent, basic-key, identifier, a case-folding dotted-name key type}",
                ", none or one key with two bases / a chain of bases" if quick else "", "unordered" if quick else "ordered",
                [x or "none" for x in PP["p0"]], [x or "none" for x in PP["pI"]], [x or "none" for x in PP["pt1"]],
                [x or "none" for x in PP["pd"]], [x or "none" for x in PP["pt2"]], list(PP["names"]),
                "" if quick else "; and, over the quick tier's prefix combinations, EVERY PAIR of slots filled at once with "
                "every pair of names of %s" % (list(PX.PAIR_NAMES),)),
        bounds={"documents": len(docs) + 1, "violating_pairs_per_document_cap": PAIR_CAP if tier != "quick" else 0, "violating_operators": [o[0] for o in VIOLATING],
                "preserving_operators": [o[0] for o in PRESERVING], "pairs": tier != "quick",
                "nesting_documents": [n for n, _ in ndocs] + ["component"] if quick else len(ndocs) + 1,
                "text_position_documents": len(tdocs) + 1, "nesting_child_tags": list(R.CHILD_TAGS), "nesting_depth": 2,
                "nesting_unspecified_cells": sorted("%s in %s" % c for c in R.UNSPEC_CELLS),
                "context_item_alphabet": len(CTX_ITEMS), "context_spellings": list(SPELLINGS),
                "context_layouts": sorted(set("%s/%s" % ("+".join(p for p, _, _ in lay), "extends" if lay[-1][2] else "sibling")
                                              for lay, _, _, _ in ctx_combos(tier))),
                "context_keytype_combinations": len(list(ctx_combos(tier))), "context_shards": len(cshards),
                "spelling_slots": sorted(N.SLOTS), "spelling_places": list(N.PLACES) + ([] if quick else ["component"]),
                "spelling_alphabet": [c for c in SP["alphabet"]], "spelling_max_length": SP["bare"],
                "spelling_stem_insertions_max_length": SP["ins"],
                "spelling_keytypes": [k or "default" for k in SP["keytypes"]], "spelling_shards": len(sshards),
                "cross_file_layouts": sorted(set(l for l, _ in x_layouts(tier))),
                "cross_file_keytype_combinations": len(list(x_layouts(tier))), "cross_file_shards": len(xshards),
                "prefix_layouts": sorted(PX.LAYOUTS), "prefix_slots": {l: [x[0] for x in PX.slots(l)] for l in sorted(PX.LAYOUTS)},
                "prefix_alphabets": {k: [x or "none" for x in v] for k, v in sorted(PP.items())},
                "prefix_published_names": {k: list(v) for k, v in sorted(PX.PUBLISHED.items())},
                "prefix_slots_filled_at_once": 1 if quick else 2, "prefix_pair_names": [] if quick else list(PX.PAIR_NAMES),
                "prefix_shards": len(pshards)},
        assumptions=["each violating operator breaks a rule of the statement by construction at the site it is applied to",
                     "not generated (unspecified): <default> elements inside a plain <key>, required with <default> "
                     "elements on multikey / wildcard, malformed XML, a second <description> (cardinality is not "
                     "'nesting'), well-formed dotted datatype names that cannot be imported (Registry.get documents an "
                     "unspecified exception)",
                     "the DTD content model (docs/schema.dtd) is the reference for nesting; order and cardinality of "
                     "children are not 'nesting'; metadefault in schema / section / multisection and import in "
                     "component are left open (DTD and parser table disagree, shipped components use the latter)",
                     "spelling axis: every pattern of the documentation is read as matching the whole value; whether "
                     "'identifier' admits non-ASCII Python identifiers is open (DESIGN C09); a malformed key= of a "
                     "<default> must be refused at load time but the error class is not asserted",
                     "prefix axis: a dotted name that is well formed but names nothing must not be accepted; the "
                     "class of the exception is not asserted beyond SchemaError / ConfigurationError / ImportError / "
                     "AttributeError (Registry.get: 'an (unspecified) exception'); a relative prefix= where no prefix is "
                     "set and names that resolve to a module are not generated; <import package='.rel'> is not part "
                     "of the statement's rules (C11 / C12)",
                     "a key and a section sharing one normalised name in a container: not decided by the statement "
                     "(checked differentially); a derived type changing the key type over inherited names that are not "
                     "fixed points of it: unspecified (DESIGN C11)"])
    shards = [("schema", n, x, tier) for n, x in docs] + [("component", tier)] + \
             [("nest", n, x, tier) for n, x in ndocs] + [("text", n, x, tier) for n, x in tdocs] + cshards + \
             xshards + sshards + pshards
    core.pmap(shard, shards, run.acc, shard_budget=3000.0)
    a = run.acc
    missing = [o[0] for o in VIOLATING if not a.clauses.get(o[0])]
    run.require(not missing, "operators never applied: %s" % missing)
    run.require(a.classes.get("preserving:accepted", 0) > 500, "few rule-preserving edits")
    # wave 2 guards: the new axes were really exercised
    run.require(a.clauses.get("nesting:element-inside-text-only-element", 0) > 5000,
                "nesting matrix: few elements inside text-only elements")
    run.require(a.classes.get("nesting:accept:accepted", 0) > 300, "nesting matrix: few legal cells accepted")
    cells = [k for k in a.extra if k.startswith("nesting_cell:")]
    run.require(len(cells) >= 13 * 14, "nesting matrix: only %d (parent, child) cells exercised" % len(cells))
    run.require(sum(v for k, v in a.clauses.items() if k.startswith("text-position:after")) > 1000,
                "text positions: few texts after a child element")
    run.require(a.extra.get("ctx_verdict_depends_on_whose_keytype:accept", 0) > 1000 and
                a.extra.get("ctx_verdict_depends_on_whose_keytype:reject", 0) > 1000,
                "container context: few documents whose last container would be judged differently under an earlier "
                "container's key type")
    run.require(a.classes.get("context:accept:accepted", 0) > 10000 and a.classes.get("context:reject:schema-error", 0) > 10000,
                "container context: few decided documents")
    run.require(a.extra.get("ctx_reloads_after_other_documents", 0) > 1000, "container context: few reloads")
    # wave 3 guards
    unused = [sl for sl in N.SLOTS if a.extra.get("spell_slot:" + sl, 0) < 100]
    run.require(not unused, "spelling: slots hardly exercised: %s" % unused)
    run.require(a.classes.get("spelling:accept:accepted", 0) > 1000 and a.classes.get("spelling:reject:schema-error", 0) > 10000,
                "spelling: few decided values")
    for pos in ("first", "middle", "last"):
        run.require(a.extra.get("spell_one_char_from_acceptable:" + pos, 0) > 300,
                    "spelling: few refused values that are one %s character away from an acceptable one" % pos)
        for c in ("\n", " ", "\t", "\r"):
            run.require(a.extra.get("spell_acceptable_plus_whitespace:%s:%r" % (pos, c), 0) > 30,
                        "spelling: few acceptable values with an extra %r as %s character" % (c, pos))
    run.require(a.extra.get("xfile_verdict_depends_on_whose_keytype:accept", 0) > 1000 and
                a.extra.get("xfile_verdict_depends_on_whose_keytype:reject", 0) > 1000,
                "cross-file context: few extending schemas whose own items would be judged differently under a base "
                "schema's key type")
    run.require(a.classes.get("cross-file:accept:accepted", 0) > 5000 and a.classes.get("cross-file:reject:schema-error", 0) > 5000,
                "cross-file context: few decided documents")
    run.require(a.clauses.get("cross-file:conflicting-base-keytypes-and-no-own-keytype", 0) > 100,
                "cross-file context: few conflicting base key types")
    # wave 5 guards: axis P (prefix resolution) was really exercised
    for l in sorted(PX.LAYOUTS):
        unused = [x[0] for x in PX.slots(l) if a.extra.get("prefix_slot:" + x[0], 0) < 500]
        run.require(not unused, "prefix resolution: slots hardly exercised in layout %s: %s" % (l, unused))
    run.require(a.classes.get("prefix:accept:accepted", 0) > 10000 and a.classes.get("prefix:reject:schema-error", 0) > 3000
                and sum(v for k, v in a.classes.items() if k.startswith("prefix:unfound:")) > 10000,
                "prefix resolution: few decided documents")
    run.require(a.extra.get("prefix_verdict_depends_on_whose_prefix:accept", 0) > 5000 and
                a.extra.get("prefix_verdict_depends_on_whose_prefix:refuse", 0) > 5000,
                "prefix resolution: few relative names whose verdict would be different under another prefix of the same "
                "document(s)")
    for attr in ("datatype", "keytype"):
        for v in ("accept", "refuse"):
            run.require(a.extra.get("prefix_name_on_the_prefix_bearing_element:%s:%s" % (attr, v), 0) > 400,
                        "prefix resolution: few %s names ON a section type with its own prefix= whose verdict (%s) would be "
                        "different under the enclosing prefix" % (attr, v))
    return run


def replay(body):
    case = body["case"]
    rc = 0
    for _ in range(2):
        if case.get("files"):
            for u in sorted(case["files"]):
                print("---", u)
                print(case["files"][u])
            o = observe_files(case["files"], case.get("main", XMAIN))
            doc = ""
        else:
            doc = case.get("edited") or case["xml"]
            o = observe(doc)
        print(doc)
        print("observed:", o, " expected:", body["expected"])
        exp = case.get("expect")
        if exp in ("accepted", "schema-error"):              # verdict-changes-between-two-loads
            if o[0] != exp:
                rc = 1
        elif exp:
            if judge_outcome(o, exp):
                rc = 1
        else:
            want_accept = body["kind"] == "rule-abiding-document-refused"
            if (o[0] == "accepted") != want_accept or (not want_accept and o[0] != "schema-error"):
                rc = 1
    if case.get("document") == "component" or case.get("root") == "component":
        print("(component documents are re-checked by ./check C10: they need the generated package)")
    return rc
