"""C09 - every stock datatype is a total function honouring its documented contract.

E1  for every name in ZConfig.datatypes.stock_datatypes: every string up to a per-type
    length bound over a per-type alphabet (one representative of every character class the
    type's code distinguishes, incl. a non-ASCII digit / letter), plus structured token
    spaces (dotted quads, IPv6 group lists, host x port, unit lists ...) that reach the long
    accepted strings the plain bound cannot; the datatype is obtained through
    ZConfig.datatypes.Registry().get(name).
    Oracle: vz.ref.dtypes - totality everywhere (value or ValueError; TypeError only for
    timedelta with an unknown unit), exact result on the documented domain, post-conditions on
    every returned value, idempotence for the key normalisers.
Sweep  every Unicode code point U+0000..U+10FFFF at one position of 1-3 contexts per type.
E5  the live pattern of the five RegularExpressionConversions against hand-written
    automata, all lengths (vz.engine.dfa).
H   call history ("a datatype is a FUNCTION of its input string"): every case of the E1, token
    and sweep spaces is converted in three history contexts - first (after all its enumeration
    predecessors), repeat (immediately after itself, after the caller has mutated the first
    result when that is mutable), reverse (a second pass over the whole shard in reverse order,
    through a converter obtained from another Registry under another spelling) - and must give
    the same outcome each time; every ordered pair of stock datatypes (A, B) x every string up
    to XLEN over either alphabet: A(s) then B(s), B judged by the reference (state shared between
    converters); every ordered pair of strings up to PLEN of one datatype: f(s1) then f(s2),
    both judged by the reference (state carried from one input to another).
"""
import itertools
import os
import shutil
import tempfile

from vz import core
from vz.engine import dfa
from vz.ref import dtypes as R

NAMES_ALPHA = "aAZ0-._!\n\xe9\xb7\u0661\u20ac"  # lower, the same letter in upper case (lossy-key collisions), upper digit - . _ other \n u-start u-cont u-nd u-other
INET_ALPHA = "[]:aA16- .\u0661"
SOCK_ALPHA = "[]:aA16- /\u0661"
NUM_ALPHA = "0356+-_ \u0661x."
FS_ALPHA = "fFdl/.~x"     # F: the name of file f in the other case (does not exist)

# name -> (alphabet, quick max length, thorough max length)
SPACES = {
    "boolean": ("yestruonfalxTOFE", 5, 6),
    "integer": (NUM_ALPHA, 5, 7),
    "port-number": (NUM_ALPHA, 6, 7),
    "float": ("01.eE-+infa_ \u0661", 5, 6),
    "string": ("a \xe9\n\x00", 4, 7),
    "null": ("a \xe9\n\x00", 4, 7),
    "string-list": ("ab \t\n\x1f\xa0\u2003", 5, 7),
    "locale": ("C.U-8_enx\x00", 3, 4),
    "basic-key": (NAMES_ALPHA, 5, 7),
    "identifier": (NAMES_ALPHA, 5, 7),
    "dotted-name": (NAMES_ALPHA, 5, 7),
    "dotted-suffix": (NAMES_ALPHA, 5, 7),
    "byte-size": ("01-+_kKmgbB \u0661\u212a", 5, 6),
    "time-interval": ("01-+_sSmhdD \u0661x", 5, 6),
    "inet-address": (INET_ALPHA, 5, 7),
    "inet-binding-address": (INET_ALPHA, 5, 6),
    "inet-connection-address": (INET_ALPHA, 5, 6),
    "socket-address": (SOCK_ALPHA, 5, 6),
    "socket-binding-address": (SOCK_ALPHA, 5, 6),
    "socket-connection-address": (SOCK_ALPHA, 5, 6),
    "ipaddr-or-hostname": ("01259afgAG_-.:!\u0661\xe9\n", 5, 6),
    "existing-directory": (FS_ALPHA, 5, 7),
    "existing-path": (FS_ALPHA, 5, 7),
    "existing-file": (FS_ALPHA, 5, 7),
    "existing-dirpath": (FS_ALPHA, 5, 7),
    "timedelta": ("09.e-wdsmhxW inf", 5, 6),
}

# thorough only: (name, alphabet, min length, max length) - longer strings over a smaller alphabet
DEEP = [
    ("ipaddr-or-hostname", "01af:.g", 7, 9),
    ("basic-key", "aZ0-.!", 8, 9),
    ("dotted-suffix", "a0._!", 8, 9),
    ("inet-address", "[]:a1", 8, 9),
    ("byte-size", "01kmgbB", 7, 8),
    ("timedelta", "09.ewx ", 7, 8),
]

# Unicode sweep contexts; quick uses the first QUICK_CTX[name] (default 1), thorough all
SWEEP = {
    "boolean": [("ye", ""), ("", "n")],
    "integer": [("1", ""), ("", "1")],
    "port-number": [("1", ""), ("", "1")],
    "float": [("1.", ""), ("", "1")],
    "string": [("a", "")],
    "null": [("a", "")],
    "string-list": [("a", "b")],
    "locale": [("C", "")],
    "basic-key": [("a", ""), ("", "a")],
    "identifier": [("a", ""), ("", "a")],
    "dotted-name": [("a.", ""), ("a", "")],
    "dotted-suffix": [(".", "a"), ("a", "")],
    "byte-size": [("1", "b"), ("1", "kb"), ("1k", "")],
    "time-interval": [("1", ""), ("", "s")],
    "inet-address": [("a:", ""), ("", ":80"), ("", "")],
    "inet-binding-address": [("a:", ""), ("", ":80")],
    "inet-connection-address": [("", ""), ("a:", "")],
    "socket-address": [("", ":80"), ("a:", "")],
    "socket-binding-address": [("a:", ""), ("", "")],
    "socket-connection-address": [("", ""), ("a:8", "")],
    "ipaddr-or-hostname": [("1.1.1.", ""), ("a", ""), ("1::", "")],
    "existing-directory": [("", ""), ("d/", "")],
    "existing-path": [("", ""), ("d/", "")],
    "existing-file": [("d/", ""), ("", "")],
    "existing-dirpath": [("", "/f"), ("d/", "")],
    "timedelta": [("1", ""), ("", "w")],
}
QUICK_CTX = {"ipaddr-or-hostname": 2}

E5_TYPES = ("basic-key", "identifier", "dotted-name", "dotted-suffix", "ipaddr-or-hostname")
E5_CONTEXTS = {
    "basic-key": [("", ""), ("a", "")],
    "identifier": [("", ""), ("a", "")],
    "dotted-name": [("", ""), ("a", ""), ("a.", "")],
    "dotted-suffix": [("", ""), ("a", ""), (".", "")],
    "ipaddr-or-hostname": [("", ""), ("a", ""), ("1.1.1.", ""), ("1:", "")],
}
FS_TYPES = ("existing-directory", "existing-path", "existing-file", "existing-dirpath")

# history axis: (quick, thorough) bounds
XLEN = (3, 4)        # cross-datatype: A(s) then B(s), all ordered pairs (A, B), s up to XLEN over alphabet(A) | alphabet(B)
XLEN_SYS = (2, 3)    # ... when A or B makes system calls per conversion (existing-*, locale)
SYSCALL_TYPES = FS_TYPES + ("locale",)
PLEN = (2, 2)        # same datatype: f(s1) then f(s2), all ordered pairs of strings up to PLEN over the full alphabet
PLEN_DEEP = 3        # thorough only: ... and up to PLEN_DEEP over the reduced alphabet PAIR_ALPHA
REPEATS = (1, 2)     # immediate repetitions of every case after its first conversion
PAIR_ALPHA = {
    "boolean": "onOfx", "integer": "05-+ ", "port-number": "65-+ ", "float": "1.e-n",
    "string": "a \xe9\n\x00", "null": "a \xe9\n\x00", "string-list": "ab \t\xa0", "locale": "C.U-8",
    "basic-key": "aA0-.", "identifier": "aA0_.", "dotted-name": "aA0_.", "dotted-suffix": "aA0_.",
    "byte-size": "1kKbm", "time-interval": "1sSmd",
    "inet-address": "[]:a1", "inet-binding-address": "[]:A1", "inet-connection-address": "[]:a1",
    "socket-address": "]:a1/", "socket-binding-address": "]:A1/", "socket-connection-address": "]:a1/",
    "ipaddr-or-hostname": "1aA:.", "existing-directory": "fFd/~", "existing-path": "fFd/~",
    "existing-file": "fFd/~", "existing-dirpath": "fFd/~", "timedelta": "1.wW ",
}
MUTATION_MARK = "\x00mutated-by-the-caller"


# ----------------------------------------------------------------------------
# structured token spaces

def _case_variants(w):
    out = [""]
    for c in w:
        out = [o + x for o in out for x in sorted({c.lower(), c.upper()})]
    return out


def tokens(name, tier):
    """Yield the strings of the structured spaces of one datatype (deterministic order,
    no duplicates within one datatype)."""
    seen = set()

    def emit(it):
        for s in it:
            if s not in seen:
                seen.add(s)
                yield s

    thorough = tier != "quick"
    if name == "ipaddr-or-hostname":
        f = ["", "0", "1", "9", "00", "01", "25", "99", "099", "100", "199", "200", "249", "250",
             "255", "256", "260", "300", "0255", "1a", "١", "a", "-1"]
        if thorough:
            f += ["3", "4", "6", "7", "8", "34", "67", "80", "248", "254", "2555", "1 ", "+1", "A"]
        yield from emit(".".join(t) for t in itertools.product(f, repeat=4))
        yield from emit(".".join(t) for n in (3, 5) for t in itertools.product(f[:8], repeat=n))
        g1 = ["", "1", "Ab", "12345"] + (["f00d", "0"] if thorough else [])
        g2 = ["", "f", "1.2.3.4", "g"] + (["01.2.3.4", "1.2.3", "fffff"] if thorough else [])
        for n in range(1, 10):
            yield from emit(":".join(t) for t in itertools.product(g1, repeat=n))
        for n in range(1, 9 if thorough else 8):
            yield from emit(":".join(t) for t in itertools.product(g2, repeat=n))
        hn = ["a", "A", "_", "z9", "-", ".", "..", "0", "g-", "é", "!"]
        yield from emit("".join(t) for n in (1, 2, 3, 4) for t in itertools.product(hn, repeat=n))
    elif name.startswith("inet-") or name.startswith("socket-"):
        hosts = ["", "a", "A.b", "Host.Example.COM", "[::1]", "[A::]", "::1", "2001::ABCD", "[", "]",
                 "[]", "[a]", "[[a]]", "1", "1.2.3.4", "a b", "É", "İ", "-", "99999",
                 "fe80::1", "[fe80::1"]
        if name.startswith("socket-"):
            hosts += ["/", "/tmp/s", "a/b", "/tmp/var/@345.4"]
        ports = ["", "0", "80", "080", "65535", "65536", "-1", "+1", "1_0", "١", "x", " 1",
                 "1 ", "99999", "8a", "0x50", "1.0"]
        for h in hosts:
            yield from emit([h])
            yield from emit(h + ":" + p for p in ports)
        yield from emit(str(n) for n in (0, 1, 1023, 1024, 65534, 65535, 65536, 65537, 100000))
    elif name == "boolean":
        alpha = "yestruonfalxTOFE\u212a\u017f \n"
        for w in R.BOOL_TRUE + R.BOOL_FALSE:
            for v in _case_variants(w):
                yield from emit([v])
            for i in range(len(w) + 1):
                for c in alpha:
                    yield from emit([w[:i] + c + w[i:]])
                    if i < len(w):
                        yield from emit([w[:i] + c + w[i + 1:]])
                if i < len(w):
                    yield from emit([w[:i] + w[i + 1:]])
        yield from emit(["0", "1", "y", "n", "t", "f", "True ", " on", "ja", "none"])
    elif name in ("integer", "port-number"):
        nums = [-2, -1, 0, 1, 2, 79, 80, 1023, 1024, 32767, 32768, 65533, 65534, 65535, 65536,
                65537, 99999, 100000, 2 ** 31, 2 ** 63, 2 ** 64, 10 ** 30]
        for n in nums:
            for fmt in ("%d", "+%d", "0%d", " %d", "%d ", "%d.", "%d.0", "%dL", "0x%d", "%de0", "%d_"):
                yield from emit([fmt % n])
        yield from emit(["6_5535", "65_535", "65535\n", "٦٥٥٣٥", "--1", "+-1", "-+1",
                         "1e3", "0b1", "0o7", "1 2"])
    elif name == "float":
        ms = ["0", "1", "-1", "+1", "1.5", ".5", "5.", "-.5", "0.1", "1e3", "1E3", "1e-3", "1e+3",
              "1.5e300", "1e308", "1.8e308", "1e309", "1e-320", "1e-400", "-0", "-0.0", "0.30000000000000004",
              "9007199254740993", "inf", "-inf", "Infinity", "nan", "NaN", "-nan", "1_0", "1_0.0_1",
              " 1", "1 ", "١.٥", "", ".", "e", "1e", "e1", "1e1.5", "1..2", "1.2.3", "0x1p3", "1f", "1d", "+-1",
              "--1", "1,5", "in", "infi", "nane", "1e 3", "1 e3"]
        yield from emit(ms)
    elif name in ("byte-size", "time-interval"):
        nums = ["", "0", "1", "12", "128", "-3", "+4", "007", "1_0", " 5", "5 ", "١", "1.5", "x", "-", "1e3"]
        if name == "byte-size":
            sufs = [v for w in ("kb", "mb", "gb", "tb", "b", "k") for v in _case_variants(w)]
            sufs += ["", "kbb", " kb", "k b", "kb ", "Kb", "kib", "bk"]
        else:
            sufs = [v for w in ("s", "m", "h", "d", "w", "ms") for v in _case_variants(w)]
            sufs += ["", " s", "s ", "ss", "sec", "ſ"]
        yield from emit(n + s for n in nums for s in sufs)
    elif name == "timedelta":
        parts = ["1w", "2d", "3h", "4m", "5s", "1.5d", "-1s", ".5h", "1e3s", "1x", "w", "1W", "infw",
                 "9e99w", "nand", "1", "s1", "1_0s", "١s", "0.00001s", "1e-7s", "999999999d",
                 "1000000000d", "-999999999d", "1e9d", "1y", "x", "1.s", "1..s"]
        for n in (1, 2, 3):
            if n == 3:
                parts = parts[:12]
            for sep in (" ", "  ", "\t") if n == 2 else (" ",):
                yield from emit(sep.join(t) for t in itertools.product(parts, repeat=n))
        yield from emit(["", " ", " 1w ", "4w 2d 7h 12m 0.00001s", "4w 2.5d 7h 12m 0.001s",
                         "1w2d", "1w,2d", "1 w"])
    elif name in ("basic-key", "identifier", "dotted-name", "dotted-suffix"):
        t = ["a", "Z", "_", "0", "a1", "_a", "a-b", "é", "a١", "", "if", "·"]
        for n in (1, 2, 3, 4):
            yield from emit(".".join(x) for x in itertools.product(t, repeat=n))
        yield from emit(["a\n", "a.b\n", ".a\n", "\na", "a b", " a", "a ", "Abc.DEF", "a" * 40 + ".b" * 40])
    elif name in ("string", "null", "string-list"):
        yield from emit(["", "a", " a  b\tc\n", "é  x", "a\x00b", "a\x1cb\x85c", "\ud800", "a" * 1000])
    elif name == "locale":
        yield from emit(["", "C", "POSIX", "C.UTF-8", "C.utf8", "en_US.UTF-8", "locale-does-not-exist",
                         "C\x00", "\ud800", "/", "../x", "a" * 300, "LC_ALL=C", "C;POSIX"])
    elif name.startswith("existing-"):
        comps = ["", ".", "..", "f", "d", "l", "x", "~", "~x", "~root"]
        for n in (1, 2, 3):
            yield from emit("/".join(t) for t in itertools.product(comps, repeat=n))
        yield from emit(["d/d/f", "d/d/x/", "f/", "f/x", "\x00", "d/\x00", "~/d/f", "~//f", "\ud800", "d//f"])


# ----------------------------------------------------------------------------
# observing and judging one case

def _norm(name, v):
    if name.startswith("socket-"):
        return (getattr(v, "family", "<no family>"), getattr(v, "address", "<no address>"))
    return v


def _equal(name, v, e):
    if type(e) is float:
        return type(v) is float and R.float_bits(v) == R.float_bits(e)
    if type(e) is bool or type(e) is int:
        return type(v) is type(e) and v == e
    return v == e


def _has_nonascii_digit(s):
    for c in s:
        if ord(c) > 127 and c.isdecimal():
            return True
    return False


def _asciify_digits(s):
    import unicodedata
    return "".join(str(unicodedata.decimal(c)) if ord(c) > 127 and c.isdecimal() else c for c in s)


def feature(name, s, kind, obs):
    """The specific failing feature: what known-finding signatures are matched on."""
    if type(obs) is tuple and obs and obs[0] == "exc":
        cls = obs[1]["class"]
        if name == "timedelta" and cls == "OverflowError" and R.td_out_of_range(s):
            return "number-out-of-timedelta-range"
        return "raises-" + cls
    if name == "ipaddr-or-hostname":
        if ":" in s:
            if kind == "wrongly-rejected" and s[0] in R.HEXLETTERS:
                return "ipv6-leading-hex-letter"
            return "ipv6"
        if kind == "wrongly-accepted" and _has_nonascii_digit(s) and \
                R.dotted_quad(_asciify_digits(s)) and s[:1].isdecimal():
            return "non-ascii-digit-ipv4"
        if s[:1].isdecimal():
            return "ipv4"
        return "hostname"
    if name.startswith("inet-") or name.startswith("socket-"):
        if "/" in s:
            return "unix-path"
        if "[" in s:
            return "bracketed"
        n = s.count(":")
        return "no-colon" if n == 0 else ("host-port" if n == 1 else "unbracketed-ipv6")
    return "general"


_VE = ("ValueError",)


def _same(a, b):
    """Two observations of one (datatype, string) are the same outcome."""
    if a is b:
        return True
    if a[0] != b[0]:
        return False
    if a[0] != "ok":
        return a == b
    x, y = a[1], b[1]
    t = type(x)
    if t is not type(y):
        return False
    if t is str:
        return x == y
    if t is float:
        return R.float_bits(x) == R.float_bits(y)
    return x == y and repr(x) == repr(y)     # repr: True vs 1, -0.0 vs 0.0 inside containers


def _mutate(v):
    """What a caller may do with a value it was handed: change it in place.  True if changed."""
    t = type(v)
    if t is str or t is tuple or t is int or t is bool or t is float:
        return False
    if t is list:
        v.append(MUTATION_MARK)
        v.reverse()
        return True
    d = getattr(v, "__dict__", None)
    if type(d) is dict and d:
        for k in list(d):
            d[k] = MUTATION_MARK
        return True
    return False


class Ctx:
    """One datatype inside one shard: the live conversion, its reference, local counters."""

    def __init__(self, name, acc, registry=None):
        import ZConfig.datatypes
        self.name = name
        self.acc = acc
        reg = registry or ZConfig.datatypes.Registry()
        self.f = reg.get(name)
        # the same datatype through another Registry and another spelling (reverse pass)
        self.f2 = ZConfig.datatypes.Registry().get(name.upper())
        if name not in R.REFERENCE:
            raise core.HarnessError("no reference conversion for stock datatype %r" % name)
        self.ref = R.REFERENCE[name]
        self.idem = name in R.IDEMPOTENT
        self.is_td = name == "timedelta"
        self.norm = name.startswith("socket-")
        self.cnt = {}        # (observed class, reference verdict, first character) -> cases
        self.engine = "E1"
        self.repeats = 1     # immediate repetitions after the first conversion (history axis)
        self.shard = None    # descriptor of the running shard (replay of reverse-pass reports)
        self.raw = None
        self.h_rep_ok = self.h_rep_rej = self.h_mut = 0
        self.h_rev_ok = self.h_rev_rej = 0

    def flush(self):
        acc, name = self.acc, self.name
        for (o, e, c), n in self.cnt.items():
            acc.cls("%s:%s" % (name, o if o != "exc" else "internal"), n)
            acc.clause("%s:%s" % (name, e), n)
            acc.extra["fc\t%s\t%s\tT" % (name, c)] += n
            if o == "ok" or e != "reject":
                acc.extra["fc\t%s\t%s\tL" % (name, c)] += 1
        self.cnt.clear()
        x = acc.extra
        x["hist_repeat_calls"] += self.h_rep_ok + self.h_rep_rej
        x["hist_reverse_calls"] += self.h_rev_ok + self.h_rev_rej
        x["hist_results_mutated_by_caller"] += self.h_mut
        x["hist_ok:%s" % name] += self.h_rep_ok + self.h_rev_ok
        x["hist_rejected:%s" % name] += self.h_rep_rej + self.h_rev_rej
        self.h_rep_ok = self.h_rep_rej = self.h_mut = self.h_rev_ok = self.h_rev_rej = 0

    def viol(self, kind, s, obs, exp, history=None):
        acc = self.acc
        case = {"datatype": self.name, "string": s, "engine": self.engine}
        tags = {"kind": kind, "datatype": self.name, "feature": feature(self.name, s, kind, obs)}
        if history is not None:
            case["history"] = history
            tags["history"] = history[0]
            if history[0] == "reverse":
                case["shard"] = self.shard
        acc.violation(kind, case, obs, exp, tags=tags, size=len(s) * 8 + len(self.name))

    def observe(self, s, f=None):
        """One call of the live datatype.  The raw returned object stays in self.raw."""
        try:
            v = (f or self.f)(s)
            self.raw = v
            if self.norm:
                v = _norm(self.name, v)
            elif type(v) is list:
                v = list(v)              # snapshot: the caller-mutation step changes the original
            return ("ok", v)
        except ValueError:
            return _VE
        except TypeError as e:
            return ("TypeError", str(e)[:80])
        except Exception as e:
            return ("exc", core.exc_desc(e))

    def check(self, s):
        """Run the live datatype on s, judge it, then repeat the call.  Returns (obs, exp)."""
        self.acc.current = (self.name, s)
        obs = self.observe(s)
        raw = self.raw
        exp = self.ref(s)
        if self.judge(s, obs, exp):
            return obs, exp
        # history axis, context "repeat": the same call again, immediately, after the caller has
        # changed the value it was handed in place (when it is mutable)
        ok = obs[0] == "ok"
        for i in range(self.repeats):
            if ok and _mutate(raw):
                self.h_mut += 1
            again = self.observe(s)
            raw = self.raw
            if ok:
                self.h_rep_ok += 1
            else:
                self.h_rep_rej += 1
            if again is not obs and not _same(again, obs):
                self.viol("history-dependent", s, {"first call": obs, "call %d" % (i + 2): again},
                          ("same outcome on every call; reference", exp), history=["repeat", i + 2])
                break
        return obs, exp

    def recheck(self, s, first):
        """History context "reverse": s again, late, through the other Registry's converter."""
        self.acc.current = (self.name, s, "reverse pass")
        again = self.observe(s, self.f2)
        if first[0] == "ok":
            self.h_rev_ok += 1
        else:
            self.h_rev_rej += 1
        if again is not first and not _same(again, first):
            self.viol("history-dependent", s, {"first call": first, "reverse pass": again},
                      ("same outcome on every call", "first call"), history=["reverse"])

    def judge(self, s, obs, exp, history=None):
        """Compare one observation with the reference verdict.  True if a violation was filed."""
        name = self.name
        ek = exp[0]
        ok = obs[0]
        key = (ok, ek, s[:1])
        cnt = self.cnt
        cnt[key] = cnt.get(key, 0) + 1
        # 1. totality
        if ok == "exc":
            self.viol("internal-error", s, obs, exp, history)
            return True
        if ok == "TypeError":
            allowed = self.is_td and (
                (ek == "reject" and len(exp) > 1) or (ek == "unspec" and R.td_unknown_unit(s)))
            if not allowed:
                self.viol("internal-error", s, ("exc", {"class": "TypeError", "msg": obs[1]}), exp,
                          history)
                return True
        # 2. exact result on the documented domain
        if ek == "ok":
            if ok != "ok":
                self.viol("wrongly-rejected", s, obs, exp, history)
                return True
            if not _equal(name, obs[1], exp[1]):
                self.viol("wrong-value", s, obs, exp, history)
                return True
        elif ek == "reject":
            if ok == "ok":
                self.viol("wrongly-accepted", s, obs, exp, history)
                return True
            want = exp[1] if len(exp) > 1 else "ValueError"
            if want != "either" and ok != want:
                self.viol("wrong-exception", s, obs, exp, history)
                return True
        # 3. post-conditions of any returned value, idempotence of key normalisers
        if ok == "ok":
            m = R.postcondition(name, s, obs[1])
            if m:
                self.viol("postcondition", s, obs, ("contract", m), history)
                return True
            if self.idem:
                try:
                    v2 = ("ok", self.f(obs[1]))
                except Exception as e:
                    v2 = ("exc", core.exc_desc(e))
                if v2 != ("ok", obs[1]):
                    self.viol("not-idempotent", s, (obs, "then", v2), "f(f(s)) == f(s)", history)
                    return True
        return False


# ----------------------------------------------------------------------------
# scratch file system for existing-*

class ScratchFS:
    """cwd and HOME point into a scratch tree: f (file), d/ d/f d/d/ (dirs, file),
    l (dangling symlink); x does not exist."""

    def __init__(self, root):
        self.root = root

    @staticmethod
    def create():
        root = tempfile.mkdtemp(prefix="c09-", dir="/dev/shm")
        os.makedirs(os.path.join(root, "d", "d"))
        for p in ("f", "d/f"):
            with open(os.path.join(root, p), "w") as fh:
                fh.write("x")
        os.symlink("nowhere", os.path.join(root, "l"))
        return ScratchFS(root)

    def __enter__(self):
        self.old_cwd = os.getcwd()
        self.old_home = os.environ.get("HOME")
        os.chdir(self.root)
        os.environ["HOME"] = self.root
        return self

    def __exit__(self, *a):
        os.chdir(self.old_cwd)
        if self.old_home is None:
            os.environ.pop("HOME", None)
        else:
            os.environ["HOME"] = self.old_home

    def remove(self):
        shutil.rmtree(self.root, ignore_errors=True)


class _NoFS:
    def __enter__(self):
        return self

    def __exit__(self, *a):
        pass


def _fs(name, root):
    return ScratchFS(root) if name in FS_TYPES else _NoFS()


# ----------------------------------------------------------------------------
# shards

def strings(alphabet, prefix, minlen, maxlen):
    lo = max(0, minlen - len(prefix))
    for L in range(lo, maxlen - len(prefix) + 1):
        if L == 0:
            yield prefix
        else:
            for t in itertools.product(alphabet, repeat=L):
                yield prefix + "".join(t)


def _descr(sh):
    """Shard descriptor without the scratch root (goes into replay files)."""
    return core.jsonable(list(sh[:-1]))


def _two_passes(ctx, cases, acc, sample, reverse=True):
    """History contexts first + repeat (ctx.check) for every case in enumeration order, then
    (reverse=True) context reverse: every case once more in reverse order."""
    firsts = []
    add = firsts.append if reverse else (lambda o: None)
    n = 0
    for s in cases:
        obs, exp = ctx.check(s)
        add(obs)
        n += 1
        if sample and n % sample == 0:
            acc.sample(lambda: {"datatype": ctx.name, "string": s, "observed": obs[:2],
                                "reference": exp, "history": "first, repeat, reverse"})
    i = n if reverse else 0
    recheck = ctx.recheck
    while i:
        i -= 1
        if firsts[i][0] != "exc":
            recheck(cases[i], firsts[i])
    return n


def fresh_datatypes():
    """Every shard starts from the state ZConfig.datatypes has right after import, so that what
    a shard observes depends on its own call history only (not on which shards the worker
    process happened to run before): the module is re-executed in place."""
    import importlib
    import ZConfig.datatypes
    importlib.reload(ZConfig.datatypes)


def shard(sh, acc):
    kind = sh[0]
    fresh_datatypes()
    if kind == "e1":
        _, name, alphabet, prefix, minlen, maxlen, reps, root = sh
        ctx = Ctx(name, acc)
        ctx.repeats, ctx.shard = reps, _descr(sh)
        with _fs(name, root):
            n = _two_passes(ctx, list(strings(alphabet, prefix, minlen, maxlen)), acc, 64)
        acc.ev(n)
        ctx.flush()
    elif kind == "tok":
        _, name, tier, reps, root = sh
        ctx = Ctx(name, acc)
        ctx.repeats, ctx.shard = reps, _descr(sh)
        with _fs(name, root):
            n = _two_passes(ctx, list(tokens(name, tier)), acc, 1)
        acc.ev(n)
        acc.extra["token_cases"] += n
        ctx.flush()
    elif kind == "sweep":
        _, name, contexts, lo, hi, reps, rev, root = sh
        ctx = Ctx(name, acc)
        ctx.repeats, ctx.shard = reps, _descr(sh)
        with _fs(name, root):
            n = _two_passes(ctx, [pre + chr(cp) + post for pre, post in contexts
                                  for cp in range(lo, hi)], acc, 0, rev)
        acc.ev(n)
        acc.extra["unicode_sweep_cases"] += n
        ctx.flush()
    elif kind == "cross":
        shard_cross(sh, acc)
    elif kind == "pairs":
        shard_pairs(sh, acc)
    elif kind == "e5":
        shard_e5(sh[1], acc)
    elif kind == "table":
        shard_table(acc)
    else:
        raise core.HarnessError("unknown shard kind %r" % (kind,))
    return acc


def _swallow(f, s):
    """A call whose own outcome is judged elsewhere: only what it leaves behind matters here."""
    try:
        f(s)
    except Exception:
        pass


def cross_strings(a, b, maxlen):
    """Every string up to maxlen over the alphabet of datatype a, then those over b's."""
    out = list(strings(SPACES[a][0], "", 0, maxlen))
    if SPACES[b][0] != SPACES[a][0]:
        seen = set(out)
        out += [s for s in strings(SPACES[b][0], "", 0, maxlen) if s not in seen]
    return out


def shard_cross(sh, acc):
    """History context "after another datatype": A(s) then B(s) on the same string; B(s) is
    judged by the reference (and repeated).  A's converter comes from a Registry of its own."""
    import ZConfig.datatypes
    _, a, b, maxlen, root = sh
    fa = ZConfig.datatypes.Registry().get(a)
    ctx = Ctx(b, acc)
    ctx.repeats = 0
    hist = ["after-other-datatype", a]
    n = 0
    with _fs(a, root) if a in FS_TYPES else _fs(b, root):
        for s in cross_strings(a, b, maxlen):
            acc.current = (a, "then", b, s)
            _swallow(fa, s)
            obs = ctx.observe(s)
            exp = ctx.ref(s)
            ctx.judge(s, obs, exp, hist)
            n += 1
            if n % 16 == 0:
                acc.sample(lambda: {"datatype": b, "string": s, "observed": obs[:2], "reference": exp,
                                    "history": "after %s(%r)" % (a, s)})
    acc.ev(n)
    acc.extra["hist_cross_cases"] += n
    acc.extra["hist_cross_ordered_pairs"] += 1
    ctx.flush()


def pair_strings(name, tier):
    """The string sets whose ordered pairs are enumerated for one datatype."""
    q = tier == "quick"
    sets = [list(strings(SPACES[name][0], "", 0, PLEN[0 if q else 1]))]
    if not q:
        sets.append(list(strings(PAIR_ALPHA[name], "", 0, PLEN_DEEP)))
    return sets


def shard_pairs(sh, acc):
    """History context "after a different input": f(s1) then f(s2) for every ordered pair of
    strings of the set (s1 == s2 included); both calls judged by the reference."""
    _, name, tier, which, root = sh
    ctx = Ctx(name, acc)
    ctx.repeats = 0
    S = pair_strings(name, tier)[which]
    n = 0
    prev = None          # the string converted immediately before the call being judged
    with _fs(name, root):
        exps = [ctx.ref(s) for s in S]
        for i, s1 in enumerate(S):
            e1 = exps[i]
            o2 = None
            for j, s2 in enumerate(S):
                acc.current = (name, prev, "then", s1, "then", s2)
                o1 = ctx.observe(s1)
                bad = ctx.judge(s1, o1, e1, ["after-different-input", prev])
                prev = s1
                if bad:
                    continue
                o2 = ctx.observe(s2)
                ctx.judge(s2, o2, exps[j], ["after-different-input", s1])
                prev = s2
                n += 1
            if o2 is not None:
                acc.sample(lambda: {"datatype": name, "string": s2, "observed": o2[:2],
                                    "reference": exps[j], "history": "after %s(%r)" % (name, s1)})
    acc.ev(2 * n)
    acc.extra["hist_pair_cases"] += n
    ctx.flush()


def shard_table(acc):
    """The stock table itself: names, Registry.get name normalisation."""
    import ZConfig.datatypes as D
    stock = set(D.stock_datatypes)
    ref = set(R.REFERENCE)
    for n in sorted(stock - ref):
        raise core.HarnessError("stock datatype %r has no reference conversion" % n)
    for n in sorted(ref - stock):
        acc.violation("registry-table", {"datatype": n, "string": "", "engine": "table"},
                      "missing from stock_datatypes", "present",
                      tags={"kind": "registry-table", "datatype": n, "feature": "missing"})
    reg = D.Registry()
    for n in sorted(stock & ref):
        acc.ev()
        for spelling in (n, n.upper(), n.title()):
            try:
                got = reg.get(spelling)
            except Exception as e:
                got = core.exc_desc(e)
            if got is not D.stock_datatypes[n]:
                acc.violation("registry-table", {"datatype": n, "string": spelling, "engine": "table"},
                              repr(got), "stock_datatypes[%r]" % n,
                              tags={"kind": "registry-table", "datatype": n, "feature": "get"})
    acc.extra["registry_names"] += len(stock)


def shard_e5(name, acc):
    import ZConfig.datatypes as D
    conv = D.Registry().get(name)
    if not isinstance(conv, D.RegularExpressionConversion):
        raise core.HarnessError("%s is no longer a RegularExpressionConversion" % name)
    rx = conv._rx
    lab = R.label_function(name)
    m = dfa.build(rx, lab)
    acc.extra["e5_selfcheck_strings"] += dfa.validate(m, rx, 3)
    acc.extra["e5_selfcheck_sweep"] += dfa.validate_sweep(m, rx, E5_CONTEXTS[name])
    ref = R.automaton(name)
    # the two forms of the reference (scanner for E1, automaton for E5) must agree
    reps = [c["rep"] for c in m.classes]
    for L in range(0, 4):
        for t in itertools.product(reps, repeat=L):
            s = "".join(t)
            av = R.automaton_verdict(name, s)
            ev = R.REFERENCE[name](s)[0]
            if av != R.UNS and {"accept": "ok", "reject": "reject"}[av] != ev and ev != "unspec":
                raise core.HarnessError("reference scanner and reference automaton of %s disagree "
                                        "on %r: %s vs %s" % (name, s, ev, av))
    res = dfa.product(m, ref)
    acc.states += res["states"]
    acc.transitions += res["transitions"]
    acc.extra["e5_products"] += 1
    acc.extra["e5_%s_classes" % name] = res["classes"]
    acc.extra["e5_%s_dfa_states" % name] = res["dfa_states"]
    acc.extra["e5_%s_product_states" % name] = res["states"]
    acc.extra["e5_pairs_compared"] += res["compared"]
    acc.extra["e5_pairs_unspecified"] += res["unspec"]
    # E1 alphabet must hold a representative of every class (digits of the IPv4 fields excepted:
    # those are covered by the token space and by the product itself)
    alpha = SPACES[name][0]
    covered = {m.class_of[ord(c)] for c in alpha}
    missing = [c for i, c in enumerate(m.classes) if i not in covered]
    for c in ([] if res["mismatches"] else missing):   # (a differing pattern is reported below)
        if not (name == "ipaddr-or-hostname" and c["label"][0] == "d" and len(c["label"]) == 2):
            raise core.HarnessError("E1 alphabet of %s has no member of class %r (e.g. %r)"
                                    % (name, c["label"], c["rep"]))
    acc.extra["e5_classes_without_e1_representative"] += len(missing)
    # every reachable pair with different acceptance: run the REAL call on its shortest witness
    ctx = Ctx(name, acc)
    ctx.engine = "E5"
    for mm in res["mismatches"]:
        s = mm["string"]
        before = acc.violations_total
        obs, exp = ctx.check(s)
        acc.traces += 1
        acc.ev()
        if exp[0] != "unspec" and {"accept": "ok", "reject": "reject"}[mm["reference"]] != exp[0]:
            raise core.HarnessError("reference scanner and automaton of %s disagree on %r" % (name, s))
        if acc.violations_total == before:
            # full-match language differs but the real call (prefix match + comparison) agrees
            # with the reference on the witness: recorded, not a violation of the statement
            acc.extra["e5_language_difference_not_visible_in_call"] += 1
    ctx.flush()


# ----------------------------------------------------------------------------

def plan(tier, root):
    quick = tier == "quick"
    shards = []
    reps = REPEATS[0 if quick else 1]

    def add_space(name, alphabet, minlen, maxlen):
        k = len(alphabet)
        p = 0
        while p < maxlen and k ** (maxlen - p) > 300000:
            p += 1
        if p == 0:
            shards.append((sum(k ** i for i in range(minlen, maxlen + 1)),
                           ("e1", name, alphabet, "", minlen, maxlen, reps, root)))
            return
        if minlen < p:
            shards.append((sum(k ** i for i in range(minlen, p)),
                           ("e1", name, alphabet, "", minlen, p - 1, reps, root)))
        for t in itertools.product(alphabet, repeat=p):
            shards.append((k ** (maxlen - p) * 1.2,
                           ("e1", name, alphabet, "".join(t), max(minlen, p), maxlen, reps, root)))

    for name in sorted(SPACES):
        alphabet, ql, tl = SPACES[name]
        add_space(name, alphabet, 0, ql if quick else tl)
        shards.append((50000, ("tok", name, tier, reps, root)))
        ctxs = SWEEP[name]
        ctxs = ctxs[:QUICK_CTX.get(name, 1)] if quick else ctxs
        step = 0x110000 // 8
        for lo in range(0, 0x110000, step):
            slow = name in SYSCALL_TYPES      # (thorough: one repeat, no reverse pass for these)
            shards.append((step * len(ctxs) * (4 if name == "locale" else 1),
                           ("sweep", name, ctxs, lo, min(lo + step, 0x110000),
                            0 if quick else (1 if slow else reps), not quick and not slow, root)))
    if not quick:
        for name, alphabet, lo, hi in DEEP:
            add_space(name, alphabet, lo, hi)
    # history axis: state shared between converters, state carried between inputs
    for a in sorted(SPACES):
        for b in sorted(SPACES):
            if a != b:
                slow = a in SYSCALL_TYPES or b in SYSCALL_TYPES
                xlen = (XLEN_SYS if slow else XLEN)[0 if quick else 1]
                w = len(SPACES[a][0]) ** xlen + len(SPACES[b][0]) ** xlen
                shards.append((w * (4 if slow else 1), ("cross", a, b, xlen, root)))
    for name in sorted(SPACES):
        for which, S in enumerate(pair_strings(name, tier)):
            shards.append((len(S) ** 2 * (4 if name in FS_TYPES else 1),
                           ("pairs", name, tier, which, root)))
    for name in E5_TYPES:
        shards.append((600000, ("e5", name)))
    shards.append((1, ("table",)))
    shards.sort(key=lambda x: -x[0])
    return [s for _, s in shards]


def run(tier):
    import ZConfig.datatypes as D
    quick = tier == "quick"
    run = core.Run(
        "C09", tier, "exploration",
        rule="for every stock datatype: every string up to the per-type length over the per-type "
             "alphabet (bounds.spaces), the structured token spaces, and every Unicode code point in "
             "the per-type contexts; each evaluated through Registry().get(name) and compared with "
             "vz.ref.dtypes. Non-trivial = a string the datatype does not reject for its first "
             "character alone, i.e. a case whose first character also starts some accepted or "
             "unspecified case of the same datatype in this run (shards partition the space; the "
             "count is of distinct (history context, datatype, string) cases: one judged call each). "
             "states/transitions = E5 products. "
             "History axis (a datatype is a function of its input alone): every case above is "
             "converted first (after all enumeration predecessors of its shard); every case of the "
             "plain and token spaces (thorough: also of the sweep - bounds.history.repeat_and_reverse_on) "
             "again immediately (bounds.history.immediate_repeats times; a mutable first result - list, "
             "object attributes - is changed in place by the caller before), and once more in a reverse-order "
             "second pass over the shard through Registry().get(NAME upper-cased) of another "
             "Registry; all outcomes must be identical (type-strict, NaN-safe) - counters "
             "hist_repeat_calls, hist_reverse_calls, hist_results_mutated_by_caller. Every ordered "
             "pair (A, B) of the 26 stock datatypes x every string up to cross_len (shorter when A or B "
             "is an existing-* type or locale, see bounds.history) over alphabet(A) "
             "or alphabet(B): A(s) then B(s), B(s) judged by the reference (hist_cross_cases). Every "
             "ordered pair (s1, s2), s1 == s2 included, of strings up to pair_len over the datatype's "
             "alphabet (thorough: also up to pair_len_reduced over bounds.history.pair_alphabet): "
             "f(s1) then f(s2), each call judged by the reference (hist_pair_cases).",
        bounds={"spaces": {n: {"alphabet": a, "max_len": (q if quick else t)}
                           for n, (a, q, t) in sorted(SPACES.items())},
                "deep_spaces": [] if quick else [list(d) for d in DEEP],
                "unicode_contexts": {n: (c[:QUICK_CTX.get(n, 1)] if quick else c)
                                     for n, c in sorted(SWEEP.items())},
                "e5": list(E5_TYPES),
                "history": {"contexts": ["first", "repeat", "repeat-after-caller-mutation", "reverse-pass",
                                         "after-other-datatype", "after-different-input"],
                            "immediate_repeats": REPEATS[0 if quick else 1],
                            "repeat_and_reverse_on": ["plain spaces", "token spaces"] + ([] if quick else [
                                "unicode sweep (existing-*, locale: one repeat, no reverse pass)"]),
                            "cross_ordered_pairs": len(SPACES) * (len(SPACES) - 1),
                            "cross_len": XLEN[0 if quick else 1],
                            "cross_len_if_either_makes_system_calls": XLEN_SYS[0 if quick else 1],
                            "system_call_datatypes": list(SYSCALL_TYPES),
                            "pair_len": PLEN[0 if quick else 1],
                            "pair_len_reduced": None if quick else PLEN_DEEP,
                            "pair_alphabet": None if quick else PAIR_ALPHA}},
        assumptions=[
            "vz/ref/dtypes.py states the documented contracts; its unspecified regions (module "
            "docstring) are checked for totality and post-conditions only",
            "E5 decides the full-match language of the live patterns for all lengths; the real "
            "call (prefix match, then comparison with the whole string) is decided by E1 up to "
            "the length bound; ipaddr-or-hostname strings containing ':' are decided by E1 only",
            "IPv6 validator self-tested against the stdlib ipaddress module at start-up",
            "existing-* evaluated in a scratch cwd/HOME under /dev/shm; locale: totality only",
            "history: ZConfig.datatypes is re-executed (importlib.reload) at the start of every shard, so "
            "a shard's observations depend on the calls of that shard only; the longest history is one "
            "shard (up to 360 k cases x 3 calls)"])
    n_self = R.ipv6_selftest()
    names = set(D.stock_datatypes)
    run.require(names == set(SPACES) == set(SWEEP),
                "stock datatype table %r differs from the planned spaces" % sorted(names ^ set(SPACES)))
    fs = ScratchFS.create()
    try:
        core.pmap(shard, plan(tier, fs.root), run.acc)
    finally:
        fs.remove()
    acc = run.acc
    acc.extra["ipv6_selftest_cases"] = n_self
    # non-trivial count from the per-first-character tallies
    nt = 0
    live = {k[:-2] for k in acc.extra if k.startswith("fc\t") and k.endswith("\tL")}
    for k in [k for k in acc.extra if k.startswith("fc\t")]:
        n = acc.extra.pop(k)
        if k.endswith("\tT") and k[:-2] in live:
            nt += n
    acc.nontrivial = nt
    for name in sorted(SPACES):
        okc = acc.classes.get("%s:ok" % name, 0)
        run.require(okc > 0, "no accepted input explored for %s" % name)
        if name not in ("string", "null", "string-list"):
            run.require(acc.classes.get("%s:ValueError" % name, 0) > 0,
                        "no refused input explored for %s" % name)
        if name != "locale":
            run.require(acc.clauses.get("%s:ok" % name, 0) > 0,
                        "reference never fixed a value for %s" % name)
    run.require(acc.extra.get("e5_products", 0) == len(E5_TYPES), "E5 products missing")
    run.require(acc.states >= 1500 and acc.transitions >= 30000, "E5 products suspiciously small")
    run.require(acc.classes.get("timedelta:TypeError", 0) > 0, "timedelta unknown unit never explored")
    # history axis really exercised
    x = acc.extra
    base = x.get("token_cases", 0) + (0 if quick else x.get("unicode_sweep_cases", 0) // 2)
    run.require(x.get("hist_repeat_calls", 0) >= (base + 1000000) * REPEATS[0 if quick else 1] > 0,
                "history: fewer immediate repeats (%d) than the token%s cases (%d) + 1 M plain-space cases"
                % (x.get("hist_repeat_calls", 0), "" if quick else " + sweep", base))
    run.require(x.get("hist_reverse_calls", 0) >= base + 1000000 > 0,
                "history: reverse pass (%d) smaller than the token%s cases (%d) + 1 M plain-space cases"
                % (x.get("hist_reverse_calls", 0), "" if quick else " + sweep", base))
    run.require(x.get("hist_cross_ordered_pairs", 0) == len(SPACES) * (len(SPACES) - 1),
                "history: not every ordered pair of datatypes was run")
    run.require(x.get("hist_cross_cases", 0) >= 100000 and x.get("hist_pair_cases", 0) >= 100000,
                "history: cross-datatype / input-pair spaces suspiciously small")
    run.require(x.get("hist_results_mutated_by_caller", 0) >= 1000,
                "history: caller-side mutation of returned values never exercised")
    for name in sorted(SPACES):
        run.require(x.get("hist_ok:%s" % name, 0) > 0,
                    "history: no accepted input re-converted for %s" % name)
        if name not in ("string", "null", "string-list"):
            run.require(x.get("hist_rejected:%s" % name, 0) > 0,
                        "history: no refused input re-converted for %s" % name)
    return run


def replay(body):
    import ZConfig.datatypes
    case = body["case"]
    name, s = case["datatype"], case["string"]
    hist = case.get("history") or ["first"]
    acc = core.Acc()
    if case.get("engine") == "table":
        for _ in range(2):
            shard_table(acc)
    else:
        fs = ScratchFS.create()
        try:
            if hist[0] == "reverse" and case.get("shard"):
                # the outcome depended on what the rest of the shard left behind: run the shard
                sh = case["shard"]
                if sh[0] == "sweep":
                    sh[2] = [tuple(c) for c in sh[2]]
                for i in range(2):
                    n0 = acc.violations_total
                    shard(tuple(sh) + (fs.root,), acc)      # (starts with fresh_datatypes())
                    print("run %d: shard %r: %d violation(s)" % (i + 1, sh, acc.violations_total - n0))
            else:
                fs_name = name if name in FS_TYPES else (
                    hist[1] if hist[0] == "after-other-datatype" and hist[1] in FS_TYPES else name)
                with _fs(fs_name, fs.root):
                    for i in range(2):
                        fresh_datatypes()
                        ctx = Ctx(name, acc)
                        ctx.repeats = max(REPEATS)
                        if hist[0] == "after-other-datatype":
                            _swallow(ZConfig.datatypes.Registry().get(hist[1]), s)
                            print("run %d: first %s(%r)" % (i + 1, hist[1], s))
                        elif hist[0] == "after-different-input" and hist[1] is not None:
                            _swallow(ctx.f, hist[1])
                            print("run %d: first %s(%r)" % (i + 1, name, hist[1]))
                        obs, exp = ctx.check(s)
                        print("run %d: %s(%r) observed=%r reference=%r (then repeated %d times)"
                              % (i + 1, name, s, obs, exp, ctx.repeats))
        finally:
            fs.remove()
    for v in acc.violations.values():
        print("REPLAY violation:", v["kind"], "case=", v["case"], "observed=", v["observed"],
              "expected=", v["expected"], "tags=", v["tags"])
    print("replayed: %d violation signature(s)" % len(acc.violations))
    return 1 if acc.violations else 0
