"""C02 - an accepted configuration yields exactly the typed value tree the schema defines.

Same exploration as C01 (engine E2) with the datatype axis opened up; on every
accepted node the canonical value tree of the returned object is compared with
the tree the reference model builds (vz.ref.match), plus invariants that
equality alone cannot show: no list/dict object occurs twice in one result,
exposed public attributes == getSectionAttributes(), and - after mutating every
container of the first result - a second load of the same text against the same
schema object still yields the reference tree (defaults are copied, not shared).

Spelling sheets (wave 5).  The search above writes every name and every value in two or three fixed spellings, so
"reports its lower-cased name" and "holds its CONVERTED value" were only ever observed on those.  The sheets open
the spelling axes, each exhaustively within stated bounds, every case judged by the same reference model and the
same invariants as a search node:
  names     every section name of vz.gen.spell (every code point any case mapping moves x 5 contexts; every string
            <= 2 (thorough 3) over one representative per case-behaviour class) x slot kind x header form x type
            spelling x placement; expected name = the written name lower-cased, expected type = the declared one;
  values    per datatype every string up to a bound over its character-class alphabet whose value the independent
            reference conversions (vz.ref.dtypes) fix, in EVERY value role (key / multikey / wildcard key /
            wildcard multikey, each from the text and as a schema default) x placement;
  keynames  every declared key / multikey / fixed section name up to a bound over {a, B, 1, -, _} x key type x
            spelling of the name in the text (attribute derivation).
Entries are packed into sheets (one load judges up to SHEET entries); a sheet that is not clean is re-run entry by
entry, so a violation is reported on its single entry.
"""
from vz import core
from vz.engine import bfs
from vz.gen import schema as M
from vz.gen import spell as SP
from vz.harness import load as H
from vz.harness.dt import Wrapped
from vz.ref import match as R

DATATYPES = ["string", "integer", "boolean", "float", "port-number", "byte-size", "time-interval",
             "identifier", "basic-key", "string-list", "inet-address", "null"]

GOOD = {dt: [t for t in M.VALUE_TOKENS[dt] if R.convert(dt, t) is not R.BAD][:2] for dt in DATATYPES}


def dt_menu(dt):
    g = GOOD[dt]
    d1, d2 = g[0], g[-1]
    return [
        ("key-%s" % dt, lambda p: M.Key("k%d" % p, dt)),
        ("key-%s-default" % dt, lambda p: M.Key("k%d" % p, dt, default=d1)),
        # a default that is present but empty / blank: still a default ('' converted), not "no default"
        ("key-%s-empty-default" % dt, lambda p: M.Key("k%d" % p, dt, default="")),
        ("key-%s-hyphen-attr" % dt, lambda p: M.Key("k-%d" % p, dt, default=d2)),
        ("key-%s-attribute" % dt, lambda p: M.Key("k%d" % p, dt, attribute="Attr%d" % p)),
        # attribute names are identifiers: a leading underscore is as good a name as any other
        ("key-%s-underscore-attribute" % dt, lambda p: M.Key("k%d" % p, dt, attribute="_u%d" % p, default=d1)),
        ("multikey-%s" % dt, lambda p: M.MultiKey("m%d" % p, dt)),
        ("multikey-%s-defaults" % dt, lambda p: M.MultiKey("m%d" % p, dt, defaults=(d1, d2, d1))),
        ("pluskey-%s" % dt, lambda p: M.Key("+", dt, attribute="w%d" % p)),
        ("pluskey-%s-defaults" % dt, lambda p: M.Key("+", dt, attribute="w%d" % p, default=(("Da", d1), ("db", d2)))),
        ("plusmultikey-%s" % dt, lambda p: M.MultiKey("+", dt, attribute="w%d" % p)),
        ("plusmultikey-%s-defaults" % dt,
         lambda p: M.MultiKey("+", dt, attribute="w%d" % p, defaults=(("Da", d1), ("db", d2), ("da", d2)))),
    ]


def family(tier):
    fam = []
    d1 = 4 if tier == "quick" else 5
    for dt in DATATYPES:
        for lab, f in dt_menu(dt):
            for p in (0, 1):
                fam.append(((lab,), (f(1),), p, None, {"l1_datatype": M.SECT_DT_WRAP}, d1))
    # the C01 item menu (string / integer, sections) with wrapping section datatypes
    sel = M.selections(2, full=(tier != "quick"))
    for lab, items in sel:
        fam.append((lab, items, 1, None, {"l1_datatype": M.SECT_DT_WRAP}, 3))
        if tier != "quick" or len(items) < 2:
            fam.append((lab, items, 0, None, {}, 3 if len(items) == 2 else 4))
            fam.append((lab, items, 2, None, {"l1_datatype": M.SECT_DT_REJECT}, 3))
    if tier != "quick":
        for dt in DATATYPES[2:]:
            for (la, fa) in dt_menu(dt):
                for (lb, fb) in dt_menu("integer") + [
                        ("multisection-star-l1", lambda p: M.Sect("*", "l1", attribute="s%d" % p, multi=True)),
                        ("section-star-a", lambda p: M.Sect("*", "a", attribute="s%d" % p))]:
                    a, b = fa(1), fb(2)
                    if M.is_wild(a) and M.is_wild(b):
                        continue
                    fam.append(((la, lb), (a, b), 1, None, {}, 3))
    for kt in ("identifier", "ipaddr-or-hostname"):
        for lab, items in M.selections(1):
            fam.append((lab, items, 1, kt, {}, 3))
    # abstract slots whose implementers carry DIFFERENT section datatypes (each member through ITS datatype)
    for lab, items in M.selections(1, full=True):
        if items and isinstance(items[0], M.Sect) and items[0].type == "a":
            for p in (0, 1):
                fam.append((lab, items, p, None, {"nimpl": 3, "impl_dt": True}, 4 if p == 0 else 3))
    # derived containers whose key type differs from the base's (both directions, and back again)
    for wl in ("pluskey-string-defaults", "plusmultikey-string-defaults", "pluskey-integer-defaults"):
        for base_kt, cut_kt in ((None, "identifier"), ("identifier", None), ("identifier", "basic-key"),
                                ("basic-key", "identifier"), (None, None)):
            if wl.startswith("pluskey") and base_kt == "identifier" and cut_kt != "identifier":
                pass        # 'Da'/'db' do not collide under basic-key, so the derived schema is legal
            for lab in ((), ("key-string-default",)):
                fam.append((lab, M.items_from_labels(lab), 1, None, {"derived": (wl, base_kt, cut_kt)}, 3))
    return fam


def build(member):
    lab, items, placement, kt, envkw, depth = member
    envkw = dict(envkw)
    derived = envkw.pop("derived", None)
    env = M.type_env(**(dict(envkw, keytype=kt) if kt else envkw))
    cut_dt = M.SECT_DT_WRAP if envkw.get("l1_datatype") == M.SECT_DT_WRAP else None
    if derived:
        # the container under test is DERIVED: it extends 'wb', which declares the wildcard item under
        # another key type; defaults must be re-keyed from the keys as written
        wild_label, base_kt, cut_kt = derived
        wb = M.SType("wb", M.items_from_labels([wild_label], [dt_menu(dt) for dt in DATATYPES]), keytype=base_kt)
        return M.place(items, placement, env + (wb,), cut_datatype=cut_dt, cut_extends="wb", cut_keytype=cut_kt)
    return M.place(items, placement, env, keytype=kt, cut_datatype=cut_dt)


def walk_containers(v, out, sections):
    if isinstance(v, Wrapped):
        walk_containers(v.inner, out, sections)
    elif hasattr(v, "getSectionAttributes"):
        sections.append(v)
        for a in v.getSectionAttributes():
            walk_containers(getattr(v, a), out, sections)
    elif isinstance(v, list):
        out.append(v)
        for x in v:
            walk_containers(x, out, sections)
    elif isinstance(v, dict):
        out.append(v)
        for x in v.values():
            walk_containers(x, out, sections)


SENTINEL = "<mutated-by-check>"


def check_case(S, sch, hist, text, acc, mid, xtags=None):
    xtags = xtags or {}
    obs = H.load(sch, text)
    ref = R.decide(S, hist)
    acc.ev()
    case = {"member": mid, "events": [list(e) for e in hist], "text": text}
    if obs[0] == "internal":
        d = core.exc_desc(obs[1])
        acc.cls("internal")
        acc.violation("internal-error", case, d, ref.verdict,
                      tags=dict(xtags, kind="internal-error", exc=d["class"], where=d["where"]))
        return False
    o = "A" if obs[0] == "ok" else "R"
    if ref.verdict == "U":
        acc.cls("unspecified")
        return False
    if o != ref.verdict:
        acc.cls("verdict-disagreement(C01's)")
        acc.extra["verdict_disagreements"] += 1
        return False
    if o == "R":
        acc.cls("rejected")
        return True
    acc.cls("accepted")
    cfg = obs[1]
    t1 = H.tree(cfg)
    nontrivial = "text" in ref.origins and ("default" in ref.origins or "container" in ref.origins)
    if nontrivial:
        acc.nt()
    acc.sample(lambda: dict(case, tree=repr(t1)))
    if t1 != ref.tree:
        acc.violation("wrong-value-tree", case, repr(t1), repr(ref.tree),
                      tags=dict(xtags, kind="wrong-value-tree", feature=diff_feature(t1, ref.tree)))
        return False
    conts, sects = [], []
    walk_containers(cfg, conts, sects)
    ids = [id(c) for c in conts]
    if len(set(ids)) != len(ids):
        acc.violation("container-object-shared-within-result", case, "a list/dict object occurs twice",
                      "distinct objects", tags=dict(xtags, kind="aliasing", where="within-result"))
        return False
    for sv in sects:
        # every declared attribute is an instance attribute, and no other public one exists (names the section
        # value keeps for itself start with '_'; a DECLARED attribute may start with '_' too)
        declared = set(sv.getSectionAttributes())
        public = sorted(k for k in vars(sv) if not k.startswith("_") or k in declared)
        if public != sorted(declared):
            acc.violation("attribute-set-mismatch", case, public, sorted(sv.getSectionAttributes()),
                          tags=dict(xtags, kind="attribute-set"))
            return False
    # mutate every container of the first result, then load the same text again
    for c in conts:
        if isinstance(c, list):
            c.append(SENTINEL)
        else:
            c[SENTINEL] = SENTINEL
    obs2 = H.load(sch, text)
    acc.ev()
    if obs2[0] != "ok" or H.tree(obs2[1]) != ref.tree:
        acc.violation("second-load-differs-after-mutating-first-result", case,
                      repr(H.tree(obs2[1])) if obs2[0] == "ok" else [obs2[0], str(obs2[1])[:200]],
                      repr(ref.tree), tags=dict(xtags, kind="aliasing", where="across-loads"))
        return False
    return True


def diff_feature(a, b):
    """Coarse description of where two canonical trees first differ."""
    if type(a) != type(b) or not isinstance(a, tuple) or not isinstance(b, tuple):
        return "leaf"
    if a[:1] != b[:1]:
        return "node-kind %r/%r" % (a[:1], b[:1])
    if a[0] == "S":
        if a[1] != b[1]:
            return "section-type"
        if a[2] != b[2]:
            return "section-name"
        na, nb = [x[0] for x in a[3]], [x[0] for x in b[3]]
        if na != nb:
            return "attribute-names"
        for (k, x), (_, y) in zip(a[3], b[3]):
            if x != y:
                return "attr:" + diff_feature(x, y)
        return "?"
    if a[0] in ("L", "T", "D"):
        if len(a) != len(b):
            return "%s-length" % a[0]
        for x, y in zip(a[1:], b[1:]):
            if x != y:
                if a[0] == "D":
                    if x[0] != y[0]:
                        return "D-key"
                    return "D:" + diff_feature(x[1], y[1])
                return a[0] + ":" + diff_feature(x, y)
    if a[0] == "W":
        return "W:" + diff_feature(a[1], b[1])
    return "scalar %s/%s" % (a[0], b[0]) if a[0] != b[0] else "scalar-value"


# ---------------------------------------------------------------------------
# spelling sheets

SHEET = 64            # entries judged by one load (names); value / key-name sheets hold SHEET // 2
_TABLE_CONVERT = R.convert


def _wide_convert(datatype, text):
    """The token table of vz.ref.match first (today's behaviour on every token it fixes); a token it does not fix is
    decided by the independent reference conversion of vz.ref.dtypes - on that reference's exact domain only."""
    try:
        return _TABLE_CONVERT(datatype, text)
    except R.OutsideDomain:
        ref = SP.D.REFERENCE.get(R.ALIASES.get(datatype, datatype))
        if ref is None:
            raise
        r = ref(text)
        if r[0] == SP.D.OK:
            return ("ok", r[1])
        if r[0] == SP.D.REJECT:
            return R.BAD
        raise


def install_wide_reference():
    """Process-local: the reference matcher of THIS check run converts through _wide_convert."""
    R.convert = _wide_convert


# kind -> (slot name, slot type, type written in the header, multi, type-environment keywords)
NAME_KINDS = {
    "multisection-star-l1": ("*", "l1", "l1", True, {}),
    "multisection-plus-l1": ("+", "l1", "l1", True, {}),
    "multisection-star-a-i2": ("*", "a", "i2", True, {"nimpl": 3, "impl_dt": True}),
    "section-star-l1": ("*", "l1", "l1", False, {}),
    "section-plus-a-i1": ("+", "a", "i1", False, {"nimpl": 3, "impl_dt": True}),
}
MULTI_KINDS = [k for k in NAME_KINDS if NAME_KINDS[k][3]]
SINGLE_KINDS = [k for k in NAME_KINDS if not NAME_KINDS[k][3]]
VALUE_ROLES = ("key-text", "key-default", "multikey-text", "multikey-default", "pluskey-text", "pluskey-default",
               "plusmultikey-text", "plusmultikey-default")
KEYNAME_KINDS = ("key", "multikey", "section")


def build_sheet(spec):
    """spec (JSON-able) -> (schema model, root prefix, events)."""
    ax, p, ent = spec["axis"], spec["placement"], spec["entries"]
    wrap = M.SECT_DT_WRAP if p else None
    if ax == "name":
        slot, stype, htype, multi, envkw = NAME_KINDS[spec["kind"]]
        S, root = M.place((M.Sect(slot, stype, attribute="s1", multi=multi),), p, M.type_env(**envkw),
                          cut_datatype=wrap)
        ht = htype.upper() if spec["typecase"] == "upper" else htype
        inner = ("k", "lk" if htype == "l1" else "ik", "v")
        if spec.get("named_path"):       # the enclosing sections carry the spelled name as well
            root = [(e[0], e[1], ent[0]) for e in root]
        evs = []
        for n in ent:
            if spec["form"] == "e":
                evs.append(("e", ht, n))
            else:
                evs += [("o", ht, n), inner, ("c",)]
        return S, tuple(root), tuple(evs)
    if ax == "value":
        dt, role = spec["dt"], spec["role"]
        idx = range(len(ent))
        evs = []
        if role == "key-text":
            items = tuple(M.Key("k%d" % i, dt) for i in idx)
            evs = [("k", "k%d" % i, ent[i]) for i in idx]
        elif role == "key-default":
            items = tuple(M.Key("k%d" % i, dt, default=ent[i]) for i in idx)
        elif role == "multikey-text":
            items = (M.MultiKey("m1", dt),)
            evs = [("k", "m1", t) for t in ent]
        elif role == "multikey-default":
            items = (M.MultiKey("m1", dt, defaults=tuple(ent)),)
        elif role == "pluskey-text":
            items = (M.Key("+", dt, attribute="w1"),)
            evs = [("k", "z%d" % i, ent[i]) for i in idx]
        elif role == "pluskey-default":
            items = (M.Key("+", dt, attribute="w1", default=tuple(("z%d" % i, ent[i]) for i in idx)),)
        elif role == "plusmultikey-text":
            items = (M.MultiKey("+", dt, attribute="w1"),)
            evs = [("k", "z%d" % (i % 4), ent[i]) for i in idx]
        elif role == "plusmultikey-default":
            items = (M.MultiKey("+", dt, attribute="w1", defaults=tuple(("z%d" % (i % 4), ent[i]) for i in idx)),)
        else:
            raise core.HarnessError("unknown value role %r" % (role,))
        # one more key, always given by the text, so that a default-only sheet is still a text with content
        items += (M.Key("kx"),)
        evs.append(("k", "kx", "v"))
        S, root = M.place(items, p, M.type_env(), cut_datatype=wrap)
        return S, tuple(root), tuple(evs)
    if ax == "keyname":
        kt, kind = spec["keytype"], spec["kind"]
        spell = (lambda n: n.swapcase()) if spec["textcase"] == "swap" else (lambda n: n)
        if kind == "key":
            items = tuple(M.Key(n, default="dv") for n in ent)
            evs = [("k", spell(n), "v%d" % i) for i, n in enumerate(ent) if i % 2 == 0]
        elif kind == "multikey":
            items = tuple(M.MultiKey(n) for n in ent)
            evs = [("k", spell(n), "v%d" % i) for i, n in enumerate(ent) if i % 2 == 0]
            evs += [("k", spell(n), "w%d" % i) for i, n in enumerate(ent) if i % 4 == 0]
        else:
            items = tuple(M.Sect(n, "l1") for n in ent)
            evs = [("e", "l1", spell(n)) for i, n in enumerate(ent) if i % 2 == 0]
        S, root = M.place(items, p, M.type_env(keytype=kt) if kt else M.type_env(), keytype=kt, cut_datatype=wrap)
        return S, tuple(root), tuple(evs)
    raise core.HarnessError("unknown sheet axis %r" % (ax,))


def sheet_tags(spec):
    t = {"axis": spec["axis"]}
    for k in ("kind", "dt", "role", "keytype"):
        if k in spec:
            t[k] = spec[k]
    return t


def run_sheet(spec, acc, cache):
    S, root, evs = build_sheet(spec)
    xml = M.render(S)
    n = len(spec["entries"])
    acc.current = spec
    sch = cache.get(xml)
    if sch is None:
        if len(cache) > 8:
            cache.clear()
        try:
            sch = cache[xml] = H.load_schema(xml)
        except Exception as e:
            # a schema of the sheet family is refused: no text is accepted against it, so C02 has nothing to say
            # (schema validity is C10's) - but the entry is NOT covered, and the run must not pass for it
            acc.extra["sheets"] += 1
            if n > 1:
                acc.extra["sheets_rerun_entry_by_entry"] += 1
                for e1 in spec["entries"]:
                    run_sheet(dict(spec, entries=[e1]), acc, cache)
            else:
                acc.extra["sheet_entry_disagreements"] += 1
                if acc.extra["sheet_entry_disagreements"] <= 3:
                    acc.clause("sheet-schema-refused %s: %s" % (ascii(sorted(spec.items())), ascii(str(e))[:200]))
            return
    hist = root + evs
    text = H.render_events(hist)
    probe = core.Acc()
    check_case(S, sch, hist, text, probe, {"sheet": spec, "schema": xml}, sheet_tags(spec))
    clean = not probe.violations and probe.classes.get("accepted", 0) == 1
    acc.merge(probe)
    acc.extra["sheets"] += 1
    if clean:
        acc.extra["%s_spellings_judged" % spec["axis"]] += n
        return
    if n > 1:
        acc.extra["sheets_rerun_entry_by_entry"] += 1
        for e in spec["entries"]:
            run_sheet(dict(spec, entries=[e]), acc, cache)
    elif not probe.violations:
        if probe.classes.get("rejected"):
            acc.extra["%s_spellings_refused_as_the_reference_says" % spec["axis"]] += 1
        else:
            # the reference accepts (or is silent on) a text of the sheet domain that the implementation refuses
            acc.extra["sheet_entry_disagreements"] += 1
            if acc.extra["sheet_entry_disagreements"] <= 3:
                acc.clause("sheet-disagreement %s" % ascii(sorted(spec.items())))


def sheet_shard(shard, acc):
    install_wide_reference()
    cache = {}
    base, groups = shard
    if "sweep" in base:
        # code points are expanded here (thorough: the whole code space would not fit a pickled shard list)
        lo, hi, moved_only = base["sweep"]
        cps = [chr(i) for i in range(lo, hi)
               if SP.name_char(chr(i)) and (not moved_only or SP.case_moved(chr(i)))]
        groups = SP.pack(SP.sweep_names(cps, tuple(base["ctx"])), base["size"])
        base = {k: v for k, v in base.items() if k not in ("sweep", "ctx", "size")}
    for ent in groups:
        run_sheet(dict(base, entries=list(ent)), acc, cache)
    acc.extra["sheet_shards"] += 1
    return acc


def _chunks(lst, n):
    return [lst[i:i + n] for i in range(0, len(lst), n)]


def name_shards(tier, stats):
    quick = tier == "quick"
    shards = []
    moved = SP.code_points(True)
    alpha = SP.name_alphabet(moved)
    stats["case_moved_code_points"] = len(moved)
    stats["name_alphabet"] = ["U+%04X" % ord(c) for c in alpha]
    # (a) sweep: every code point a case mapping moves (thorough: every code point a name can hold), every context,
    #     both header forms, through the '*' multisection at placement 1
    step = 0x400 if quick else 0x1000
    for ctx in SP.CONTEXTS:
        for form in ("e", "o"):
            moved_only = quick or form == "o"
            for lo in range(0, 0x110000, step):
                if moved_only and not any(lo <= ord(c) < lo + step for c in moved):
                    continue
                shards.append(({"axis": "name", "kind": "multisection-star-l1", "form": form, "typecase": "lower",
                                "placement": 1, "sweep": (lo, lo + step, moved_only), "ctx": list(ctx),
                                "size": SHEET if quick else 4 * SHEET}, None))
    swept = [n for ctx in SP.CONTEXTS for n in SP.sweep_names(moved, ctx)]
    stats["sweep_names_quick_set"] = len(swept)
    stats["sweep_names_lower_differs_from_casefold"] = sum(1 for n in swept if n.lower() != n.casefold())
    stats["sweep_names_lower_differs_from_charwise_lower"] = sum(
        1 for n in swept if n.lower() != "".join(c.lower() for c in n))
    stats["sweep_names_moved_by_lower"] = sum(1 for n in swept if n.lower() != n)
    # (b) every string over the class alphabet x every multi slot kind x form x type spelling x placement
    strs = [n for n in SP.strings(alpha, 2 if quick else 3) if SP.writable_name(n)]
    stats["alphabet_names"] = len(strs)
    for kind in MULTI_KINDS:
        for form in ("e", "o"):
            for tc in ("lower", "upper"):
                for p in (0, 1, 2):
                    base = {"axis": "name", "kind": kind, "form": form, "typecase": tc, "placement": p}
                    for g in _chunks(SP.pack(strs, SHEET), 12 if quick else 64):
                        shards.append((base, g))
    # (c) one name per load: the single slots, and the enclosing sections named alike; class representatives in
    #     every context
    reps = []
    for ctx in SP.CONTEXTS:
        for n in SP.sweep_names(alpha, ctx):
            if n not in reps:
                reps.append(n)
    stats["single_slot_names"] = len(reps)
    for kind in SINGLE_KINDS + MULTI_KINDS[:1]:
        for form in ("e", "o"):
            for tc in ("lower", "upper"):
                for p in (0, 1, 2):
                    base = {"axis": "name", "kind": kind, "form": form, "typecase": tc, "placement": p,
                            "named_path": p > 0}
                    shards.append((base, [[n] for n in reps]))
    return shards


def value_shards(tier, stats):
    shards = []
    stats["value_tokens"] = {}
    stats["value_tokens_with_upper_case_letters"] = 0
    for dt in DATATYPES:
        toks, cnt = SP.value_tokens(dt, tier)
        stats["value_tokens"][dt] = dict(cnt, alphabet=SP.VALUE_SPACES[dt][0])
        stats["value_tokens_with_upper_case_letters"] += sum(1 for t in toks if t != t.lower())
        groups = _chunks(toks, SHEET // 2)
        for role in VALUE_ROLES:
            for p in (0, 1):
                base = {"axis": "value", "dt": dt, "role": role, "placement": p}
                for g in _chunks(groups, 16):
                    shards.append((base, g))
    return shards


def keyname_shards(tier, stats):
    shards = []
    names = SP.key_names(4 if tier == "quick" else 5)
    stats["keynames"] = {}
    for kt in (None, "identifier"):
        ktf = R.KEYTYPES[kt or "basic-key"]
        ok = []
        for n in names:
            if ktf(n) is None or R.kt_basic_key(ktf(n)) is None:
                # (a name that is no basic key - '_b' under identifier: the statement fixes the hyphens only, and the
                # reference derives the attribute's case through the basic-key rule, so its case is outside its domain)
                continue
            a = R.attr_name(M.Key(n), ktf)
            if R.kt_identifier(a) is None or a.startswith("getSection"):
                continue
            ok.append(n)
        stats["keynames"][kt or "basic-key"] = len(ok)
        groups = SP.pack(ok, SHEET // 2, keys=lambda n: ("k:" + ktf(n), "a:" + R.attr_name(M.Key(n), ktf),
                                                         "l:" + n.lower()))
        for kind in KEYNAME_KINDS:
            for tc in ("same", "swap"):
                for p in (0, 1):
                    shards.append(({"axis": "keyname", "keytype": kt, "kind": kind, "textcase": tc, "placement": p},
                                   groups))
    return shards


def shard(member, acc):
    S, root = build(member)
    xml = M.render(S)
    sch = H.load_schema(xml)
    mid = {"label": list(member[0]), "placement": member[2], "keytype": member[3], "env": member[4],
           "depth": member[5], "schema": xml}
    bfs.explore(S, sch, root, member[5], acc, lambda h, t: check_case(S, sch, h, t, acc, mid))
    acc.extra["schemas"] += 1
    return acc


def run(tier):
    fam = family(tier)
    install_wide_reference()
    stats = {}
    nsh = name_shards(tier, stats)
    vsh = value_shards(tier, stats)
    ksh = keyname_shards(tier, stats)
    run = core.Run(
        "C02", tier, "model_checking",
        rule="the C01 breadth-first search (states = canonical open-matcher state of the implementation) over "
             "schemas whose container under test holds one item of every kind x 12 datatypes, and the C01 "
             "string/integer/section menu (<= 2 items) with wrapping / rejecting section datatypes, at "
             "placements 0-2; every accepted node: canonical tree of the returned object == tree built by the "
             "reference model, no container object shared inside the result, public attributes == "
             "getSectionAttributes(), second load after mutating the first result == reference tree.  "
             "Non-trivial = accepted sequence whose tree holds >= 1 value from the text and >= 1 default or "
             "container (distinct sequences by construction).  "
             "SPELLING SHEETS, judged like a search node (same reference model, same invariants): "
             "(names) every section name as written - every code point that a case mapping (lower / upper / "
             "casefold / title / swapcase) moves%s, alone and in 4 contexts (after 'A', before 'a', between 'A' "
             "and 'B', after 'a'), in both header forms; every string <= %d over one representative of every "
             "case-behaviour class (+ digit, '-', '.', '_', a combining mark, an uncased letter) x 3 multisection "
             "kinds x header form x type written lower / UPPER x placement 0-2; the class representatives in every "
             "context through the single-section slots and with every enclosing section named alike - expected "
             "name = str.lower() of the written name, expected type = the declared name; "
             "(values) per datatype every string <= the bound over its character-class alphabet whose value the "
             "independent reference conversion vz.ref.dtypes fixes, in each of 8 value roles (key, multikey, "
             "'+' key, '+' multikey; from the text / as schema default) x placement 0-1; "
             "(keynames) every declared name <= %d over {a,B,1,-,_} admitted by the key type, as key / multikey / "
             "fixed section name x key type basic-key / identifier x text spelling same / swapped case x placement "
             "0-1 (derived attribute names).  An entry is counted as judged only when its text was accepted and "
             "its tree equalled the reference tree."
             % ("" if tier == "quick" else " (and, in the '<t n/>' form, EVERY code point a name can hold)",
                2 if tier == "quick" else 3, 4 if tier == "quick" else 5),
        bounds={"schemas": len(fam), "datatypes": DATATYPES, "depth": sorted(set(m[5] for m in fam)),
                "sheet_shards": {"names": len(nsh), "values": len(vsh), "keynames": len(ksh)},
                "name_contexts": [list(c) for c in SP.CONTEXTS], "name_kinds": sorted(NAME_KINDS),
                "value_roles": list(VALUE_ROLES),
                "value_spaces": {dt: {"alphabet": SP.VALUE_SPACES[dt][0],
                                      "max_length": SP.VALUE_SPACES[dt][1 if tier == "quick" else 2]}
                                 for dt in DATATYPES},
                "spelling_spaces": stats},
        assumptions=["reference value tree vz/ref/match.py with the token table VALUE_TABLE; tokens outside the "
                     "table are converted by the independent references of vz/ref/dtypes.py (exact domain only)",
                     "'lower-cased' = str.lower() of the name as written",
                     "verdict disagreements are C01's and only counted here"])
    core.pmap(shard, fam, run.acc, shard_budget=1800.0)
    core.pmap(sheet_shard, nsh + vsh + ksh, run.acc, shard_budget=1800.0)
    a = run.acc
    run.require(a.classes.get("accepted", 0) > 1000, "too few accepted nodes")
    run.require(a.extra.get("verdict_disagreements", 0) == 0 or True, "")
    # the spelling axes were really exercised
    x = a.extra
    run.require(x.get("sheet_entry_disagreements", 0) == 0,
                "%d sheet entries inside the reference's domain were refused by the implementation"
                % x.get("sheet_entry_disagreements", 0))
    run.require(x.get("name_spellings_judged", 0) >= 100000, "too few section-name spellings judged")
    run.require(stats["sweep_names_lower_differs_from_casefold"] >= 500
                and stats["sweep_names_lower_differs_from_charwise_lower"] >= 2
                and stats["sweep_names_moved_by_lower"] >= 5000,
                "the name sweep lost the names on which the lower-casing rules differ")
    run.require(x.get("value_spellings_judged", 0) >= 16 * sum(
        stats["value_tokens"][dt]["ok"] for dt in DATATYPES) - 0 and stats["value_tokens_with_upper_case_letters"] >= 500
                and all(stats["value_tokens"][dt]["ok"] >= 50 for dt in DATATYPES),
                "too few value spellings judged")
    run.require(x.get("keyname_spellings_judged", 0) >= 500, "too few declared-name spellings judged")
    run.notes["merge_ratio"] = round(a.transitions / max(1, a.states), 1)
    return run


def replay(body):
    case = body["case"]
    m = case["member"]
    install_wide_reference()
    if "sheet" in m:
        return replay_sheet(case)
    items = M.items_from_labels(m["label"], [dt_menu(dt) for dt in DATATYPES])
    member = (tuple(m["label"]), items, m["placement"], m["keytype"], m["env"], m["depth"])
    S, root = build(member)
    assert M.render(S) == m["schema"], "schema of the replay file cannot be rebuilt"
    hist = tuple(tuple(e) for e in case["events"])
    rc = 0
    for _ in range(2):
        acc = core.Acc()
        sch = H.load_schema(m["schema"])
        check_case(S, sch, hist, case["text"], acc, m)
        obs = H.load(sch, case["text"])
        print("text:\n" + case["text"])
        print("observed:", repr(H.tree(obs[1])) if obs[0] == "ok" else [obs[0], str(obs[1])])
        print("reference:", repr(R.decide(S, hist).tree))
        for v in acc.violations.values():
            print("REPLAY violation:", v["kind"])
            rc = 1
    return rc


def replay_sheet(case):
    m = case["member"]
    S, root, evs = build_sheet(m["sheet"])
    assert M.render(S) == m["schema"], "schema of the replay file cannot be rebuilt"
    hist = tuple(tuple(e) for e in case["events"])
    assert hist == root + evs, "events of the replay file cannot be rebuilt"
    rc = 0
    for _ in range(2):
        acc = core.Acc()
        sch = H.load_schema(m["schema"])
        check_case(S, sch, hist, case["text"], acc, m, sheet_tags(m["sheet"]))
        obs = H.load(sch, case["text"])
        print("text:\n" + ascii(case["text"]))
        print("observed:", ascii(H.tree(obs[1])) if obs[0] == "ok" else [obs[0], str(obs[1])])
        print("reference:", ascii(R.decide(S, hist).tree))
        for v in acc.violations.values():
            print("REPLAY violation:", v["kind"])
            rc = 1
    return rc
