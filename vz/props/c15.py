"""C15 - the result of a load does not depend on how the text is laid out.

Engine E3 as a breadth-first search over rewrite applications: from every seed
text ALL applications of the layout rewrites named in the statement are applied,
to depth d, deduplicating texts; every text reached is loaded and must give the
seed's value tree, or be rejected if the seed is.  Seeds: corpus T (accepted and
rejected), %define texts, configurations for the shipped logger and
basic-mapping components.
"""
from vz import core
from vz.gen import corpus as C
from vz.gen import schema as M
from vz.harness import load as H
from vz.ref import match as R

# ---------------------------------------------------------------------------
# line classification (layout level only)


def classify(line):
    s = line.strip()
    if s == "":
        return "blank"
    if s[0] == "#":
        return "comment"
    if s[:2] == "</":
        return "close"
    if s[0] == "<":
        return "empty" if s.endswith("/>") else "open"
    if s[0] == "%":
        w = s[1:].split(None, 1)
        return "define" if w and w[0] == "define" else "directive"
    return "key"


def flip(s):
    """ASCII letter-case flip that changes something if there is a letter."""
    t = s.upper()
    return t if t != s else s.lower()


def header_parts(s):
    s = s.strip()
    body = s[1:-2] if s.endswith("/>") else s[1:-1]
    parts = body.split()
    return parts[0], (parts[1] if len(parts) > 1 else None)


def rewrites(lines, keycase_ok):
    """Yield (label, new_lines) for every single rewrite application."""
    n = len(lines)
    kinds = [classify(l) for l in lines]
    for i in range(n):
        if kinds[i] != "blank":
            yield "indent", lines[:i] + ["\t  " + lines[i]] + lines[i + 1:]
            yield "indent-unicode-space", lines[:i] + ["\u2003 " + lines[i]] + lines[i + 1:]
            yield "trailing", lines[:i] + [lines[i] + " \t "] + lines[i + 1:]
    for i in range(n + 1):
        yield "blank", lines[:i] + [""] + lines[i:]
        yield "comment", lines[:i] + ["  # a <comment> %line $x"] + lines[i:]
    for i in range(n):
        k = kinds[i]
        s = lines[i].strip()
        ind = lines[i][:len(lines[i]) - len(lines[i].lstrip())]
        if k in ("open", "empty"):
            t, nm = header_parts(s)
            tail = "/>" if k == "empty" else ">"
            yield "type-case", lines[:i] + ["%s<%s%s%s" % (ind, flip(t), " " + nm if nm else "", tail)] + lines[i + 1:]
            if nm:
                yield "name-case", lines[:i] + ["%s<%s %s%s" % (ind, t, flip(nm), tail)] + lines[i + 1:]
            if k == "empty":
                yield "empty-to-pair", lines[:i] + ["%s<%s%s>" % (ind, t, " " + nm if nm else ""),
                                                     "%s</%s>" % (ind, t)] + lines[i + 1:]
            elif i + 1 < n and kinds[i + 1] == "close":
                yield "pair-to-empty", lines[:i] + ["%s<%s%s/>" % (ind, t, " " + nm if nm else "")] + lines[i + 2:]
        elif k == "close":
            t = s[2:-1].strip()
            yield "type-case", lines[:i] + ["%s</%s>" % (ind, flip(t))] + lines[i + 1:]
        elif k == "define":
            w = s.split(None, 2)
            if len(w) >= 2:
                yield "define-case", lines[:i] + [ind + " ".join([w[0], flip(w[1])] + w[2:])] + lines[i + 1:]
        elif k == "key":
            w = s.split(None, 1)
            if keycase_ok:
                yield "key-case", lines[:i] + [ind + " ".join([flip(w[0])] + w[1:])] + lines[i + 1:]
        if k in ("key", "define", "directive") and "$" in s:
            # flip the case of every $name / ${name} reference (not of '$$')
            out, j, changed = [], 0, False
            while j < len(s):
                c = s[j]
                if c == "$" and j + 1 < len(s) and s[j + 1] == "$":
                    out.append("$$")
                    j += 2
                    continue
                if c == "$" and j + 1 < len(s) and (s[j + 1].isalpha() or s[j + 1] in "_{") and \
                        not (k != "key" and j < len(s.split(None, 1)[0])):
                    e = j + 1
                    if s[e] == "{":
                        e += 1
                    b = e
                    while e < len(s) and (s[e].isalnum() or s[e] == "_"):
                        e += 1
                    out.append(s[j:b] + flip(s[b:e]))
                    changed = changed or flip(s[b:e]) != s[b:e]
                    j = e
                    continue
                out.append(c)
                j += 1
            if changed:
                yield "reference-case", lines[:i] + [ind + "".join(out)] + lines[i + 1:]
    for i in range(n - 1):
        if kinds[i] == "key" and kinds[i + 1] == "key":
            a = lines[i].split()[0]
            b = lines[i + 1].split()[0]
            if a.lower() != b.lower():
                yield "swap-keys", lines[:i] + [lines[i + 1], lines[i]] + lines[i + 2:]


REDUCED = ("indent", "blank", "type-case", "name-case", "empty-to-pair", "pair-to-empty", "swap-keys",
           "key-case", "define-case", "reference-case")


def outcome(sch, text):
    r = H.load(sch, text)
    if r[0] == "ok":
        return ("tree", H.tree(r[1]))
    if r[0] == "rejected":
        return ("rejected",)
    return ("internal", core.exc_desc(r[1]))


def explore_seed(sch, seed_text, keycase_ok, depth, acc, mid, reduced_depth=0):
    base = outcome(sch, seed_text)
    acc.ev()
    if base[0] == "internal":
        acc.extra["seed_internal_errors(C07's)"] += 1
        return
    seed_lines = seed_text.rstrip("\n").split("\n") if seed_text.strip("\n") else []
    seen = {tuple(seed_lines)}
    frontier = [(seed_lines, ())]
    acc.cls("seed-" + base[0])
    for level in range(max(depth, reduced_depth)):
        nxt = []
        for lines, path in frontier:
            for label, new in rewrites(lines, keycase_ok):
                if level >= depth and label not in REDUCED:
                    continue
                key = tuple(new)
                if key in seen:
                    continue
                seen.add(key)
                text = "\n".join(new) + "\n"
                acc.current = text
                got = outcome(sch, text)
                acc.ev()
                acc.transitions += 1
                if [l.strip() for l in new if l.strip()] != [l.strip() for l in seed_lines if l.strip()]:
                    acc.nt()
                p2 = path + (label,)
                acc.sample(lambda: {"member": mid["name"], "seed": seed_text, "rewrites": list(p2), "text": text})
                acc.cls("rewritten-" + got[0])
                if got != base:
                    acc.violation("layout-changes-outcome",
                                  {"member": mid, "seed": seed_text, "rewrites": list(p2), "text": text},
                                  [got[0], repr(got[1:])[:300]], [base[0], repr(base[1:])[:300]],
                                  tags={"kind": "layout", "rewrite": label if got[0] != "internal" else "internal",
                                        "seed": base[0], "got": got[0]})
                    continue
                if level + 1 < max(depth, reduced_depth):
                    nxt.append((new, p2))
        frontier = nxt
    acc.states += len(seen)
    acc.traces = acc.transitions


# ---------------------------------------------------------------------------
# seeds

LOGGER_SCHEMA = """<schema>
  <import package='ZConfig.components.logger'/>
  <section type='eventlog' name='*' attribute='eventlog'/>
  <multisection type='logger' name='*' attribute='loggers'/>
</schema>
"""

LOGGER_TEXTS = [
    "<eventlog>\n  level info\n  <logfile>\n    path STDOUT\n    format %(message)s\n  </logfile>\n</eventlog>\n",
    "<logger>\n  name vz.a.b\n  level DEBUG\n  propagate no\n  <logfile>\n    path STDERR\n    level warn\n  </logfile>\n</logger>\n",
    "<logger>\n  name vz.a\n  <logfile>\n    path STDOUT\n    dateformat %H:%M\n    format %(asctime)s %(message)s\n  </logfile>\n"
    "  <logfile x>\n    path STDERR\n    level 25\n  </logfile>\n</logger>\n<logger>\n  name vz.b\n  level error\n</logger>\n",
    "%define lvl warn\n<eventlog>\n  level $lvl\n  <logfile>\n    path STDOUT\n    style format\n    format {levelname} {message}\n  </logfile>\n</eventlog>\n",
    "<logger>\n  name vz.c\n  level bogus\n</logger>\n",
    "<logger>\n  name vz.d\n  <logfile>\n    path STDOUT\n    max-size 1mb\n  </logfile>\n</logger>\n",
    "<eventlog/>\n<logger/>\n",
    "<logger>\n  name vz.e\n  <syslog>\n    facility user\n    address localhost:514\n    level info\n  </syslog>\n</logger>\n",
]

MAPPING_SCHEMA = """<schema>
  <import package="ZConfig.components.basic" file="mapping.xml"/>
  <sectiontype name="dict" extends="ZConfig.basic.mapping"/>
  <sectiontype name="idkeys" extends="ZConfig.basic.mapping" keytype="identifier"/>
  <section name="*" type="dict" attribute="simple_dict"/>
  <multisection name="+" type="idkeys" attribute="id_dicts"/>
</schema>
"""

MAPPING_TEXTS = [
    ("<dict foo>\n  key-one value-one\n  key-two value  two\n</dict>\n", True),
    ("<dict/>\n<idkeys a>\n  Kx 1\n  kx 2\n</idkeys>\n<idkeys b/>\n", False),
    ("<dict>\n  k v\n  K w\n</dict>\n", True),
    ("<idkeys a>\n  k v\n</idkeys>\n<idkeys A>\n  k w\n</idkeys>\n", False),
]

DEFINE_SCHEMA = """<schema>
  <multikey name="u"/>
  <key name="k1"/>
  <sectiontype name="s"><multikey name="u"/><key name="k2" datatype="integer"/></sectiontype>
  <multisection type="s" name="*" attribute="ss"/>
</schema>
"""

DEFINE_TEXTS = [
    "%define a x\n%define B ${a}y\nu $a\nu $b $$a\n<s n>\n  u ${B}\n  k2 7\n</s>\nk1 $A\n",
    "%define a x\nu $a\n%define a x\n<s/>\n<s t>\n  u $a$a\n</s>\n",
    "u $a\n%define a x\n",
    "%define a 1\n%define b $a$a\n<s>\n  k2 $b\n  u ${b}0\n</s>\n<s>\n  k2 x$a\n</s>\n",
    "%define a-b x\nu v\n",
    "%define base one\n%define base two\nu $base\n",          # rejected: conflicting redefinition
    "%define base one\nu $base\n%define Base one\n<s>\n  u $BASE\n</s>\n",   # accepted: same value again
    "%define a x\n%define b $a\n%define b x\nu $b\n",
]


def shard(member, acc):
    kind = member[0]
    tier = member[-1]
    depth = 2 if tier == "quick" else 3
    red = 0 if tier == "quick" else 4
    if kind == "corpus":
        _, name, S, root, cdepth, lean = member[:6]
        xml = M.render(S)
        sch = H.load_schema(xml)
        mid = {"name": name, "schema": xml}
        na = nr = 0
        cap = 12 if tier == "quick" else 60
        for events, d in C.nodes(S, root, cdepth, lean):
            if d.verdict == "U" or len(events) < (3 if lean else 2):
                continue
            if d.verdict == "A":
                na += 1
                if na > cap:
                    continue
            else:
                nr += 1
                if nr > cap:
                    continue
            text = H.render_events(events)
            # key case may be flipped only where every container uses basic-key (true for these members)
            explore_seed(sch, text, True, depth, acc, mid, red if len(events) <= 4 else 0)
    else:
        _, name, xml, texts = member[:4]
        sch = H.load_schema(xml)
        mid = {"name": name, "schema": xml}
        for t in texts:
            if isinstance(t, tuple):
                t, kc = t
            else:
                kc = True
            explore_seed(sch, t, kc, depth, acc, mid, red)
    return acc


def run(tier):
    mem = [("corpus",) + m + (tier,) for m in C.members(tier)]
    for i, t in enumerate(LOGGER_TEXTS):
        mem.append(("fixed", "logger-%d" % i, LOGGER_SCHEMA, [t], tier))
    for i, t in enumerate(MAPPING_TEXTS):
        mem.append(("fixed", "mapping-%d" % i, MAPPING_SCHEMA, [t], tier))
    for i, t in enumerate(DEFINE_TEXTS):
        mem.append(("fixed", "define-%d" % i, DEFINE_SCHEMA, [t], tier))
    depth = 2 if tier == "quick" else 3
    run = core.Run(
        "C15", tier, "model_checking",
        rule="breadth-first search over rewrite applications from every seed (accepted and rejected corpus texts, "
             "capped per schema; %%define texts; logger and basic-mapping configurations): indent / trailing "
             "blanks on every line, blank / comment line at every position, letter case of every section type "
             "(openers and closers independently), section name, define name, $-reference and (basic-key "
             "containers) key, <t/> <-> <t></t>, swap of adjacent lines of different keys; all applications to "
             "depth %d (thorough: depth 4 along a reduced rewrite set for short seeds), texts deduplicated.  "
             "states = distinct texts, transitions = loads.  Non-trivial = rewritten text differing from its seed "
             "in a non-blank line." % depth,
        bounds={"members": len(mem), "depth": depth},
        assumptions=["structural digest of application objects (logger factories) by vz.harness.load.tree",
                     "case rewrites touch ASCII letters only"])
    core.pmap(shard, mem, run.acc, shard_budget=3000.0)
    a = run.acc
    run.require(a.classes.get("seed-tree", 0) > 50 and a.classes.get("seed-rejected", 0) > 50, "few seeds")
    run.require(a.classes.get("rewritten-tree", 0) > 1000, "few accepted rewritten texts")
    return run


def replay(body):
    case = body["case"]
    rc = 0
    for _ in range(2):
        sch = H.load_schema(case["member"]["schema"])
        a = outcome(sch, case["seed"])
        b = outcome(sch, case["text"])
        print("seed:\n" + case["seed"] + "->", a[0], repr(a[1:])[:300])
        print("rewritten (%s):\n" % case["rewrites"] + case["text"] + "->", b[0], repr(b[1:])[:300])
        if a != b:
            rc = 1
    return rc
