#!/usr/bin/env python3
"""seedprompt.py CNN -> prompt text for an independent change-seeding sub-agent."""
import glob, json, os, sys
pid = sys.argv[1]
labels = sys.argv[2] if len(sys.argv) > 2 else "AB"        # e.g. "CD" for a second wave
la, lb = labels[0], labels[1]
wt = "%s/%s" % (os.environ.get("SEEDWORK", "/tmp/seedwork"), pid)
taken = []
for f in sorted(glob.glob("/verif/seeded/%s-*/notes.md" % pid)):
    taken.append(open(f).readline().strip().lstrip("# "))
for l in open('/verif/properties.jsonl'):
    d = json.loads(l)
    if d['id'] == pid:
        break
prop = {k: d[k] for k in ('id', 'title', 'statement', 'quantifier', 'why_tests_cant', 'anchors')}
print("""You are helping to evaluate a verification effort for the Python library zopefoundation/ZConfig (a schema-driven configuration library). Your job is to play the role of a developer who introduces a subtle regression.

You have your own scratch git worktree of the repository at %(wt)s (work ONLY there; never touch /repo, and do not read or list anything under /verif - it is off limits). Run Python as /venv/bin/python with PYTHONPATH=%(wt)s/src so that your modified sources are used, e.g.
  cd %(wt)s && PYTHONPATH=%(wt)s/src /venv/bin/python -m pytest -q -p no:cacheprovider --timeout=900 < /dev/null
(On the unmodified tree exactly one test fails in this environment: test_validator.py::TestValidator::test_schema_only, because stdin is not a TTY. Ignore that one; everything else must pass.)

Here is a semantic property of ZConfig that is supposed to hold for EVERY input / history it quantifies over:

%(prop)s

Task: produce TWO independent, realistic source changes (call them %(la)s and %(lb)s, touching different mechanisms or code sites) to files under %(wt)s/src/ZConfig that each BREAK this property while the library still imports and the existing test suite still passes (all tests except the known baseline failure). Each change should look like a plausible refactoring slip or "optimisation" a maintainer could make (an off-by-one, a reordered check, a dropped normalisation, a cached value, a shared mutable default, a condition that is wrong only for a particular combination, two sites that each look fine alone, ...). IMPORTANT: prefer changes that need something SPECIFIC to manifest - a particular multi-step sequence of operations, an unusual input shape, a fault at a particular point, a specific combination of schema features, a second load against the same object - rather than ones any ordinary use would expose at once. Do not just delete a feature wholesale. Do not edit any test files.

%(taken)sFor each change X in {%(la)s, %(lb)s} deliver, inside %(wt)s/_seed/ :
  * X.diff        - the change as produced by `git -C %(wt)s diff` (only that change: build %(la)s, save the diff, `git -C %(wt)s checkout -- src`, then build %(lb)s)
  * X_demo.py     - a small stand-alone program (uses only ZConfig and the stdlib; creates any files it needs in a temp dir and removes them) that exits 0 and prints PROPERTY HOLDS on the unmodified source and exits 1 printing PROPERTY VIOLATED (with the concrete failing input and what was observed vs expected) when the change is applied. Run it as: PYTHONPATH=<tree>/src /venv/bin/python X_demo.py
  * X.md          - 5-10 lines: what the change is, why it breaks the property statement, what specific circumstances it needs in order to manifest, and the exact commands you ran with their results (test-suite summary line with the change applied; demo result with and without the change).
Verify all of it yourself: suite passes with the change, demo fails with the change and passes without. Leave the worktree's src/ in the UNMODIFIED state when you finish (git -C %(wt)s checkout -- src) with only the _seed/ directory added. Your final message: one paragraph per change (what, where, what it needs to manifest), plus confirmation of the verification runs.""" % {"wt": wt, "prop": json.dumps(prop, indent=1), "la": la, "lb": lb,
       "taken": ("Earlier volunteers already delivered the following changes for this property; yours must use DIFFERENT mechanisms and code sites, and should need a different kind of circumstance to manifest:\n" + "".join("  - %s\n" % t for t in taken) + "\n") if taken else ""})
