"""Alphabets and seeds for the text-level checks (C03, C17)."""

# one representative per character class the grammar distinguishes
CHAR_ALPHABET = ["<", ">", "/", "%", "#", "(", ")", "$", "a", "1", "-", " ", "\t", " ", "é"]

# a line alphabet holding at least one representative of every line class the
# reference distinguishes, and the delicate variants named in the property
LINE_ALPHABET = [
    "", "#x", " # x", "k", "k v", "k  v  w", "K v", "a(b", "(a", "k )",
    "<a>", "</a>", "<a b>", "<A B>", "</A>", "<a/>", "<a b/>", "<a />", "<a/ >", "</a/>",
    "</a >", "< a>", "<a b c>", "<b>", "</b>", "</>", "<>", "<a", "a>",
    "%define x v", "%define X w", "%define", "%DEFINE a b", "% define x v",
    "%import p", "%import", "%include f", "%includex f",
    "k $x", "k $$", "k $",
]

# additional lines for the schema-less round trip (C17)
LINE_ALPHABET_C17 = [
    "k a$$b", "k <x", "k #x", "k", "k v", "k w", "K v", "j v", "%import q", "%import p",
    "<a>", "</a>", "<a b>", "<A B/>", "<a/>", "<b>", "</b>", "<a/ >", "</a/>", "<a b/ >",
    "", "#c", "k  v  w", "a(b", "k $$", "k $$$$x", "%define x v", "%include f", "<a //>",
    "<a>x", "k </a>", "%import a$$b", "%import  p  q ", "%import a$$$$b", "%import $$$$",
    "k $(VZ_C17_PAD)", "k $(VZ_C17_EMPTY)", "k a$(VZ_C17_MID)b", "k $(VZ_C17_LT)", "k x$(VZ_C17_PAD)",
]


def seed40():
    """A 40-line text, nesting depth 6, accepted by the grammar."""
    L = []
    L += ["# seed", "%import p", "%define x v", "top 1", "Top 2", ""]
    L += ["<a>", "  k $x", "  <b n1>", "    k v", "    <c>", "      j w", "      <d/>",
          "      <d e>", "        <e>", "          <f g>", "            deep $$x", "          </f>",
          "        </e>", "      </d>", "    </c>", "  </b>", "  k2", "</a>"]
    L += ["<A second>", "  k a(b", "</a>", "<a third/>", "%define y ${x}y", "u $y", "", " # trailing",
          "<b>", " <c/>", " <c x />", "</B >", "last value with  spaces", "k )", "<z/>", "end 1"]
    assert len(L) == 40, len(L)
    return L
