"""Engine E5: language equivalence of a live `re` pattern with a reference automaton.

    parse (re._parser)  ->  NFA over character-set edges  ->  partition of all Unicode
    code points into classes no edge and no reference label can tell apart  ->
    subset construction  ->  breadth-first exploration of the product with the
    reference automaton; a reachable pair with different acceptance gives a shortest
    distinguishing string.

The language decided is the FULL-MATCH language of the pattern under the flags the
stock datatypes compile with (plain str pattern, no IGNORECASE / MULTILINE / DOTALL /
VERBOSE / ASCII): the set of s with rx.fullmatch(s).  ZConfig's
RegularExpressionConversion is "rx.match(s) then compare m.group() with s" under
leftmost-alternative semantics, which can refuse a member of that language when an
earlier alternative matches a proper prefix; that gap is decided by enumeration (E1) in
vz/props/c09.py, not here.

Supported node kinds are exactly those the five stock patterns use: LITERAL, NOT_LITERAL,
IN (LITERAL, RANGE, CATEGORY_[NOT_]DIGIT/SPACE/WORD, NEGATE), BRANCH, MAX_REPEAT, SUBPATTERN without flag
changes, AT_BEGINNING, AT_END.  Anything else raises core.HarnessError.

Assertions are handled exactly (no MULTILINE):  '^' can be passed only before the first
character;  '$' can be passed when the rest of the input is '' or a single final '\\n' -
a thread that passed '$' may afterwards consume one '\\n' and then nothing.
"""
import bisect
import collections
import itertools
import re

from vz import core

try:
    import re._parser as sre_parse
    import re._constants as sre_c
except ImportError:                       # pragma: no cover (older Pythons)
    import sre_parse
    import sre_constants as sre_c

NL = 10
MAXCP = 0x110000
ALLOWED_FLAGS = re.UNICODE


# what the categories mean for a str pattern without re.ASCII / re.LOCALE; the
# validate_sweep self-check compares the resulting partition with the live
# pattern at every code point, so a wrong predicate here is a harness error
_CAT_PRED = {
    "digit": lambda ch: ch.isdecimal(),
    "space": lambda ch: ch.isspace(),
    "word": lambda ch: ch.isalnum() or ch == "_",
}
CATEGORIES = {
    sre_c.CATEGORY_DIGIT: ("digit", False),
    sre_c.CATEGORY_NOT_DIGIT: ("digit", True),
    sre_c.CATEGORY_SPACE: ("space", False),
    sre_c.CATEGORY_NOT_SPACE: ("space", True),
    sre_c.CATEGORY_WORD: ("word", False),
    sre_c.CATEGORY_NOT_WORD: ("word", True),
}


class _NFA:
    def __init__(self):
        self.n = 0
        self.eps = collections.defaultdict(list)      # node -> [node]
        self.asserts = collections.defaultdict(list)  # node -> [(kind, node)]
        self.chars = collections.defaultdict(list)    # node -> [(setid, node)]
        self.sets = []                                # setid -> (negate, items)
        self._setids = {}

    def node(self):
        self.n += 1
        return self.n - 1

    def setid(self, negate, items):
        key = (bool(negate), tuple(items))
        if key not in self._setids:
            self._setids[key] = len(self.sets)
            self.sets.append(key)
        return self._setids[key]


def _unsupported(what):
    raise core.HarnessError("E5: unsupported regular-expression construct: %s" % (what,))


def _in_items(av):
    negate = False
    items = []
    for op, a in av:
        if op is sre_c.NEGATE:
            negate = True
        elif op is sre_c.LITERAL:
            items.append(("L", a))
        elif op is sre_c.RANGE:
            items.append(("R", a[0], a[1]))
        elif op is sre_c.CATEGORY:
            if a not in CATEGORIES:
                _unsupported("category %s" % (a,))
            items.append(("C", CATEGORIES[a]))
        else:
            _unsupported("set member %s" % (op,))
    return negate, items


def _compile_seq(nfa, seq, src):
    """Adds the sequence starting at node src; returns its end node."""
    cur = src
    for op, av in seq:
        cur = _compile_node(nfa, op, av, cur)
    return cur


def _compile_node(nfa, op, av, src):
    if op is sre_c.LITERAL:
        dst = nfa.node()
        nfa.chars[src].append((nfa.setid(False, [("L", av)]), dst))
        return dst
    if op is sre_c.NOT_LITERAL:
        dst = nfa.node()
        nfa.chars[src].append((nfa.setid(True, [("L", av)]), dst))
        return dst
    if op is sre_c.IN:
        negate, items = _in_items(av)
        dst = nfa.node()
        nfa.chars[src].append((nfa.setid(negate, items), dst))
        return dst
    if op is sre_c.BRANCH:
        dst = nfa.node()
        for alt in av[1]:
            a0 = nfa.node()
            nfa.eps[src].append(a0)
            a1 = _compile_seq(nfa, alt, a0)
            nfa.eps[a1].append(dst)
        return dst
    if op is sre_c.SUBPATTERN:
        group, add_flags, del_flags, p = av
        if add_flags or del_flags:
            _unsupported("inline flags in a group")
        return _compile_seq(nfa, p, src)
    if op is sre_c.MAX_REPEAT:
        lo, hi, p = av
        cur = src
        for _ in range(lo):
            cur = _compile_seq(nfa, p, cur)
        if hi is sre_c.MAXREPEAT:
            loop = nfa.node()
            nfa.eps[cur].append(loop)
            end = _compile_seq(nfa, p, loop)
            nfa.eps[end].append(loop)
            out = nfa.node()
            nfa.eps[loop].append(out)
            return out
        if hi - lo > 64:
            _unsupported("counted repeat with a large bound")
        out = nfa.node()
        nfa.eps[cur].append(out)
        for _ in range(hi - lo):
            cur = _compile_seq(nfa, p, cur)
            nfa.eps[cur].append(out)
        return out
    if op is sre_c.AT:
        dst = nfa.node()
        if av is sre_c.AT_BEGINNING:
            nfa.asserts[src].append(("begin", dst))
        elif av is sre_c.AT_END:
            nfa.asserts[src].append(("end", dst))
        else:
            _unsupported("assertion %s" % (av,))
        return dst
    _unsupported("node %s" % (op,))


class Machine:
    """Deterministic automaton of the full-match language over character classes."""

    def __init__(self):
        self.pattern = None
        self.class_of = None      # bytearray: code point -> class id
        self.classes = []         # class id -> {"rep", "size", "label"}
        self.delta = []           # state -> [state per class]
        self.accepting = []
        self.start = 0
        self.nfa_nodes = 0

    def run(self, s):
        st = self.start
        d, co = self.delta, self.class_of
        for ch in s:
            st = d[st][co[ord(ch)]]
        return st

    def accepts(self, s):
        return self.accepting[self.run(s)]


def _member(items, cp, ch):
    for it in items:
        k = it[0]
        if k == "L":
            if cp == it[1]:
                return True
        elif k == "R":
            if it[1] <= cp <= it[2]:
                return True
        else:                       # "C": (category name, negated)
            cat, neg = it[1]
            if _CAT_PRED[cat](ch) != neg:
                return True
    return False


def build(rx, label):
    """rx: compiled pattern (str).  label: code point's reference label, a function
    of the character.  Returns a Machine."""
    if not isinstance(rx.pattern, str):
        _unsupported("bytes pattern")
    if rx.flags & ~ALLOWED_FLAGS:
        _unsupported("flags %r" % (rx.flags,))
    parsed = sre_parse.parse(rx.pattern, rx.flags)
    nfa = _NFA()
    start = nfa.node()
    final = _compile_seq(nfa, list(parsed), start)

    # ---- partition of Unicode
    points = {0, NL, NL + 1, 128, MAXCP}
    cats = set()
    for negate, items in nfa.sets:
        for it in items:
            if it[0] == "L":
                points.update((it[1], it[1] + 1))
            elif it[0] == "R":
                points.update((it[1], it[2] + 1))
            else:
                cats.add(it[1][0])
    cats = [_CAT_PRED[c] for c in sorted(cats)]
    points = sorted(p for p in points if 0 <= p <= MAXCP)
    # membership of every interval in every range/literal item
    rl_items = sorted({it for _, items in nfa.sets for it in items if it[0] != "C"})
    interval_sig = []
    for i in range(len(points) - 1):
        lo = points[i]
        interval_sig.append(tuple(_member([it], lo, "x") for it in rl_items) + (lo == NL,))
    sig_ids = {}
    class_of = bytearray(MAXCP)
    classes = []
    bis = bisect.bisect_right
    for cp in range(MAXCP):
        ch = chr(cp)
        sig = (interval_sig[bis(points, cp) - 1], tuple(f(ch) for f in cats), label(ch))
        k = sig_ids.get(sig)
        if k is None:
            k = len(classes)
            if k > 250:
                raise core.HarnessError("E5: more than 250 character classes")
            sig_ids[sig] = k
            classes.append({"rep": ch, "size": 0, "label": sig[2]})
        classes[k]["size"] += 1
        class_of[cp] = k
    nl_class = class_of[NL]
    if classes[nl_class]["size"] != 1:
        raise core.HarnessError("E5: newline does not have a class of its own")

    # which classes each set accepts
    set_accepts = []
    for negate, items in nfa.sets:
        row = []
        for c in classes:
            m = _member(items, ord(c["rep"]), c["rep"])
            row.append(m != negate)
        set_accepts.append(row)

    # ---- subset construction over threads (node, mode)
    def closure(threads, at_start):
        seen = set(threads)
        stack = list(threads)
        while stack:
            node, mode = stack.pop()
            for d in nfa.eps.get(node, ()):
                t = (d, mode)
                if t not in seen:
                    seen.add(t)
                    stack.append(t)
            for kind, d in nfa.asserts.get(node, ()):
                if kind == "begin":
                    if not at_start:
                        continue
                    t = (d, mode)
                else:
                    t = (d, 1 if mode == 0 else mode)
                if t not in seen:
                    seen.add(t)
                    stack.append(t)
        return frozenset(seen)

    def move(S, k):
        out = set()
        for node, mode in S:
            if mode == 2:
                continue
            if mode == 1 and k != nl_class:
                continue
            for sid, d in nfa.chars.get(node, ()):
                if set_accepts[sid][k]:
                    out.add((d, 0 if mode == 0 else 2))
        return closure(out, False)

    m = Machine()
    m.pattern = rx.pattern
    m.class_of = class_of
    m.classes = classes
    m.nfa_nodes = nfa.n
    s0 = closure({(start, 0)}, True)
    ids = {s0: 0}
    order = [s0]
    i = 0
    while i < len(order):
        S = order[i]
        row = []
        for k in range(len(classes)):
            T = move(S, k)
            j = ids.get(T)
            if j is None:
                j = len(order)
                if j > 200000:
                    raise core.HarnessError("E5: determinisation exceeds 200000 states")
                ids[T] = j
                order.append(T)
            row.append(j)
        m.delta.append(row)
        m.accepting.append(any(node == final for node, _ in S))
        i += 1
    return m


def validate(machine, rx, maxlen, acc=None):
    """The machine must agree with rx.fullmatch on every string up to maxlen over
    the class representatives; disagreement means the ENGINE is wrong."""
    reps = [c["rep"] for c in machine.classes]
    n = 0
    for L in range(maxlen + 1):
        for t in itertools.product(reps, repeat=L):
            s = "".join(t)
            if machine.accepts(s) != (rx.fullmatch(s) is not None):
                raise core.HarnessError(
                    "E5 self-check: automaton and rx.fullmatch disagree on %r (pattern %r)"
                    % (s, rx.pattern))
            n += 1
    return n


def validate_sweep(machine, rx, contexts, lo=0, hi=MAXCP):
    """Every code point, in every (prefix, suffix) context: the machine (which sees
    the code point only through its class) must agree with rx.fullmatch."""
    n = 0
    fm = rx.fullmatch
    for pre, post in contexts:
        sp = machine.run(pre)
        d, co, accg = machine.delta, machine.class_of, machine.accepting
        for cp in range(lo, hi):
            st = d[sp][co[cp]]
            for ch in post:
                st = d[st][co[ord(ch)]]
            if accg[st] != (fm(pre + chr(cp) + post) is not None):
                raise core.HarnessError(
                    "E5 self-check: class partition wrong at U+%04X in context %r (pattern %r)"
                    % (cp, (pre, post), rx.pattern))
            n += 1
    return n


def product(machine, ref):
    """Breadth-first exploration of machine x ref.

    ref: object with .start, .step(state, label), .verdict(state) in
    {"accept","reject","unspec"}.  Returns a dict with states, transitions,
    compared, unspec and `mismatches`: one entry per reachable pair whose
    acceptance differs, each with a shortest witness string."""
    labels = [c["label"] for c in machine.classes]
    reps = [c["rep"] for c in machine.classes]
    start = (machine.start, ref.start)
    parent = {start: None}
    queue = collections.deque([start])
    transitions = 0
    compared = unspec = 0
    mismatches = []

    def witness(pair):
        out = []
        while parent[pair] is not None:
            pair, k = parent[pair]
            out.append(reps[k])
        return "".join(reversed(out))

    def look(pair):
        nonlocal compared, unspec
        v = ref.verdict(pair[1])
        if v == "unspec":
            unspec += 1
            return
        compared += 1
        a = machine.accepting[pair[0]]
        if a != (v == "accept"):
            mismatches.append({"string": witness(pair), "pattern_accepts": a, "reference": v})

    look(start)
    while queue:
        pair = queue.popleft()
        d, r = pair
        row = machine.delta[d]
        for k in range(len(labels)):
            nxt = (row[k], ref.step(r, labels[k]))
            transitions += 1
            if nxt not in parent:
                if len(parent) > 2000000:
                    raise core.HarnessError("E5: product exceeds 2000000 states")
                parent[nxt] = (pair, k)
                look(nxt)
                queue.append(nxt)
    return {"states": len(parent), "transitions": transitions, "compared": compared,
            "unspec": unspec, "mismatches": mismatches, "dfa_states": len(machine.delta),
            "classes": len(labels), "nfa_nodes": machine.nfa_nodes}
