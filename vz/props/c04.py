"""C04 - $-substitution computes exactly the documented replacement function.

Engine E1: exhaustive enumeration of all strings up to length n over the
10-symbol alphabet, each evaluated under every define/undefine subset of the
names it references; plus isname on all strings; plus a full-Unicode sweep at
one position of four contexts; plus deviation sweeps around a 200-char seed.
Oracle: vz.ref.subst (independent scanner).
"""
import itertools
import os

from vz import core
from vz.ref import subst as R

ALPHABET = "${}()aB_1-"
RICH = "$a$$${B}$(a)$"          # replacement text full of constructs: rescanning would show


def value_for(kind, key):
    return "<%s:%s>%s" % (kind, key, RICH)


class EnvGuard:
    """Owns the environment variables this check touches."""

    def __init__(self):
        self.touched = {}

    def set(self, defined, decoys, referenced=()):
        for k in referenced:
            # a referenced name that this case leaves undefined must really be
            # absent, whatever the process inherited (e.g. '_' set by the shell)
            if k not in defined and k not in self.touched:
                self.touched[k] = os.environ.get(k)
        for k in list(self.touched):
            if k not in defined and k not in decoys:
                os.environ.pop(k, None)
        for k, v in decoys.items():
            self._put(k, v)
        for k, v in defined.items():
            self._put(k, v)

    def _put(self, k, v):
        if k not in self.touched:
            self.touched[k] = os.environ.get(k)
        os.environ[k] = v

    def restore(self):
        for k, old in self.touched.items():
            if old is None:
                os.environ.pop(k, None)
            else:
                os.environ[k] = old
        self.touched = {}


def swapcase_ascii(s):
    return s.swapcase()


def observe(substitute, s, mapping):
    import ZConfig
    try:
        r = substitute(s, mapping)
    except ZConfig.SubstitutionReplacementError as e:
        return ("missing", getattr(e, "name", None), getattr(e, "source", None))
    except ZConfig.SubstitutionSyntaxError:
        return ("syntax",)
    except Exception as e:  # anything else is a violation
        return ("internal", core.exc_desc(e))
    if r is s:
        return ("same",)
    return ("ok", r)


def check_string(s, acc, env, substitute, all_subsets=True, empties=True):
    """Evaluate s under every define/undefine subset of the names it can reach; every non-empty subset once with
    values full of '$' constructs and (empties) once with every defined name holding the EMPTY string - a name
    whose value is '' has a value."""
    if "$" not in s:
        acc.current = (s, 0)
        obs = observe(substitute, s, {})
        acc.ev()
        acc.cls(R.SAME)
        if obs != ("same",):
            compare(s, 0, [], (R.SAME,), obs, acc)
        return
    refs = R.references(s)
    nref = len(refs)
    subsets = range(1 << nref) if all_subsets else (0, (1 << nref) - 1)
    seen_masks = set()
    for mask, empty in [(m, e) for m in subsets for e in ((False, True) if empties and m else (False,))]:
        if (mask, empty) in seen_masks:
            continue
        seen_masks.add((mask, empty))
        dmap, emap, decoys_e = {}, {}, {}
        for bit, (kind, key) in enumerate(refs):
            if mask >> bit & 1:
                if kind == "d":
                    dmap[key] = "" if empty else value_for(kind, key)
                else:
                    emap[key] = "" if empty else value_for(kind, key)
        # decoys: case-swapped spellings that must NOT be consulted
        for kind, key in refs:
            sw = swapcase_ascii(key)
            if kind == "d":
                # the mapping is keyed by lower-cased names only; an entry under
                # any other spelling must never be found
                for alt in (key.upper(), key.title()):
                    if alt != key and alt not in dmap:
                        dmap.setdefault(alt, "DECOY")
            else:
                if sw != key and ("e", sw) not in refs:
                    decoys_e[sw] = "DECOY"
                lo = key.lower()
                if lo != key and ("e", lo) not in refs:
                    decoys_e[lo] = "DECOY"
        if any(k == "e" for k, _ in refs) or env.touched:
            env.set(emap, decoys_e, [k for kk, k in refs if kk == 'e'])
        exp = R.substitute(s, lambda n: dmap.get(n) if n == n.lower() else None,
                           lambda n: emap.get(n))
        acc.current = (s, mask, empty)
        obs = observe(substitute, s, dmap)
        acc.ev()
        if "$" in s:
            acc.nt()
        acc.cls(exp[0])
        compare(s, mask, refs, exp, obs, acc, empty)
        acc.sample(lambda: {"string": s, "defined": [r for b, r in enumerate(refs) if mask >> b & 1],
                            "referenced": refs, "expected": exp, "observed": obs})


def compare(s, mask, refs, exp, obs, acc, empty=False):
    case = {"string": s, "referenced": refs, "values": "empty" if empty else "rich",
            "defined": [r for b, r in enumerate(refs) if mask >> b & 1]}
    if obs[0] == "internal":
        acc.violation("internal-error", case, obs, exp,
                      tags={"kind": "internal-error", "exc": obs[1]["class"]})
        return
    if exp[0] == R.UNSPEC:
        return
    if exp[0] == R.SAME:
        if obs != ("same",):
            acc.violation("not-returned-as-is", case, obs, exp)
    elif exp[0] == R.OK:
        if obs[0] not in ("ok",) or obs[1] != exp[1]:
            # a string containing '$' whose expansion equals itself may be returned as is
            if obs == ("same",) and exp[1] == s:
                return
            acc.violation("wrong-result", case, obs, exp)
    elif exp[0] == R.SYNTAX:
        if obs[0] != "syntax":
            acc.violation("syntax-error-expected", case, obs, exp)
    elif exp[0] == R.MISSING:
        if obs[0] != "missing":
            acc.violation("replacement-error-expected", case, obs, exp)
        else:
            name, source = obs[1], obs[2]
            # '$(NAME)' keeps its case ("with its case preserved"), so the error must carry NAME exactly as written;
            # for '$name' / '${name}' the statement leaves open whether "that name" is the written or the lower-cased one
            envonly = ["e", exp[1]] in [list(r) for r in refs] and ["d", exp[1].lower()] not in [list(r) for r in refs]
            if not isinstance(name, str) or name.lower() != exp[1].lower() or (envonly and name != exp[1]):
                acc.violation("replacement-error-wrong-name", case, obs, exp)
            elif source != s:
                acc.violation("replacement-error-wrong-source", case, obs, exp)


def check_isname(s, acc, isname):
    exp, unspec = R.is_name(s)
    try:
        obs = isname(s)
    except Exception as e:
        acc.violation("internal-error", {"isname": s}, core.exc_desc(e), exp,
                      tags={"kind": "internal-error", "fn": "isname"})
        return
    acc.ev()
    acc.cls("isname-%s" % ("unspec" if unspec else exp))
    if unspec:
        return
    if bool(obs) != exp or not isinstance(obs, bool):
        acc.violation("isname", {"isname": s}, obs, exp)


PROBE_LETTER = "\u00e9"      # LATIN SMALL LETTER E WITH ACUTE: a letter under the Unicode reading, not under the ASCII one


def consistent_letter(c, acc, isname, substitute):
    """Whether a non-ASCII letter may be part of a name is left open by the statement ("letter"), but under either
    reading a character is a letter or it is not: it must be admitted at the start of a name exactly when it is
    admitted inside one, by isname and by the scanner of '$name' references alike."""
    acc.ev()
    acc.cls("letter-class-consistency")
    try:
        start, inside = bool(isname(c)), bool(isname("a" + c))
    except Exception as e:
        acc.violation("internal-error", {"isname": c}, core.exc_desc(e), "bool",
                      tags={"kind": "internal-error", "fn": "isname"})
        return
    # ... and the reading is ONE reading: either every non-ASCII letter is a name character (Unicode reading) or none
    # is (ASCII reading) - judged against a fixed probe letter, so a change that admits a handful of code points
    # (say those that some case mapping sends to ASCII letters) is wrong under both readings
    try:
        probe = bool(isname(PROBE_LETTER))
    except Exception:
        probe = None
    if probe is not None and start != probe:
        acc.violation("letter-class-not-uniform", {"char": c, "fn": "isname", "probe": PROBE_LETTER},
                      {"isname(c)": start, "isname(probe)": probe}, "equal",
                      tags={"kind": "letter-class-not-uniform", "fn": "isname"})
    if start != inside:
        acc.violation("letter-class-inconsistent", {"char": c, "fn": "isname"},
                      {"isname(c)": start, "isname('a'+c)": inside}, "equal",
                      tags={"kind": "letter-class-inconsistent", "fn": "isname"})
    v = value_for("d", "a")
    o1 = observe(substitute, "$" + c, {"a": v, c.lower(): "X", "a" + c.lower(): "Y"})
    o2 = observe(substitute, "$a" + c, {"a": v, c.lower(): "X", "a" + c.lower(): "Y"})
    # c not a name start  <=>  '$'+c is a syntax error  <=>  '$a'+c is value(a) followed by c
    s1 = o1[0] == "syntax"
    s2 = o2 == ("ok", v + c)
    p1 = observe(substitute, "$" + PROBE_LETTER, {"a": v, PROBE_LETTER: "X"})[0] == "syntax"
    if s1 != p1:
        acc.violation("letter-class-not-uniform", {"char": c, "fn": "substitute", "probe": PROBE_LETTER},
                      {"'$'+c": o1, "'$'+probe is a syntax error": p1}, "c and the probe letter are both name "
                      "characters or both not", tags={"kind": "letter-class-not-uniform", "fn": "substitute"})
    if s1 != s2:
        acc.violation("letter-class-inconsistent", {"char": c, "fn": "substitute"},
                      {"'$'+c": o1, "'$a'+c": o2}, "c is a name character in both positions or in neither",
                      tags={"kind": "letter-class-inconsistent", "fn": "substitute"})


def shard_strings(shard, acc):
    from ZConfig.substitution import isname
    from ZConfig.substitution import substitute
    kind, prefix, n = shard
    env = EnvGuard()
    try:
        lens = range(0, n - len(prefix) + 1)
        for L in lens:
            for tail in itertools.product(ALPHABET, repeat=L):
                s = prefix + "".join(tail)
                check_string(s, acc, env, substitute)
                check_isname(s, acc, isname)
    finally:
        env.restore()
    return acc


SEED200 = None


def seed200():
    global SEED200
    if SEED200 is None:
        parts = ["ab$a-", "${B}1", "$$_(x)", "$(B){", "}a$_1$a1 ", "${a}}$a{", "$(a)b$$$$", "B-1_$B(", ")${_}"]
        s = ""
        i = 0
        while len(s) < 200:
            s += parts[i % len(parts)]
            i += 1
        SEED200 = s[:200]
    return SEED200


def shard_deviate(shard, acc):
    from ZConfig.substitution import substitute
    order, lo, hi = shard
    seed = seed200()
    env = EnvGuard()
    try:
        if order == 0:
            check_string(seed, acc, env, substitute, all_subsets=False)
        elif order == 1:
            for i in range(lo, hi):
                for c in ALPHABET:
                    if c != seed[i]:
                        check_string(seed[:i] + c + seed[i + 1:], acc, env, substitute,
                                     all_subsets=False)
                check_string(seed[:i] + seed[i + 1:], acc, env, substitute, all_subsets=False)
        else:
            for i in range(lo, hi):
                for j in range(i + 1, len(seed)):
                    for c in ALPHABET:
                        if c == seed[i]:
                            continue
                        base = seed[:i] + c + seed[i + 1:]
                        for d in ALPHABET:
                            if d != seed[j]:
                                check_string(base[:j] + d + base[j + 1:], acc, env, substitute,
                                             all_subsets=False)
    finally:
        env.restore()
    return acc


UNICODE_CONTEXTS = [("$a", ""), ("${a", "}"), ("$", ""), ("x$$", "$a"), ("$(a", ")")]


def shard_unicode(shard, acc):
    from ZConfig.substitution import isname
    from ZConfig.substitution import substitute
    lo, hi = shard
    env = EnvGuard()
    try:
        for cp in range(lo, hi):
            c = chr(cp)
            for pre, post in UNICODE_CONTEXTS:
                check_string(pre + c + post, acc, env, substitute, empties=False)
            check_isname("a" + c, acc, isname)
            check_isname(c, acc, isname)
            check_isname(c + "a", acc, isname)
            check_isname("a" + c + "a", acc, isname)
            if cp > 127 and c.isalpha():
                consistent_letter(c, acc, isname, substitute)
    finally:
        env.restore()
    return acc


def run(tier):
    n = 6 if tier == "quick" else 8
    run = core.Run(
        "C04", tier, "exploration",
        rule="every string of length <= n over the alphabet %r, under every define/undefine "
             "subset of the mapping/environment names it references (every non-empty subset twice: "
             "values that contain '$' constructs, and every defined name holding the EMPTY string; "
             "decoy entries under other letter cases); isname on the same strings; "
             "every Unicode code point at one position of %d contexts; every single%s "
             "substitution/deletion in a 200-char seed. Non-trivial = (string, subset) pairs whose "
             "string contains '$' (shards partition the space, so the count is of distinct pairs)."
             % (ALPHABET, len(UNICODE_CONTEXTS), "" if tier == "quick" else " and double"),
        bounds={"alphabet": ALPHABET, "max_len": n, "unicode_contexts": UNICODE_CONTEXTS,
                "seed_len": 200, "deviations": 1 if tier == "quick" else 2},
        assumptions=["reference scanner vz/ref/subst.py is the documented function",
                     "non-ASCII alphanumerics adjacent to a name position are unspecified "
                     "(only totality is checked there)"])
    plen = 2 if n <= 6 else 3
    shards = []
    # strings shorter than plen
    shards.append(("all", "", plen - 1))
    for p in itertools.product(ALPHABET, repeat=plen):
        shards.append(("all", "".join(p), n))
    core.pmap(shard_strings, shards, run.acc)
    step = 0x110000 // 64
    core.pmap(shard_unicode, [(lo, min(lo + step, 0x110000)) for lo in range(0, 0x110000, step)],
              run.acc)
    dev = [(0, 0, 0)] + [(1, i, min(i + 20, 200)) for i in range(0, 200, 20)]
    if tier != "quick":
        dev += [(2, i, i + 1) for i in range(0, 200)]
    core.pmap(shard_deviate, dev, run.acc)
    run.acc.states = 0
    run.require(run.acc.classes.get("missing", 0) > 100, "no missing-name cases explored")
    run.require(run.acc.classes.get("syntax", 0) > 100, "no syntax cases explored")
    run.require(run.acc.classes.get("ok", 0) > 100, "no successful substitutions explored")
    return run


def replay(body):
    from ZConfig.substitution import isname
    from ZConfig.substitution import substitute
    case = body["case"]
    acc = core.Acc()
    env = EnvGuard()
    try:
        for _ in range(2):
            if "isname" in case:
                check_isname(case["isname"], acc, isname)
            else:
                check_string(case["string"], acc, env, substitute)
    finally:
        env.restore()
    for v in acc.violations.values():
        print("REPLAY violation:", v["kind"], "case=", v["case"], "observed=", v["observed"],
              "expected=", v["expected"])
    print("replayed: %d violation signature(s)" % len(acc.violations))
    return 1 if acc.violations else 0
