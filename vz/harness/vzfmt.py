"""Formatter factories used by C20 through the `formatter` key of a handler
section: a Formatter class whose constructor has no `style` parameter and a
plain function (the two shapes the logger component documents as supported
besides a class that takes `style`)."""
import logging


class StylelessFormatter(logging.Formatter):

    def __init__(self, fmt=None, datefmt=None):
        logging.Formatter.__init__(self, fmt=fmt, datefmt=datefmt, validate=False)


def styleless_formatter(fmt=None, datefmt=None):
    return StylelessFormatter(fmt=fmt, datefmt=datefmt)


class StyledFormatter(logging.Formatter):
    """Takes `style` like logging.Formatter; marks its output so that the check
    can tell that the configured class was really used."""

    def __init__(self, fmt=None, datefmt=None, style="%", validate=True):
        logging.Formatter.__init__(self, fmt=fmt, datefmt=datefmt, style=style,
                                   validate=validate)
