"""C06 - %include behaves as textual inclusion of a self-contained fragment.

Engine E3 over cut sets: for every seed text (accepted and rejected corpus
texts, %define texts) ALL sets of 1..n line ranges that are balanced with respect
to section nesting, pairwise disjoint or nested, are moved into real files
(same directory / sub-directory / parent directory of the includer, referenced
relatively) and ZConfig.loadConfig(outer file) is compared with
ZConfig.loadConfigFile(StringIO(original text)).  Negative space: every
unbalanced range as a fragment must be rejected.

Fold axis (resource identity): cut ranges with identical lines are stored ONCE,
so the same resource is included from several places of one load (siblings,
directly and through another fragment, twice inside a fragment, diamond, chain);
every folded layout is also loaded on a reused ConfigLoader right after a load of
the same URLs that was rejected inside the shared fragment (cycle / stray section
end).  See fold_structures(), check_folds().
"""
import io
import itertools
import os
import shutil
import tempfile

from vz import core
from vz.gen import corpus as C
from vz.gen import schema as M
from vz.harness import load as H
from vz.props.c15 import DEFINE_SCHEMA, DEFINE_TEXTS, classify

PLACES = ("same", "sub", "parent")


def depth_profile(lines):
    """nesting depth before each line and at the end (layout level)."""
    d = [0]
    for l in lines:
        k = classify(l)
        cur = d[-1]
        if k == "open":
            cur += 1
        elif k == "close":
            cur -= 1
        d.append(cur)
    return d


def balanced(lines, i, j):
    cur = 0
    for l in lines[i:j]:
        k = classify(l)
        if k == "open":
            cur += 1
        elif k == "close":
            cur -= 1
            if cur < 0:
                return False
    return cur == 0


def ranges(lines):
    n = len(lines)
    return [(i, j) for i in range(n) for j in range(i + 1, n + 1)]


def place_dir(includer_dir, place):
    if place == "same":
        return includer_dir, ""
    if place == "sub":
        return os.path.join(includer_dir, "sub dir"), "sub%20dir/"
    return os.path.dirname(includer_dir), "../"


class Scratch:
    def __init__(self):
        self.base = tempfile.mkdtemp(prefix="vz-c06-", dir="/dev/shm" if os.path.isdir("/dev/shm") else None)
        self.maindir = os.path.join(self.base, "p1", "p2", "p3")
        os.makedirs(os.path.join(self.maindir, "sub dir"))
        os.makedirs(os.path.join(self.base, "p1", "p2", "sub dir"))
        os.makedirs(os.path.join(self.base, "p1", "sub dir"))
        self.n = 0
        self.ns = 0          # folded structures built so far in this shard (rotates quick-tier choices)

    def write(self, d, name, lines):
        os.makedirs(d, exist_ok=True)
        p = os.path.join(d, name)
        with open(p, "w") as f:
            f.write("\n".join(lines) + ("\n" if lines else ""))
        return p

    def close(self):
        shutil.rmtree(self.base, ignore_errors=True)


def build(scr, lines, cuts, places):
    """Write the files for a cut set; cuts = list of (i, j, parent_index|None)
    with ranges relative to the ORIGINAL line numbering.  Returns main path."""
    scr.n += 1
    # children of each node (None = main), sorted by start
    kids = {}
    for idx, (i, j, par) in enumerate(cuts):
        kids.setdefault(par, []).append(idx)

    def emit(node, lo, hi, d):
        out = []
        pos = lo
        for idx in sorted(kids.get(node, []), key=lambda k: cuts[k][0]):
            i, j, _ = cuts[idx]
            out += lines[pos:i]
            fd, rel = place_dir(d, places[idx])
            name = "f%d_%d.conf" % (scr.n, idx)
            sub = emit(idx, i, j, fd)
            scr.write(fd, name, sub)
            out.append("  %include " + rel + name)
            pos = j
        out += lines[pos:hi]
        return out

    main = emit(None, 0, len(lines), scr.maindir)
    return scr.write(scr.maindir, "main%d.conf" % scr.n, main)


# ---------------------------------------------------------------------------
# fold axis: resource identity.  Cut ranges with identical lines are stored ONCE
# and the same resource is included from every place (a DAG of resources instead
# of a tree); files live in absolute directories and every reference is the
# relative path from the includer's directory.

DIRS = ("main", "sub", "parent")
FAULTS = ("cycle", "stray-close")
REPEAT_SCHEMA = """<schema>
  <sectiontype name="t"><multikey name="k"/><key name="p"/></sectiontype>
  <multikey name="k"/>
  <key name="p"/>
  <multisection type="t" name="*" attribute="ts"/>
</schema>
"""
REPEAT_ALPHABET = ("k a", "p 1", "%define d x", "k $d", "<t>", "</t>")


def abs_dir(scr, label):
    if label == "main":
        return scr.maindir
    if label == "sub":
        return os.path.join(scr.maindir, "sub dir")
    return os.path.dirname(scr.maindir)


def rel_ref(from_dir, to_dir, name):
    import urllib.parse
    rel = os.path.relpath(to_dir, from_dir)
    parts = [] if rel == "." else rel.split(os.sep)
    return "/".join([urllib.parse.quote(x) for x in parts] + [name])


def build_folded(scr, lines, cuts, classes, dirs, fault=None, stray="</x>", n=None):
    """Like build(), but cuts of the same class share one file (their emitted text
    must be identical) and dirs[class] is an absolute directory label.  `fault`
    appends one line to the file of class 0 (the shared leaf fragment): an
    %include of the main file ("cycle") or a section end the fragment has no
    opener for ("stray-close").  `n` = reuse the file names of layout number n.
    Returns main path."""
    if n is None:
        scr.n += 1
        n = scr.n
    kids = {}
    for idx, (i, j, par) in enumerate(cuts):
        kids.setdefault(par, []).append(idx)
    mainname = "main%d.conf" % n
    written = {}

    def emit(node, lo, hi, d):
        out = []
        pos = lo
        for idx in sorted(kids.get(node, []), key=lambda k: cuts[k][0]):
            i, j, _ = cuts[idx]
            out += lines[pos:i]
            c = classes[idx]
            fd = abs_dir(scr, dirs[c])
            name = "g%d_%d.conf" % (n, c)
            sub = emit(idx, i, j, fd)
            if c == 0 and fault == "cycle":
                sub = sub + ["%include " + rel_ref(fd, scr.maindir, mainname)]
            elif c == 0 and fault == "stray-close":
                sub = sub + [stray]
            if c in written:
                if written[c] != sub:
                    raise core.HarnessError("cuts of one class give different files: %r" % (cuts,))
            else:
                written[c] = sub
                scr.write(fd, name, sub)
            out.append("  %include " + rel_ref(d, fd, name))
            pos = j
        out += lines[pos:hi]
        return out

    main = emit(None, 0, len(lines), scr.maindir)
    return scr.write(scr.maindir, mainname, main)


def fold_structures(lines, bal, tier):
    """Every way (within the bounds) of cutting so that >= 2 cut ranges with identical
    lines become ONE resource: yields (kind, cuts, classes).  Class 0 is always the
    shared leaf fragment."""
    by = {}
    for r in bal:
        by.setdefault(tuple(lines[r[0]:r[1]]), []).append(r)
    for content in sorted(by):
        v = sorted(by[content])
        for b1, b2 in itertools.combinations(v, 2):
            if b1[1] > b2[0]:
                continue
            yield "fold-siblings", [b1 + (None,), b2 + (None,)], (0, 0)
            W1 = [c for c in bal if c[0] <= b1[0] and b1[1] <= c[1] and c != b1 and c[1] <= b2[0]]
            W2 = [c for c in bal if c[0] <= b2[0] and b2[1] <= c[1] and c != b2 and c[0] >= b1[1]]
            WB = [c for c in bal if c[0] <= b1[0] and b2[1] <= c[1]]
            for c in W1:          # reached through another fragment first, then directly
                yield "fold-via-then-direct", [c + (None,), b1 + (0,), b2 + (None,)], (1, 0, 0)
            for c in W2:          # directly first, then through another fragment
                yield "fold-direct-then-via", [b1 + (None,), c + (None,), b2 + (1,)], (0, 1, 0)
            for c in WB:          # twice inside one fragment
                yield "fold-siblings-in-fragment", [c + (None,), b1 + (0,), b2 + (0,)], (1, 0, 0)
            for c1 in W1:
                for c2 in W2:
                    if c1[1] > c2[0]:
                        continue
                    cuts = [c1 + (None,), b1 + (0,), c2 + (None,), b2 + (2,)]
                    yield "fold-diamond", cuts, (1, 0, 2, 0)
                    if lines[c1[0]:c1[1]] == lines[c2[0]:c2[1]] and b1[0] - c1[0] == b2[0] - c2[0]:
                        # the wrapper is a repeated run as well: one wrapper file, included twice,
                        # which includes the leaf
                        yield "fold-chain", cuts, (1, 0, 1, 0)
        if tier != "quick" or len(lines) <= 5:
            for b1, b2, b3 in itertools.combinations(v, 3):
                if b1[1] <= b2[0] and b2[1] <= b3[0]:
                    yield "fold-siblings-3", [b1 + (None,), b2 + (None,), b3 + (None,)], (0, 0, 0)
    if tier != "quick":
        # two different repeated runs folded in the same layout
        reps = []
        for content in sorted(by):
            for b1, b2 in itertools.combinations(sorted(by[content]), 2):
                if b1[1] <= b2[0]:
                    reps.append((b1, b2))
        for (a1, a2), (b1, b2) in itertools.combinations(reps, 2):
            rs = sorted([a1, a2, b1, b2])
            if all(rs[x][1] <= rs[x + 1][0] for x in range(3)):
                yield "fold-two-classes", [a1 + (None,), a2 + (None,), b1 + (None,), b2 + (None,)], (0, 0, 1, 1)


def dir_assignments(nclasses, tier, ns=0):
    """Absolute directory per file class.  k = 1: all 3.  thorough: all 9 for k = 2, for k = 3 the 9
    of 27 assignments whose index sum + ns is divisible by 3 (every directory pair for leaf x each
    wrapper; all 27 over consecutive structures).  quick, k >= 2: three assignments per structure -
    the shared leaf in each of the 3 directories, the wrapper(s) shifted by an offset that rotates
    with the structure number `ns`, so that all 3^k assignments are used over consecutive
    structures."""
    full = list(itertools.product(DIRS, repeat=nclasses))
    if nclasses == 1 or (tier != "quick" and nclasses == 2):
        return full
    if tier != "quick":
        return [d for d in full if (sum(DIRS.index(x) for x in d) + ns) % 3 == 0]
    out = []
    for d0 in range(3):
        ds = [d0]
        q = ns
        for _ in range(nclasses - 1):
            ds.append((d0 + q) % 3)
            q //= 3
        out.append(tuple(DIRS[x] for x in ds))
    return out


def stray_close_for(lines, at):
    st = []
    for l in lines[:at]:
        k = classify(l)
        if k == "open":
            st.append(l.strip()[1:-1].split()[0] if l.strip()[1:-1].split() else "x")
        elif k == "close" and st:
            st.pop()
    return "</%s>" % (st[-1] if st else "x")


def repeat_seeds(tier):
    """All texts of 2..N lines over REPEAT_ALPHABET that are balanced as a layout and
    contain a run of lines twice (two disjoint balanced ranges with identical lines)."""
    N = 5 if tier == "quick" else 6
    out = []
    for n in range(2, N + 1):
        for combo in itertools.product(REPEAT_ALPHABET, repeat=n):
            lines = list(combo)
            if not balanced(lines, 0, n):
                continue
            seen = {}
            rep = False
            for (i, j) in ranges(lines):
                if balanced(lines, i, j):
                    key = combo[i:j]
                    if key in seen and seen[key] <= i:
                        rep = True
                        break
                    seen.setdefault(key, j)
            if rep:
                out.append(lines)
    return out


LAST_REJECTION = [None]      # message of the most recent rejection (shown by replay only)


def outcome_file(sch, path):
    import ZConfig
    try:
        cfg, _ = ZConfig.loadConfig(sch, path)
        return ("tree", H.tree(cfg))
    except ZConfig.ConfigurationError as e:
        LAST_REJECTION[0] = "%s: %s" % (type(e).__name__, e)
        return ("rejected",)
    except Exception as e:
        return ("internal", core.exc_desc(e))


def outcome_text(sch, text):
    r = H.load(sch, text)
    if r[0] == "ok":
        return ("tree", H.tree(r[1]))
    if r[0] == "rejected":
        return ("rejected",)
    return ("internal", core.exc_desc(r[1]))


def check_seed(scr, sch, lines, acc, mid, tier, cutsets=True):
    text = "\n".join(lines) + "\n"
    base = outcome_text(sch, text)
    acc.ev()
    if base[0] == "internal":
        acc.extra["seed_internal_errors(C07's)"] += 1
        return
    acc.cls("seed-" + base[0])
    acc.states += 1
    prof = depth_profile(lines)
    has_define = any(classify(l) == "define" for l in lines)
    bal = [(i, j) for (i, j) in ranges(lines) if balanced(lines, i, j)]
    unbal = [(i, j) for (i, j) in ranges(lines) if not balanced(lines, i, j)]

    def run_case(cuts, places, expect, kind):
        path = build(scr, lines, cuts, places)
        got = outcome_file(sch, path)
        acc.ev()
        acc.transitions += 1
        nontriv = any(prof[i] > 0 for i, j, p in cuts) or any(p is not None for i, j, p in cuts) or has_define
        if nontriv:
            acc.nt()
        case = {"member": mid, "text": text, "cuts": [list(c) for c in cuts], "places": list(places)}
        acc.sample(lambda: dict(case, kind=kind))
        acc.cls("%s:%s" % (kind, got[0]))
        if got[0] == "internal":
            acc.violation("internal-error", case, got[1], expect[0],
                          tags={"kind": "internal-error", "exc": got[1]["class"], "where": got[1]["where"]})
        elif got != expect:
            acc.violation("include-differs-from-inlined-text" if kind != "unbalanced" else
                          "unbalanced-fragment-accepted", case, [got[0], repr(got[1:])[:300]],
                          [expect[0], repr(expect[1:])[:300]],
                          tags={"kind": kind, "places": list(places), "nested": any(p is not None for _, _, p in cuts),
                                "define": has_define, "seed": base[0]})

    check_folds(scr, sch, lines, acc, mid, tier, base, bal, has_define)
    if not cutsets:
        return
    for (i, j) in bal:
        for pl in PLACES:
            run_case([(i, j, None)], (pl,), base, "single")
    for (i, j) in unbal:
        run_case([(i, j, None)], ("same",), ("rejected",), "unbalanced")
    pair_places = list(itertools.product(PLACES, repeat=2)) if tier != "quick" else \
        [("same", "sub"), ("sub", "parent"), ("parent", "same"), ("sub", "sub")]
    for a in range(len(bal)):
        for b in range(len(bal)):
            (i, j), (k, l) = bal[a], bal[b]
            if j <= k:                                   # disjoint, a before b
                for pls in pair_places:
                    run_case([(i, j, None), (k, l, None)], pls, base, "pair-disjoint")
            elif i <= k and l <= j and (i, j) != (k, l):  # b nested in a
                for pls in pair_places:
                    run_case([(i, j, None), (k, l, 0)], pls, base, "pair-nested")
    # an outer fragment (in another directory) that itself includes two fragments one after the other:
    # the second inner include must still resolve against the OUTER fragment, not against whatever was
    # parsed last
    shapes = [("sub", "same", "same"), ("parent", "sub", "same"), ("sub", "sub", "parent")]
    if tier != "quick":
        shapes += [("same", "sub", "sub"), ("parent", "parent", "same"), ("sub", "parent", "sub")]
    for (i, j) in bal:
        inner = [(k, l) for (k, l) in bal if i <= k and l <= j and (k, l) != (i, j)]
        for (k, l), (m, n) in itertools.combinations(inner, 2):
            if l <= m:
                for pls in shapes:
                    run_case([(i, j, None), (k, l, 0), (m, n, 0)], pls, base, "outer-with-two-inner")
    if tier != "quick" and len(lines) <= 6:
        for a, b, c in itertools.permutations(range(len(bal)), 3):
            (i, j), (k, l), (m, n) = bal[a], bal[b], bal[c]
            if i <= k and l <= j and (i, j) != (k, l) and k <= m and n <= l and (k, l) != (m, n):
                for pls in (("sub", "parent", "sub"), ("parent", "parent", "same"), ("same", "sub", "parent")):
                    run_case([(i, j, None), (k, l, 0), (m, n, 1)], pls, base, "triple-nested")
            elif j <= k and l <= m:
                run_case([(i, j, None), (k, l, None), (m, n, None)], ("same", "sub", "parent"), base,
                         "triple-disjoint")


def outcome_loader(ld, path):
    import ZConfig
    try:
        cfg, _ = ld.loadURL(path)
        return ("tree", H.tree(cfg))
    except ZConfig.ConfigurationError as e:
        LAST_REJECTION[0] = "%s: %s" % (type(e).__name__, e)
        return ("rejected",)
    except Exception as e:
        return ("internal", core.exc_desc(e))


def fold_steps(scr, sch, ld, lines, cuts, classes, dirs, history, faults=FAULTS):
    """Execute one folded layout: -> list of (step, outcome, rejection message).  'fresh' = ZConfig.loadConfig of
    the layout; with `history`, for every fault: the layout with the fault line in the shared
    fragment loaded on the reused loader `ld` ('fault:<f>'), then the fault-free layout written to
    the SAME paths loaded on `ld` again ('after:<f>')."""
    out = []
    path = build_folded(scr, lines, cuts, classes, dirs)
    def rec(step, got):
        out.append((step, got, LAST_REJECTION[0] if got[0] == "rejected" else ""))

    rec("fresh", outcome_file(sch, path))
    if history:
        stray = stray_close_for(lines, [c for c, k in zip(cuts, classes) if k == 0][0][0])
        for f in faults:
            p2 = build_folded(scr, lines, cuts, classes, dirs, fault=f, stray=stray, n=scr.n)
            assert p2 == path
            rec("fault:" + f, outcome_loader(ld, path))
            build_folded(scr, lines, cuts, classes, dirs, n=scr.n)
            rec("after:" + f, outcome_loader(ld, path))
    return out


def check_folds(scr, sch, lines, acc, mid, tier, base, bal, has_define):
    import ZConfig.loader
    text = "\n".join(lines) + "\n"
    # one loader object per seed, reused by every history load of the seed (a loader that has
    # seen %import carries a private schema: not the subject here)
    ld = None if any(classify(l) == "directive" for l in lines) else ZConfig.loader.ConfigLoader(sch)
    nstruct = 0
    for kind, cuts, classes in fold_structures(lines, bal, tier):
        nstruct += 1
        scr.ns += 1
        ns = scr.ns
        ncls = max(classes) + 1
        assigns = dir_assignments(ncls, tier, ns)
        for di, dirs in enumerate(assigns):
            # the history steps on one directory assignment per structure, rotating with the
            # structure number so that every assignment is used
            history = ld is not None and di == ns % len(assigns)
            case = {"member": mid, "text": text, "fold": True, "cuts": [list(c) for c in cuts],
                    "classes": list(classes), "dirs": list(dirs), "history": history}
            acc.current = case
            # quick: one fault per structure, alternating; thorough: both
            faults = FAULTS if tier != "quick" else (FAULTS[(ns // 3) % 2],)
            case["faults"] = list(faults)
            steps = fold_steps(scr, sch, ld, lines, cuts, classes, dirs, history, faults)
            for step, got, _ in steps:
                acc.ev()
                acc.transitions += 1
                acc.nt()
                expect = ("rejected",) if step.startswith("fault:") else base
                sk = step.split(":")[0]
                acc.cls("%s/%s:%s" % (kind, sk, got[0]))
                # coverage counters by EXPECTED outcome (independent of what the implementation did)
                acc.extra["expected %s/%s:%s" % (kind, sk, expect[0])] += 1
                acc.extra["expected fold/%s:%s" % (sk, expect[0])] += 1
                if got[0] == "internal":
                    acc.violation("internal-error", dict(case, step=step), got[1], expect[0],
                                  tags={"kind": "internal-error", "exc": got[1]["class"], "where": got[1]["where"],
                                        "fold": kind, "step": step})
                elif got != expect:
                    vk = {"fresh": "shared-fragment-differs-from-inlined-text",
                          "fault": "faulty-shared-fragment-accepted",
                          "after": "reused-loader-differs-after-rejected-load"}[sk]
                    acc.violation(vk, dict(case, step=step), [got[0], repr(got[1:])[:300]],
                                  [expect[0], repr(expect[1:])[:300]],
                                  tags={"kind": kind, "step": step, "dirs": list(dirs), "define": has_define,
                                        "seed": base[0]})
            acc.sample(lambda: dict(case, kind=kind))
    if nstruct:
        acc.extra["seeds-with-a-repeated-run"] += 1


def define_seeds():
    A = ["%define a x", "%define a y", "%define B $a", "%define c $a$b", "u $a", "u ${b}", "u $c", "<s>", "</s>"]
    out = [t.rstrip("\n").split("\n") for t in DEFINE_TEXTS]
    for n in (3, 4):
        for combo in itertools.product(A, repeat=n):
            if not any(c.startswith("%define") for c in combo):
                continue
            if n == 4 and not (combo[0].startswith("%define") and combo[3].startswith("u ")
                               and sum(c.startswith("%define") for c in combo) >= 2):
                continue
            d = 0
            ok = True
            for c in combo:
                if c == "<s>":
                    d += 1
                elif c == "</s>":
                    d -= 1
                    if d < 0:
                        ok = False
            if ok and d == 0:
                out.append(list(combo))
    return out


def shard(member, acc):
    kind, tier = member[0], member[-1]
    scr = Scratch()
    try:
        if kind == "corpus":
            _, name, S, root, cdepth, lean = member[:6]
            xml = M.render(S)
            sch = H.load_schema(xml)
            mid = {"name": name, "schema": xml}
            na = nr = 0
            cap = 6 if tier == "quick" else 40
            for events, d in C.nodes(S, root, cdepth, lean):
                if d.verdict == "U" or len(events) < 3:
                    continue
                text = H.render_events(events)
                lines = text.rstrip("\n").split("\n")
                if len(lines) > (7 if tier == "quick" else 9):
                    continue
                if d.verdict == "A":
                    na += 1
                    if na > cap:
                        continue
                else:
                    nr += 1
                    if nr > cap:
                        continue
                check_seed(scr, sch, lines, acc, mid, tier)
        else:
            _, name, xml, seeds = member[:4]
            sch = H.load_schema(xml)
            mid = {"name": name, "schema": xml}
            for lines in seeds:
                check_seed(scr, sch, lines, acc, mid, tier, cutsets=(kind != "repeat"))
    finally:
        scr.close()
    acc.traces = acc.transitions
    return acc


def run(tier):
    mem = [("corpus",) + m + (tier,) for m in C.members(tier)]
    ds = define_seeds()
    step = 40
    for i in range(0, len(ds), step):
        mem.append(("fixed", "define-%d" % i, DEFINE_SCHEMA, ds[i:i + step], tier))
    rs = repeat_seeds(tier)
    for i in range(0, len(rs), step):
        mem.append(("repeat", "repeat-%d" % i, REPEAT_SCHEMA, rs[i:i + step], tier))
    run = core.Run(
        "C06", tier, "model_checking",
        rule="seeds = accepted and rejected corpus texts (3..%d lines, capped per schema) and %d %%define texts "
             "(all 3-/4-line texts over an 8-line define/use/section alphabet); per seed every balanced line range "
             "as a fragment in 3 placements (same / sub-directory with a space in its name / parent directory), "
             "every unbalanced range (must be rejected), every ordered pair of disjoint or nested balanced ranges x "
             "%s placement pairs%s; real files, ZConfig.loadConfig(path) vs loadConfigFile(StringIO(original)).  "
             "FOLD AXIS (resource identity): for every seed above and for %d repeat seeds (all texts of 2..%d lines "
             "over the %d-line alphabet %r that are layout-balanced and contain a run of lines twice), every pair of "
             "disjoint balanced ranges with IDENTICAL lines becomes ONE file included from both places: both at the "
             "top of the main file (fold-siblings%s), one directly and one through any wrapper fragment in either "
             "order (fold-via-then-direct, fold-direct-then-via), both inside any one wrapper "
             "(fold-siblings-in-fragment), each inside its own wrapper (fold-diamond; fold-chain when the wrappers are "
             "identical too and are folded as well)%s; files in absolute directories main / sub / parent, %s, references = relative path from the includer's directory.  Steps per "
             "folded layout: fresh ZConfig.loadConfig == inlined text; and (%s) on ONE ConfigLoader per seed: the "
             "layout with a fault line appended to the shared fragment (%%include of the main file = cycle; a section "
             "end the fragment did not open) must be rejected, then the fault-free layout on the same paths must again "
             "equal the inlined text.  "
             "states = seeds, transitions = loads of include layouts.  Non-trivial = a range inside a section, a "
             "nested cut, a seed with %%define, or a folded layout (a resource read more than once in one load)."
             % (7 if tier == "quick" else 9, len(ds), "4" if tier == "quick" else "9",
                "" if tier == "quick" else ", triples for seeds <= 6 lines",
                len(rs), 5 if tier == "quick" else 6, len(REPEAT_ALPHABET), list(REPEAT_ALPHABET),
                "; three at once for seeds <= 5 lines" if tier == "quick" else "; every three at once",
                "" if tier == "quick" else ", two different repeated runs folded at once (fold-two-classes)",
                "all 3 for one file, for k = 2, 3 files three assignments per structure (leaf in each directory, "
                "wrappers shifted by an offset rotating over consecutive structures so that all 3^k occur)"
                if tier == "quick" else "all 3 / 9 assignments for 1 / 2 files, 9 of 27 for 3 files (every directory "
                "pair for leaf x each wrapper, rotating so that all 27 occur over consecutive structures)",
                "on one directory assignment per structure, rotating; " +
                ("one of the two faults per structure, alternating" if tier == "quick" else "both faults")),
        bounds={"members": len(mem), "max_cuts": 2 if tier == "quick" else 3, "max_cuts_folded": 4,
                "repeat_seeds": len(rs), "repeat_seed_max_lines": 5 if tier == "quick" else 6,
                "fold_faults": list(FAULTS), "fold_dirs": list(DIRS)},
        assumptions=["include arguments are written as URL-quoted relative references",
                     "folded cuts have exactly identical lines (indentation included)"])
    core.pmap(shard, mem, run.acc, shard_budget=3000.0)
    a = run.acc
    run.require(a.classes.get("single:tree", 0) > 200 and a.classes.get("pair-nested:tree", 0) > 100,
                "few accepted include layouts")
    run.require(a.classes.get("unbalanced:rejected", 0) > 200, "few unbalanced fragments")
    x = a.extra
    for k in ("fold-siblings", "fold-via-then-direct", "fold-direct-then-via", "fold-siblings-in-fragment",
              "fold-diamond", "fold-chain", "fold-siblings-3"):
        run.require(x.get("expected %s/fresh:tree" % k, 0) > 50,
                    "fold axis: few layouts of kind %s with an accepted seed (a resource included twice in one load)" % k)
        run.require(x.get("expected %s/after:tree" % k, 0) > 10,
                    "fold axis: few reloads of an accepted layout after a rejected load for kind %s" % k)
    run.require(x.get("expected fold/fault:rejected", 0) > 1000, "fold axis: few faulty shared fragments")
    run.require(x.get("expected fold/fresh:rejected", 0) > 500, "fold axis: few rejected seeds with a folded layout")
    run.require(x.get("seeds-with-a-repeated-run", 0) > 1000, "fold axis: few seeds with a repeated run")
    if tier != "quick":
        run.require(x.get("expected fold-two-classes/fresh:tree", 0) > 50, "fold axis: few two-class layouts")
    return run


def replay_fold(body):
    import ZConfig.loader
    case = body["case"]
    rc = 0
    for _ in range(2):
        scr = Scratch()
        try:
            sch = H.load_schema(case["member"]["schema"])
            lines = case["text"].rstrip("\n").split("\n")
            cuts = [tuple(c) for c in case["cuts"]]
            exp = outcome_text(sch, case["text"])
            ld = ZConfig.loader.ConfigLoader(sch)
            steps = fold_steps(scr, sch, ld, lines, cuts, tuple(case["classes"]), tuple(case["dirs"]),
                               True, tuple(case.get("faults") or FAULTS))
            for dp, dn, fn in os.walk(scr.base):
                for f in sorted(fn):
                    print("--- %s\n%s" % (os.path.relpath(os.path.join(dp, f), scr.base),
                                          open(os.path.join(dp, f)).read()), end="")
            print("inlined text          :", exp[0], repr(exp[1:])[:300])
            for step, got, msg in steps:
                want = ("rejected",) if step.startswith("fault:") else exp
                bad = got != want
                print("%-22s: %s %s%s" % (step + (" (reused loader)" if step != "fresh" else ""), got[0],
                                          msg.replace(scr.base, "<tmp>") if msg else repr(got[1:])[:300],
                                          "   <-- differs" if bad else ""))
                if bad and step == case.get("step"):
                    rc = 1
        finally:
            scr.close()
    return rc


def replay(body):
    case = body["case"]
    if case.get("fold"):
        return replay_fold(body)
    rc = 0
    for _ in range(2):
        scr = Scratch()
        try:
            sch = H.load_schema(case["member"]["schema"])
            lines = case["text"].rstrip("\n").split("\n")
            cuts = [tuple(c) for c in case["cuts"]]
            path = build(scr, lines, cuts, case["places"])
            got = outcome_file(sch, path)
            exp = outcome_text(sch, case["text"])
            for dp, dn, fn in os.walk(scr.base):
                for f in fn:
                    print("--- %s\n%s" % (os.path.relpath(os.path.join(dp, f), scr.base), open(os.path.join(dp, f)).read()), end="")
            print("with includes:", got[0], repr(got[1:])[:300])
            print("inlined     :", exp[0], repr(exp[1:])[:300], "(expected %s)" % body["expected"][0])
            if got[0] != body["expected"][0] or (got[0] == "tree" and got != exp):
                rc = 1
        finally:
            scr.close()
    return rc
