"""Reference model of the configuration line grammar (C03), hand-written
scanner, no regular expressions, nothing shared with ZConfig.cfgparser.

parse(text) -> Result(events, error)
  events: list of
     ("start", type, name|None, empty_form: bool, lineno)
     ("end", type, lineno)                      (only for the long form)
     ("value", key, value, lineno)
     ("import", pkg, lineno)
     ("include", arg, lineno)
     ("define", name_lower, expanded_value, lineno)
  error: None or (lineno, frozenset(kinds)) with kinds among
     "syntax"       ConfigurationSyntaxError
     "substsyntax"  SubstitutionSyntaxError
     "missing"      SubstitutionReplacementError
  (more than one kind = the statement does not fix which of several faults on
  the same line is reported first)
"""
from vz.ref import subst as S


def ws(c):
    return c.isspace()


def strip(s):
    i, j = 0, len(s)
    while i < j and ws(s[i]):
        i += 1
    while j > i and ws(s[j - 1]):
        j -= 1
    return s[i:j]


def rstrip(s):
    j = len(s)
    while j > 0 and ws(s[j - 1]):
        j -= 1
    return s[:j]


def run(s, i):
    """end of the maximal run of characters that are neither whitespace nor parentheses"""
    n = len(s)
    while i < n and not ws(s[i]) and s[i] not in "()":
        i += 1
    return i


def skipws(s, i):
    n = len(s)
    while i < n and ws(s[i]):
        i += 1
    return i


def split_key_value(s):
    """'key value' split of a stripped, non-empty string; None if it has no key."""
    k = run(s, 0)
    if k == 0:
        return None
    j = skipws(s, k)
    return s[:k], s[j:]


def parse_header(inner):
    """inner = text between '<' and '>' -> (type, name|None, empty) or None."""
    empty = False
    if inner[-1:] == "/":
        empty = True
        inner = inner[:-1]
    inner = rstrip(inner)
    i = run(inner, 0)
    if i == 0:
        return None
    typ = inner[:i]
    if i == len(inner):
        return typ, None, empty
    j = skipws(inner, i)
    if j == i:
        return None
    k = run(inner, j)
    if k == j or k != len(inner):
        return None
    return typ, inner[j:k], empty


class Result:
    __slots__ = ("events", "error", "unspec", "stackdepth", "defs")

    def __init__(self):
        self.events = []
        self.error = None
        self.unspec = False
        self.stackdepth = 0
        self.defs = None

    @property
    def ok(self):
        return self.error is None


def split_lines(text):
    """Lines as a line-oriented reader splitting on '\\n' sees them."""
    if text == "":
        return []
    lines = text.split("\n")
    if lines[-1] == "":
        lines.pop()
    return lines


def parse(text, env=None, on_define="apply", on_include="record", defines=None):
    """on_define: 'apply' | 'refuse' (schema-less loader);
    on_include: 'record' | 'refuse'.  'refuse' ends the parse with error kind
    'notimplemented'."""
    res = Result()
    space = S.DefineSpace()
    if defines is not None:
        space.defs = defines
    res.defs = space.defs
    envf = env or (lambda n: None)
    stack = []
    lineno = 0

    def fail(*kinds):
        res.error = (lineno, frozenset(kinds))
        res.stackdepth = len(stack)
        return res

    def expand(text_):
        r = S.substitute(text_, space.lookup, envf)
        if r[0] == S.SAME:
            return "ok", text_
        if r[0] == S.OK:
            return "ok", r[1]
        if r[0] == S.SYNTAX:
            return "substsyntax", None
        if r[0] == S.MISSING:
            return "missing", r[1]
        return "unspec", None

    for raw in split_lines(text):
        lineno += 1
        line = strip(raw)
        if line == "" or line[0] == "#":
            continue
        if line[:2] == "</":
            if line[-1] != ">":
                return fail("syntax")
            typ = rstrip(line[2:-1]).lower()
            if not stack or stack[-1] != typ:
                return fail("syntax")
            stack.pop()
            res.events.append(("end", typ, lineno))
        elif line[0] == "<":
            if line[-1] != ">":
                return fail("syntax")
            h = parse_header(line[1:-1])
            if h is None:
                return fail("syntax")
            typ, name, empty = h
            typ = typ.lower()
            if name is not None:
                name = name.lower()
            res.events.append(("start", typ, name, empty, lineno))
            if not empty:
                stack.append(typ)
        elif line[0] == "%":
            kv = split_key_value(line[1:])
            if kv is None:
                return fail("syntax")
            dname, arg = kv
            if dname not in ("define", "import", "include"):
                return fail("syntax")
            if arg == "":
                return fail("syntax")
            if dname == "define":
                if on_define == "refuse":
                    return fail("notimplemented")
                kv2 = split_key_value_ws(arg)
                name, value = kv2
                r = space.define(name, value)
                if r == "unspec":
                    res.unspec = True
                    return fail("syntax", "substsyntax", "missing")
                if r != "ok":
                    causes = r if isinstance(r, list) else [r]
                    kinds = [c if isinstance(c, str) else c[0] for c in causes]
                    return fail(*kinds)
                res.events.append(("define", name.lower(), space.defs[name.lower()], lineno))
            else:
                st, val = expand(arg)
                if st == "unspec":
                    res.unspec = True
                    return fail("syntax", "substsyntax", "missing")
                if st != "ok":
                    return fail(st)
                if dname == "include":
                    if on_include == "refuse":
                        return fail("notimplemented")
                    res.events.append(("include", val, lineno))
                else:
                    res.events.append(("import", val, lineno))
        else:
            kv = split_key_value(line)
            if kv is None:
                return fail("syntax")
            key, value = kv
            if value != "":
                st, value = expand(value)
                if st == "unspec":
                    res.unspec = True
                    return fail("syntax", "substsyntax", "missing")
                if st != "ok":
                    return fail(st)
            res.events.append(("value", key, value, lineno))
    if stack:
        return fail("syntax")
    return res


def split_key_value_ws(arg):
    """%define argument: first whitespace-delimited word, then the rest with
    its leading whitespace removed ('' when absent)."""
    i = 0
    n = len(arg)
    while i < n and not ws(arg[i]):
        i += 1
    name = arg[:i]
    j = skipws(arg, i)
    return name, arg[j:]


def to_tree(events):
    """Nested structure the schema-less loader should build:
    {"type","name","keys":{key:[values]},"sections":[...],"imports":[...]}"""
    top = {"type": "", "name": "", "keys": {}, "sections": [], "imports": []}
    stack = [top]
    for ev in events:
        k = ev[0]
        if k == "start":
            sec = {"type": ev[1], "name": ev[2], "keys": {}, "sections": []}
            stack[-1]["sections"].append(sec)
            if not ev[3]:
                stack.append(sec)
        elif k == "end":
            stack.pop()
        elif k == "value":
            stack[-1]["keys"].setdefault(ev[1], []).append(ev[2])
        elif k == "import":
            if ev[1] not in top["imports"]:
                top["imports"].append(ev[1])
    return top
