"""C20 - logger sections produce exactly the configured logging setup, once.

Five exhaustively enumerated spaces (nothing is sampled):

 (a) the logging_level datatype on every documented name x 4 letter cases,
     every integer -2..52, junk and non-canonical integer spellings;
 (b) one <logfile> section: path x max-size x old-files x when x interval x
     delay x encoding x level (full product) against the handler-class decision
     table of vz.ref.logmodel;
 (c) <logger>/<eventlog> sections with 0..3 handlers from a 6-entry menu x
     propagate x level spelling (also through ZConfig.configureLoggers);
 (d) format strings: every LogRecord field x conversion of the four styles, with
     and without arbitrary-fields, escapes, field-less and unknown-field formats,
     custom formatter factories, date formats;
 (e) operation sequences over {call factory j, reopenFiles(), closeFiles(), drop
     the last reference to handler j}: BFS over the canonical implementation
     state (states/transitions) plus every sequence of the bound length with
     the registry model run in lock step.

Oracle: vz.ref.logmodel (level table, decision table, Python's own rendering of
a format, registry model).
"""
import collections
import gc
import io
import itertools
import logging
import os
import shutil
import sys
import tempfile
import weakref

from vz import core
from vz.ref import logmodel as R

SCHEMA_XML = """<schema>
<import package='ZConfig.components.logger'/>
<multisection type='ZConfig.logger.log' name='*' attribute='loggers'/>
<multisection type='ZConfig.logger.handler' name='*' attribute='handlers'/>
</schema>"""
URL = "file:///v/c20.conf"
PREFIX = "vz"

_SCHEMA = None


def schema():
    global _SCHEMA
    if _SCHEMA is None:
        import ZConfig
        _SCHEMA = ZConfig.loadSchemaFile(io.StringIO(SCHEMA_XML), "file:///v/c20-schema.xml")
    return _SCHEMA


def load(text):
    """-> ('ok', config) | ('refused', {class, family})"""
    import ZConfig
    try:
        cfg, _ = ZConfig.loadConfigFile(schema(), io.StringIO(text), URL)
    except Exception as e:
        d = core.exc_desc(e)
        d["family"] = isinstance(e, ZConfig.ConfigurationError)
        return "refused", d
    return "ok", cfg


def cfg_value(s):
    """A value as it must be written in configuration text ('$' is ZConfig's
    substitution character)."""
    return s.replace("$", "$$")


# ----------------------------------------------------------------------------
# isolation of the process-wide logging state

class Env:
    def __enter__(self):
        from ZConfig.components.logger import loghandler
        self.lh = loghandler
        self.dir = tempfile.mkdtemp(prefix="vz-c20-", dir="/dev/shm")
        self.root = logging.getLogger()
        self.saved_root = (list(self.root.handlers), self.root.level)
        self.saved_keys = set(logging.Logger.manager.loggerDict)
        self.saved_registry = list(loghandler._reopenable_handlers)
        self.tracked = []
        self.dirty = False
        schema()
        gc.collect()
        gc.freeze()          # makes the gc.collect() of the drop operation cheap
        return self

    def path(self, token):
        if token.startswith("FILE:"):
            self.dirty = True
            return os.path.join(self.dir, token[5:])
        return token

    def track(self, h):
        self.tracked.append(weakref.ref(h))

    def begin(self):
        self.root.handlers[:] = []
        self.lh._reopenable_handlers[:] = []
        self.tracked = []

    def end(self):
        mgr = logging.Logger.manager
        todo = [w() for w in self.tracked]
        todo += list(self.root.handlers)
        for k in list(mgr.loggerDict):
            if k not in self.saved_keys and (k == PREFIX or k.startswith(PREFIX + ".")):
                lg = mgr.loggerDict[k]
                todo += list(getattr(lg, "handlers", ()))
        for h in todo:
            if h is not None:
                try:
                    h.close()
                except Exception:
                    pass
        del todo
        self.tracked = []
        for k in list(mgr.loggerDict):
            if k not in self.saved_keys and (k == PREFIX or k.startswith(PREFIX + ".")):
                del mgr.loggerDict[k]
        self.root.handlers[:] = self.saved_root[0]
        self.root.setLevel(self.saved_root[1])
        self.lh._reopenable_handlers[:] = self.saved_registry
        if self.dirty:
            for n in os.listdir(self.dir):
                try:
                    os.unlink(os.path.join(self.dir, n))
                except OSError:
                    pass
            self.dirty = False

    def __exit__(self, *a):
        try:
            self.end()
        finally:
            shutil.rmtree(self.dir, ignore_errors=True)
            gc.unfreeze()
        return False


def case_size(case):
    """Ordering of violating cases: fewer / simpler options first."""
    n = 0
    for k, v in case.items():
        if k == "opts":
            n += case_size(v)
        elif k == "handlers":
            n += 100 * len(v) + sum(v)
        elif k in ("part", "kind", "via", "path"):
            continue
        elif v is not None:
            n += 10 + len(str(v))
    return n


# ----------------------------------------------------------------------------
# (a) levels

def case_variants(name):
    alt = "".join(c.upper() if i % 2 else c for i, c in enumerate(name))
    return [name, name.upper(), name.title(), alt]


LEVEL_JUNK = ["", "foo", "warnx", "xwarn", "war", "warn ing", "information", "notse", "al", "1.5",
              "1e1", "0x10", "ten", "-", "--1", "5-", "none", "None", "true", "crit", "50.0", "ınfo",
              "INFÖ"]
LEVEL_NONCANONICAL = ["+5", "05", "007", " 5", "5 ", "1_0", "-0", "٥", "+51", "051", "-01", "5_1", "00"]


def level_space():
    out = []
    for name, _ in R.LEVEL_TABLE:
        out += case_variants(name)
    out += [str(i) for i in range(-2, 53)]
    out += LEVEL_JUNK + LEVEL_NONCANONICAL
    return out


def level_space_config():
    """The subset that can be written as a value in configuration text."""
    return [s for s in level_space() if s and s == s.strip() and "$" not in s]


def check_a(case, env, acc):
    from ZConfig.components.logger.datatypes import logging_level
    s = case["value"]
    acc.current = case
    verdict, num, clause = R.classify_level(s)
    acc.ev()
    acc.clause(clause)
    try:
        obs = ("ok", logging_level(s))
    except ValueError:
        obs = ("ValueError",)
    except Exception as e:
        obs = ("raises", core.exc_desc(e))
    acc.cls("a:" + obs[0])
    if verdict == R.ACCEPT:
        if obs[0] != "ok" or type(obs[1]) is not int or obs[1] != num:
            acc.violation("level-wrong-number", case, obs, num,
                          tags={"kind": "level-wrong-number", "name": R.ascii_lower(s), "part": "a"})
    elif verdict == R.REFUSE:
        if obs[0] != "ValueError":
            acc.violation("level-not-rejected", case, obs, "ValueError",
                          tags={"kind": "level-not-rejected", "clause": clause, "part": "a"})
    else:
        if not (obs[0] == "ValueError" or (obs[0] == "ok" and type(obs[1]) is int and 0 <= obs[1] <= 50)):
            acc.violation("level-totality", case, obs, "ValueError or 0..50",
                          tags={"kind": "level-totality", "part": "a"})
    acc.sample(lambda: {"part": "a", "value": s, "expected": [verdict, num], "observed": obs})


# ----------------------------------------------------------------------------
# (b) one logfile section

B_PATHS = ["STDOUT", "STDERR", "FILE:b.log"]
B_MAX = [None, "0", "5kb"]
B_OLD = [None, "0", "3"]
B_WHEN = [None, "D", "midnight"]
B_INT = [None, "2"]
B_DELAY = [None, "true", "false"]
B_ENC = [None, "utf-8", "latin-1"]
B_LEVEL = [None, "warn", "17", "ALL", "51", "-1"]
B_KEYS = ("max_size", "old_files", "when", "interval", "delay", "encoding")
OPT_KEY = {"max_size": "max-size", "old_files": "old-files", "when": "when", "interval": "interval",
           "delay": "delay", "encoding": "encoding", "level": "level", "format": "format",
           "style": "style", "path": "path"}


def logfile_text(env, opts, level=None, fmt=None, style=None, extra=()):
    lines = ["<logfile>", "  path %s" % env.path(opts["path"])]
    for k in B_KEYS:
        if opts.get(k) is not None:
            lines.append("  %s %s" % (OPT_KEY[k], opts[k]))
    if level is not None:
        lines.append("  level %s" % level)
    if style is not None:
        lines.append("  style %s" % style)
    if fmt is not None:
        lines.append("  format %s" % cfg_value(fmt))
    lines.extend("  " + e for e in extra)
    lines.append("</logfile>")
    return "\n".join(lines)


_DEFAULT_ENCODING = []


def default_file_encoding(env):
    """What the standard FileHandler reports when no encoding is given."""
    if not _DEFAULT_ENCODING:
        h = logging.FileHandler(os.path.join(env.dir, "probe-default-encoding"), delay=True)
        _DEFAULT_ENCODING.append(h.encoding)
        h.close()
    return _DEFAULT_ENCODING[0]


def describe_handler(h):
    d = {"class": "%s.%s" % (type(h).__module__, type(h).__name__), "level": h.level}
    for a in ("maxBytes", "backupCount", "when", "interval", "delay", "encoding", "mode", "baseFilename"):
        if hasattr(h, a):
            d[a] = getattr(h, a)
    return d


def check_file_handler(env, h, exp, path):
    """-> list of (what, observed, expected) discrepancies of one handler."""
    lh = env.lh
    bad = []
    cls = getattr(lh, exp["cls"])
    if type(h) is not cls:
        bad.append(("class", "%s.%s" % (type(h).__module__, type(h).__name__), exp["cls"]))
        return bad
    if exp["cls"] == R.STREAM:
        want = sys.stdout if exp["stream"] == "STDOUT" else sys.stderr
        if h.stream is not want:
            bad.append(("stream", repr(h.stream), exp["stream"]))
        if any(w() is h for w in lh._reopenable_handlers):
            bad.append(("registered", True, False))
        return bad
    if h.baseFilename != os.path.abspath(path):
        bad.append(("baseFilename", h.baseFilename, path))
    if bool(h.delay) != exp["delay"]:
        bad.append(("delay", h.delay, exp["delay"]))
    if (h.stream is None) != exp["delay"]:
        bad.append(("stream-open", h.stream is not None, not exp["delay"]))
    want_enc = exp["encoding"] if exp["encoding"] else default_file_encoding(env)
    if h.encoding != want_enc:
        bad.append(("encoding", h.encoding, want_enc))
    if h.stream is not None and exp["encoding"]:
        import codecs
        if codecs.lookup(h.stream.encoding).name != codecs.lookup(exp["encoding"]).name:
            bad.append(("stream-encoding", h.stream.encoding, exp["encoding"]))
    if h.mode != exp["mode"]:
        bad.append(("mode", h.mode, exp["mode"]))
    for a in ("maxBytes", "backupCount", "when", "interval"):
        if a in exp and getattr(h, a, None) != exp[a]:
            bad.append((a, getattr(h, a, None), exp[a]))
    n = sum(1 for w in lh._reopenable_handlers if w() is h)
    if n != 1:
        bad.append(("registered-times", n, 1))
    return bad


def check_b(case, env, acc):
    acc.current = case
    opts = case["opts"]
    level = case.get("level")
    verdict, clause, exp = R.logfile_verdict(opts)
    exp_level = R.DEFAULT_HANDLER_LEVEL
    if level is not None:
        lv, num, lclause = R.classify_level(level)
        if lv == R.REFUSE:
            verdict, clause, exp = R.REFUSE, lclause, None
        elif lv == R.UNSPEC:
            verdict, clause, exp = R.UNSPEC, lclause, None
        else:
            exp_level = num
    acc.ev()
    acc.clause("b:" + clause)
    env.begin()
    try:
        text = logfile_text(env, opts, level=level)
        st, cfg = load(text)
        if st == "refused":
            acc.cls("b:refused:" + cfg["class"])
            if verdict == R.ACCEPT:
                acc.violation("refused-but-documented", case, cfg, exp,
                              tags={"kind": "refused-but-documented", "clause": clause, "part": "b"}, size=case_size(case))
            return
        if verdict == R.REFUSE:
            acc.cls("b:accepted-wrongly")
            acc.violation("accepted-but-must-be-refused", case, "accepted", "refused: " + clause,
                          tags={"kind": "accepted-but-must-be-refused", "clause": clause, "part": "b"}, size=case_size(case))
            return
        factory = cfg.handlers[0]
        try:
            h = factory()
        except Exception as e:
            acc.cls("b:factory-raises")
            acc.violation("handler-factory-raises", case, core.exc_desc(e), exp or "a handler",
                          tags={"kind": "handler-factory-raises", "clause": clause, "part": "b"}, size=case_size(case))
            return
        env.track(h)
        acc.nt()
        acc.cls("b:accepted:" + type(h).__name__ + ("" if verdict == R.ACCEPT else ":unspec"))
        if not isinstance(h, logging.Handler):
            acc.violation("not-a-handler", case, repr(h), "logging.Handler",
                          tags={"kind": "not-a-handler", "part": "b"}, size=case_size(case))
            return
        if h.level != exp_level:
            acc.violation("handler-level", case, h.level, exp_level,
                          tags={"kind": "handler-level", "part": "b"}, size=case_size(case))
        if factory() is not h:
            acc.violation("handler-factory-not-memoised", case, "different object", "same object",
                          tags={"kind": "handler-factory-not-memoised", "part": "b"}, size=case_size(case))
        if verdict == R.ACCEPT:
            bad = check_file_handler(env, h, exp, env.path(opts["path"]))
            if bad:
                acc.violation("handler-" + bad[0][0], case, describe_handler(h), exp,
                              tags={"kind": "handler-attribute", "attr": bad[0][0], "clause": clause,
                                    "part": "b"}, size=case_size(case))
        acc.sample(lambda: {"part": "b", "opts": opts, "level": level, "verdict": verdict,
                            "clause": clause, "handler": describe_handler(h)})
        del h
    finally:
        env.end()


def b_space():
    for p, m, o, w, i, d, e, lv in itertools.product(B_PATHS, B_MAX, B_OLD, B_WHEN, B_INT, B_DELAY,
                                                     B_ENC, B_LEVEL):
        yield {"part": "b", "level": lv,
               "opts": {"path": p, "max_size": m, "old_files": o, "when": w, "interval": i,
                        "delay": d, "encoding": e}}


# ----------------------------------------------------------------------------
# (c) logger / eventlog sections

MENU = [
    {"type": "logfile", "opts": {"path": "STDOUT"}, "level": None, "format": None, "style": None,
     "cls": "StreamHandler"},
    {"type": "logfile", "opts": {"path": "STDERR"}, "level": "error",
     "format": "H1 %(levelname)s %(message)s", "style": None, "cls": "StreamHandler"},
    {"type": "logfile", "opts": {"path": "FILE:c-a.log", "delay": "true"}, "level": "17",
     "format": "H2 {name} {message}", "style": "format", "cls": "FileHandler"},
    {"type": "logfile", "opts": {"path": "FILE:c-b.log", "max_size": "1kb", "old_files": "2"},
     "level": "DEBUG", "format": "H3 $message ${lineno}", "style": "template",
     "cls": "RotatingFileHandler"},
    {"type": "http-logger", "keys": ["url http://localhost:1/vz"], "level": "Warn",
     "format": "H4 %(message)s", "style": None, "cls": "HTTPHandler"},
    {"type": "email-notifier", "keys": ["from vz@example.invalid", "to ops@example.invalid"],
     "level": "50", "format": "H5 $name", "style": "safe-template", "cls": "SMTPHandler"},
]


def menu_text(env, m):
    if m["type"] == "logfile":
        return logfile_text(env, m["opts"], level=m["level"], fmt=m["format"], style=m["style"])
    lines = ["<%s>" % m["type"]] + ["  " + k for k in m["keys"]]
    if m["level"] is not None:
        lines.append("  level " + m["level"])
    if m["style"] is not None:
        lines.append("  style " + m["style"])
    if m["format"] is not None:
        lines.append("  format " + cfg_value(m["format"]))
    lines.append("</%s>" % m["type"])
    return "\n".join(lines)


def logger_text(env, case):
    lines = ["<%s>" % case["kind"]]
    if case["kind"] == "logger":
        lines.append("  name %s" % case["name"])
        if case.get("propagate") is not None:
            lines.append("  propagate %s" % case["propagate"])
    if case.get("level") is not None:
        lines.append("  level %s" % case["level"])
    for i in case["handlers"]:
        lines.append(menu_text(env, MENU[i]))
    lines.append("</%s>" % case["kind"])
    return "\n".join(lines)


_EXPECTED = {}


def expected_handler(i):
    if i not in _EXPECTED:
        _EXPECTED[i] = _expected_handler(MENU[i])
    return _EXPECTED[i]


def _expected_handler(m):
    if m["level"] is None:
        lvl = R.DEFAULT_HANDLER_LEVEL
    else:
        lvl = R.classify_level(m["level"])[1]
    style = m["style"] or "classic"
    fmt = m["format"] if m["format"] is not None else R.DEFAULT_LOGFILE_FORMAT
    return m["cls"], lvl, R.python_render(style, R.unescape(fmt), R.DEFAULT_DATEFORMAT, R.make_record())


def compare_logger(env, lg, case, exp_level, acc, tagpart):
    """Checks name/level/propagate/handlers of `lg`.  -> True if all fine."""
    lh = env.lh
    ok = True

    def bad(kind, obs, exp, **tags):
        nonlocal ok
        ok = False
        t = {"kind": kind, "part": "c", "via": tagpart}
        t.update(tags)
        acc.violation(kind, case, obs, exp, tags=t, size=case_size(case))

    if case["kind"] == "eventlog":
        if lg is not logging.getLogger() or lg.name != "root":
            bad("wrong-logger", repr(lg), "root logger")
    else:
        if lg is not logging.getLogger(case["name"]) or lg.name != case["name"]:
            bad("wrong-logger", repr(lg), case["name"])
        want = True if case.get("propagate") is None else R.boolean(case["propagate"])
        if lg.propagate != want or type(lg.propagate) is not bool:
            bad("propagate", lg.propagate, want)
    if lg.level != exp_level:
        bad("logger-level", lg.level, exp_level)
    hs = list(lg.handlers)
    n = len(case["handlers"])
    if n == 0:
        # the statement fixes nothing for a logger without handler sections beyond
        # "no configured handler": a do-nothing NullHandler is tolerated
        if any(not isinstance(h, logging.NullHandler) for h in hs):
            bad("handler-count", [type(h).__name__ for h in hs], "no (or only a null) handler")
        return ok
    if len(hs) != n:
        bad("handler-count", [type(h).__name__ for h in hs], n)
        return ok
    for pos, (h, i) in enumerate(zip(hs, case["handlers"])):
        cls, lvl, rendered = expected_handler(i)
        if type(h) is not getattr(lh, cls):
            bad("handler-order-or-class", [type(x).__name__ for x in hs],
                [MENU[j]["cls"] for j in case["handlers"]])
            break
        if h.level != lvl:
            bad("handler-level", [x.level for x in hs],
                [expected_handler(j)[1] for j in case["handlers"]])
            break
        try:
            out = h.format(R.make_record())
        except Exception as e:
            out = core.exc_desc(e)
        if out != rendered:
            bad("handler-format", out, rendered)
            break
    return ok


def check_c(case, env, acc):
    acc.current = case
    acc.ev()
    exp_level = R.DEFAULT_LOGGER_LEVEL
    verdict = R.ACCEPT
    if case.get("level") is not None:
        verdict, num, clause = R.classify_level(case["level"])
        acc.clause("c:" + clause)
        if verdict == R.ACCEPT:
            exp_level = num
    env.begin()
    try:
        text = logger_text(env, case)
        if case.get("via") == "configureLoggers":
            import ZConfig
            try:
                ZConfig.configureLoggers(text)
            except Exception as e:
                acc.cls("c:configureLoggers-refused")
                if verdict == R.ACCEPT:
                    acc.violation("refused-but-documented", case, core.exc_desc(e), "configured",
                                  tags={"kind": "refused-but-documented", "part": "c",
                                        "via": "configureLoggers"}, size=case_size(case))
                return
            if verdict == R.REFUSE:
                acc.violation("level-not-rejected", case, "accepted", "refused",
                              tags={"kind": "level-not-rejected", "part": "c", "via": "configureLoggers"}, size=case_size(case))
                return
            acc.cls("c:configured")
            if case["handlers"]:
                acc.nt()
            if verdict == R.ACCEPT:
                compare_logger(env, logging.getLogger(case["name"]), case, exp_level, acc,
                               "configureLoggers")
            return
        st, cfg = load(text)
        if st == "refused":
            acc.cls("c:refused:" + cfg["class"])
            if verdict == R.ACCEPT:
                acc.violation("refused-but-documented", case, cfg, "accepted",
                              tags={"kind": "refused-but-documented", "part": "c", "via": "factory"}, size=case_size(case))
            return
        if verdict == R.REFUSE:
            acc.violation("level-not-rejected", case, "accepted", "refused",
                          tags={"kind": "level-not-rejected", "part": "c", "via": "factory"}, size=case_size(case))
            return
        factory = cfg.loggers[0]
        try:
            lg = factory()
        except Exception as e:
            acc.cls("c:factory-raises")
            acc.violation("logger-factory-raises", case, core.exc_desc(e), "a logger",
                          tags={"kind": "logger-factory-raises", "part": "c"}, size=case_size(case))
            return
        acc.cls("c:accepted")
        if case["handlers"]:
            acc.nt()
        if verdict == R.UNSPEC:
            return
        first = list(lg.handlers)
        if compare_logger(env, lg, case, exp_level, acc, "factory"):
            try:
                lg2 = factory()
            except Exception as e:
                lg2 = core.exc_desc(e)
            if lg2 is not lg:
                acc.violation("second-call-different-logger", case, repr(lg2), repr(lg),
                              tags={"kind": "second-call-different-logger", "part": "c"}, size=case_size(case))
            else:
                again = list(lg.handlers)
                if len(again) != len(first) or any(a is not b for a, b in zip(again, first)):
                    acc.violation("second-call-changes-handlers", case,
                                  [type(h).__name__ for h in again], [type(h).__name__ for h in first],
                                  tags={"kind": "second-call-changes-handlers", "part": "c"}, size=case_size(case))
                elif lg.level != exp_level:
                    acc.violation("second-call-changes-level", case, lg.level, exp_level,
                                  tags={"kind": "second-call-changes-level", "part": "c"}, size=case_size(case))
        acc.sample(lambda: {"part": "c", "case": case, "level": lg.level,
                            "handlers": [describe_handler(h) for h in lg.handlers]})
        del lg, first
    finally:
        env.end()


def handler_tuples(maxn=3):
    for n in range(0, maxn + 1):
        for t in itertools.product(range(len(MENU)), repeat=n):
            yield list(t)


C_KINDS = [("logger", "vz.a", None), ("logger", "vz.a.b", "true"), ("logger", "vz.c", "false"),
           ("eventlog", None, None)]
C_LEVELS_QUICK = [None, "WARN", "Blather", "0", "50"]


def c_space(tier, first):
    """All (c) cases whose handler tuple starts with `first` (None: the empty tuple
    and the level sweep)."""
    full_levels = [None] + level_space_config()
    if first is None:
        # every level spelling x every logger kind x {no handler, one handler}
        for kind, name, prop in C_KINDS:
            for hs in ([], [2]):
                for lv in full_levels:
                    yield {"part": "c", "kind": kind, "name": name, "propagate": prop, "level": lv,
                           "handlers": hs, "via": "factory"}
        # through ZConfig.configureLoggers (named loggers only)
        for kind, name, prop in C_KINDS[:3]:
            for hs in handler_tuples(2):
                for lv in (None, "debug", "51"):
                    yield {"part": "c", "kind": kind, "name": name, "propagate": prop, "level": lv,
                           "handlers": hs, "via": "configureLoggers"}
        return
    levels = C_LEVELS_QUICK if tier == "quick" else full_levels
    for hs in handler_tuples(3):
        if not hs or hs[0] != first or hs == [2]:
            continue
        for kind, name, prop in C_KINDS:
            for lv in levels:
                yield {"part": "c", "kind": kind, "name": name, "propagate": prop, "level": lv,
                       "handlers": hs, "via": "factory"}


# ----------------------------------------------------------------------------
# (d) formats

CL_TYPES = "diouxXeEfFgGcrsa"
CL_FLAGS = ["", "-", "0", "+", " ", "#"]
CL_WIDTH = ["", "9", "*"]
CL_PREC = ["", ".3", ".*"]
CL_LEN = ["", "l"]
FULL_FIELDS_QUICK = ("lineno", "created", "thread", "message", "levelno", "name", "msecs", "args")

FM_CONV = ["", "!r", "!s", "!a", "!x"]
FM_SPEC = ["", ":", ":s", ":d", ":x", ":X", ":o", ":b", ":c", ":e", ":E", ":f", ":F", ":g", ":G", ":n",
           ":%", ":>12", ":<12", ":^12", ":*^12", ":=+8", ":+", ":-", ": ", ":#x", ":08.3f", ":.2f", ":.3",
           ":,", ":_", ":12,.1f", ":z.1f", ":{lineno}", ":>{lineno}", ":.{levelno}", ":q"]
FM_SPEC_CORE = ["", ":s", ":d", ":c", ":f", ":>12", ":.3", ":x"]

CANON = {"classic": "%(@)s", "format": "{@}", "template": "${@}", "safe-template": "$@"}


def canon(style, field):
    return CANON[style].replace("@", field)
AFFIXES = ["", "a ", "\\n", "\\t", "\\b", "\\f", "\\r", "\\x", "\\\\ ", "%%", "100%% ", "{{", "}}", "{", "}",
           "$$", "$", "#", " b"]
UNKNOWN_FIELDS = ["nosuch", "extra", "Message", "asctime_", "x1"]
FORMATTERS = [None, "logging.Formatter", "vz.harness.vzfmt.StylelessFormatter",
              "vz.harness.vzfmt.styleless_formatter", "vz.harness.vzfmt.StyledFormatter"]
DATEFORMATS = [None, "%H-%M-%S", "%d/%m/%Y at %H"]
ASCTIME_FORMATS = {
    "classic": ["%(asctime)s", "%(asctime)-30s", "%(asctime).4s", "%(asctime)r", "x%(asctime)sx"],
    "format": ["{asctime}", "{asctime!s}", "{asctime!r}", "{asctime:>30}", "{asctime:.4}", "{asctime[0]}"],
    "template": ["${asctime}", "$asctime", "$asctime.", "x${asctime}x", "$$asctime ${message}"],
    "safe-template": ["${asctime}", "$asctime", "$asctime.", "x${asctime}x", "$$asctime ${message}",
                      "${asctime"],
}


def classic_feature(flag, width, prec, ln, typ):
    if ln:
        return "length-modifier"
    if "*" in width or "*" in prec:
        return "star"
    return "conv-" + typ


def d_formats(style, field, full):
    """Formats of `style` that reference `field`: (format, feature, has_field).
    In the pattern lists '@' stands for the field name."""
    def sub(pat):
        return pat.replace("@", field)

    if style == "classic":
        if full:
            for flag, width, prec, ln, typ in itertools.product(CL_FLAGS, CL_WIDTH, CL_PREC, CL_LEN,
                                                                CL_TYPES):
                yield ("%(" + field + ")" + flag + width + prec + ln + typ,
                       classic_feature(flag, width, prec, ln, typ), True)
        else:
            for typ in CL_TYPES:
                yield "%(" + field + ")" + typ, "conv-" + typ, True
            yield sub("%(@)-9.3s"), "conv-s", True
            yield sub("%(@)ld"), "length-modifier", True
        for bad in ("%(@)", "%(@", "%(@)z", "%@", "%(@)s%", "%(@)s %s", "%(@)s %(@)"):
            yield sub(bad), "malformed", True
        yield sub("%%(@)s"), "no-field", False
    elif style == "format":
        specs = FM_SPEC if full else FM_SPEC_CORE
        convs = FM_CONV if full else ["", "!r"]
        for conv in convs:
            for spec in specs:
                feat = "spec" + (spec[1:2] if spec[1:2] in ("z", "q") else "")
                if conv == "!x":
                    feat = "bad-conversion"
                yield "{" + field + conv + spec + "}", feat, True
        for tail in (".nosuch", "[0]", "[5]", "[k]", ".real", ".__class__"):
            yield "{" + field + tail + "}", "attr-or-index", True
        for bad in ("{@", "@}", "{@!}", "{@:", "{ @}", "{@ }", "{@}{", "{@}}", "{@!rr}", "{@:{}}",
                    "{@} {}", "{@} {0}"):
            yield sub(bad), "malformed", True
        yield sub("{{@}}"), "no-field", False
    else:
        for pat in ("$@", "${@}", "$@.", "${@}x", "x$@", "$$$@", "$@$$", "${@}${@}", "$@-${@}"):
            yield sub(pat), "named", True
        for pat in ("${@", "$@}", "$ {@}", "${@ }", "${ @}", "$@$", "$@ $", "${@} ${", "${@} $1",
                    "${@:x}"):
            yield sub(pat), "malformed", True
        yield sub("$@_x"), "unknown-field", True
        yield sub("$$@"), "no-field", False
        yield sub("$${@}"), "no-field", False


D_SPECIAL = {
    "classic": ["static text", "", "%%", "%", "%s", "%d", "%()s", "%(", "100%% done", "%(message)s%",
                "%c", "{message}", "$message", "${message}"],
    "format": ["static text", "", "{}", "{0}", "{0.name}", "{{", "}}", "{{}}", "{", "}", "{!r}", "{:>5}",
               "%(message)s", "$message", "${message}"],
    "template": ["static text", "", "$", "$$", "$1", "${}", "${1}", "$$ text", "$-", "%(message)s",
                 "{message}"],
    "safe-template": ["static text", "", "$", "$$", "$1", "${}", "${1}", "$$ text", "$-", "%(message)s",
                      "{message}"],
}


def has_field(style, fmt):
    """Does the format contain a reference to a field, in the syntax of its style?"""
    if style == "classic":
        i = fmt.replace("%%", "").find("%(")
        return i >= 0
    if style == "format":
        import string
        try:
            return any(f is not None for _, f, _, _ in string.Formatter().parse(fmt))
        except ValueError:
            return False
    import string
    for m in string.Template.pattern.finditer(fmt):
        if m.group("named") or m.group("braced"):
            return True
    return False


def d_space(tier, style, field):
    """Cases of shard (style, field); field None = the field-independent cases."""
    thorough = tier != "quick"
    if field is None:
        for fmt in D_SPECIAL[style]:
            for arb in (False, True):
                for fk in FORMATTERS:
                    yield dcase(style, fmt, arb, "special", fk)
        for pre in AFFIXES:
            for post in AFFIXES:
                fmt = pre + canon(style, "message") + post
                if fmt != fmt.strip():
                    continue
                for arb in (False, True):
                    yield dcase(style, fmt, arb, "affix")
                if not pre:
                    # the affix alone: a format without any field
                    if post and post == post.strip():
                        for arb in (False, True):
                            yield dcase(style, "x" + post, arb, "affix-only")
        for uf in UNKNOWN_FIELDS:
            for fmt, feat, hf in d_formats(style, uf, False):
                for arb in (False, True):
                    yield dcase(style, fmt, arb, "unknown-field" if hf else feat)
        # date formats x every way of referring to asctime x formatter factories
        for df in DATEFORMATS:
            for fmt in ASCTIME_FORMATS[style] + [canon(style, "asctime") + " " + canon(style, "message"),
                                                 canon(style, "message")]:
                for fk in FORMATTERS:
                    yield dcase(style, fmt, False, "dateformat", fk, df)
        return
    full = thorough or field in FULL_FIELDS_QUICK
    for fmt, feat, hf in d_formats(style, field, full):
        for arb in (False, True):
            yield dcase(style, fmt, arb, feat)
    # the reference syntax of every *other* style under this style, and custom formatters
    for other in R.STYLES:
        fmt = canon(other, field)
        for arb in (False, True):
            for fk in FORMATTERS[1:]:
                yield dcase(style, fmt, arb, "cross-style:" + other if other != style else "canonical", fk)
            if other != style and not (style in ("template", "safe-template")
                                       and other in ("template", "safe-template")):
                yield dcase(style, fmt, arb, "cross-style:" + other)


def dcase(style, fmt, arb, feature, formatter=None, dateformat=None):
    return (style, fmt, arb, feature, formatter, dateformat)


def dcase_dict(t, field):
    return {"part": "d", "style": t[0], "format": t[1], "arbitrary": t[2], "feature": t[3],
            "formatter": t[4], "dateformat": t[5], "field": field}


_D_CASES = None


def d_cases(tier):
    """The complete, duplicate-free list of (d) cases (built once in the parent,
    inherited by the forked workers; shards are index ranges of it)."""
    global _D_CASES
    if _D_CASES is None or _D_CASES[0] != tier:
        seen = set()
        out = []
        for style in R.STYLES:
            for field in (None,) + tuple(R.FIELDS):
                for t in d_space(tier, style, field):
                    key = (t[0], t[1], t[2], t[4], t[5])
                    if key not in seen:
                        seen.add(key)
                        out.append((t, field))
        _D_CASES = (tier, out)
    return _D_CASES[1]


def check_d(case, env, acc):
    style, fmt, arb = case["style"], case["format"], case["arbitrary"]
    acc.current = case
    acc.ev()
    ufmt = R.unescape(fmt)
    hf = has_field(style, ufmt)
    feature = case["feature"] if hf else "no-field"
    if hf:
        acc.nt()
    datefmt = case["dateformat"] or R.DEFAULT_DATEFORMAT
    try:
        ref = ("ok", R.python_render(style, ufmt, datefmt, R.make_record()))
    except Exception as e:
        ref = ("raises", type(e).__name__)
    extra = []
    if arb:
        extra.append("arbitrary-fields true")
    if case["formatter"]:
        extra.append("formatter " + case["formatter"])
    if case["dateformat"]:
        extra.append("dateformat " + case["dateformat"])
    text = logfile_text(env, {"path": "STDOUT"}, fmt=fmt, style=style, extra=extra)
    tags = {"part": "d", "style": style, "feature": feature}
    size = 10 * len(fmt) + (1 if arb else 0) + (3 if case["formatter"] else 0) + (3 if case["dateformat"] else 0)
    env.begin()
    try:
        st, cfg = load(text)
        if st == "refused":
            acc.cls("d:refused:" + ("config-error" if cfg["family"] else cfg["class"]))
            if ref[0] == "ok" and R.python_validates(style, ufmt) and not arb:
                acc.extra["d:refused-though-python-takes-and-renders-it"] += 1
                acc.extra["d:refused-though-python-takes-and-renders-it:%s:%s" % (style, case["feature"])] += 1
            return
        factory = cfg.handlers[0]
        try:
            h = factory()
        except Exception as e:
            acc.cls("d:accepted-build-raises")
            # python_validates: what logging.Formatter itself says about this format
            # under this style (None: safe-template has no counterpart in logging)
            acc.violation("accepted-format-cannot-build-formatter", case, core.exc_desc(e),
                          "a handler with a formatter",
                          tags=dict(tags, kind="accepted-format-cannot-build-formatter", stage="build",
                                    exc=type(e).__name__,
                                    python_validates=R.python_validates(style, ufmt, datefmt)),
                          size=size)
            return
        env.track(h)
        try:
            out = ("ok", h.format(R.make_record()))
        except Exception as e:
            out = ("raises", type(e).__name__)
        del h
        if out[0] == "ok" and ref[0] == "ok":
            acc.cls("d:rendered")
            if out[1] != ref[1]:
                acc.violation("rendering-differs", case, out[1], ref[1],
                              tags=dict(tags, kind="rendering-differs", stage="format"), size=size)
        elif out[0] == "raises" and ref[0] == "raises":
            if arb:
                acc.cls("d:arbitrary-both-raise")
            else:
                acc.cls("d:accepted-format-raises")
                acc.violation("accepted-format-raises-on-ordinary-record", case, out, "a rendering",
                              tags=dict(tags, kind="accepted-format-raises-on-ordinary-record",
                                        stage="format", exc=out[1], field=case.get("field")),
                              size=size)
        elif out[0] == "raises":
            acc.cls("d:only-component-raises")
            acc.violation("formatter-raises-where-python-renders", case, out, ref,
                          tags=dict(tags, kind="formatter-raises-where-python-renders", stage="format",
                                    exc=out[1]), size=size)
        else:
            acc.cls("d:only-python-raises")
            acc.violation("rendering-differs", case, out, ref,
                          tags=dict(tags, kind="rendering-differs", stage="format"), size=size)
        acc.sample(lambda: {"part": "d", "case": case, "reference": ref, "observed": out})
    finally:
        env.end()


# ----------------------------------------------------------------------------
# (e) factory / registry operation sequences

SLOT_KINDS = {
    "plain": {},
    "plain-delay": {"delay": "true"},
    "rot": {"max_size": "1kb", "old_files": "2"},
    "rot-delay": {"max_size": "1kb", "old_files": "2", "delay": "true"},
    "timed": {"when": "D", "old_files": "2"},
    "timed-delay": {"when": "D", "old_files": "2", "delay": "true"},
}
KIND_NAMES = list(SLOT_KINDS)


def ops_for(n):
    return [["F", j] for j in range(n)] + [["R"], ["C"]] + [["D", j] for j in range(n)]


class RegSys:
    """The implementation side of (e): n handler factories of one loaded
    configuration, driven by operations, observed after every operation."""

    def __init__(self, env, kinds):
        self.env = env
        self.kinds = kinds
        self.n = len(kinds)
        secs = []
        for j, k in enumerate(kinds):
            opts = dict(SLOT_KINDS[k], path="FILE:e-%d.log" % j)
            secs.append(logfile_text(env, opts, fmt="%(message)s"))
        self.text = "\n".join(secs)
        self.factories = self._load()
        self.wr = [None] * self.n
        self.dead_entries = 0
        self.model = R.RegistryModel([k.endswith("-delay") for k in kinds])

    def _load(self):
        st, cfg = load(self.text)
        if st != "ok":
            raise core.HarnessError("C20(e): slot configuration refused: %r" % (cfg,))
        return list(cfg.handlers)

    def handler(self, j):
        w = self.wr[j]
        return w() if w is not None else None

    def step(self, op):
        """Apply op to implementation and model; -> list of (what, observed, expected)."""
        lh = self.env.lh
        bad = []
        before = {}
        for j in range(self.n):
            h = self.handler(j)
            if h is not None:
                before[j] = h.stream
            del h
        acted = None
        if op[0] == "F":
            j = op[1]
            try:
                h = self.factories[j]()
            except Exception as e:
                return [("factory-raises", core.exc_desc(e), "a handler")]
            created = self.model.call_factory(j)
            if created:
                self.wr[j] = weakref.ref(h)
                self.env.track(h)
            elif self.handler(j) is not h:
                bad.append(("factory-returned-another-handler", repr(h), "the memoised handler"))
            del h
        elif op[0] == "R":
            try:
                lh.reopenFiles()
            except Exception as e:
                return [("reopenFiles-raises", core.exc_desc(e), "no exception")]
            acted = self.model.reopen()
        elif op[0] == "C":
            try:
                lh.closeFiles()
            except Exception as e:
                return [("closeFiles-raises", core.exc_desc(e), "no exception")]
            acted = self.model.close_all()
        else:
            j = op[1]
            # drop the only strong reference: the factory (which memoises the
            # handler) is replaced by the same factory of a fresh load
            self.factories[j] = self._load()[j]
            gc.collect()
            if self.model.drop(j):
                if self.handler(j) is not None:
                    bad.append(("handler-survives-its-last-reference", "alive", "collected"))
                self.wr[j] = None
        # registry == live, unclosed handlers
        reg = [w() for w in lh._reopenable_handlers]
        self.dead_entries += sum(1 for h in reg if h is None)
        mine = {}
        for j in range(self.n):
            h = self.handler(j)
            if h is not None:
                mine[id(h)] = j
        reg_slots = sorted(mine.get(id(h), -1) for h in reg if h is not None)
        del reg
        if reg_slots != self.model.registered():
            bad.append(("registry", reg_slots, self.model.registered()))
        # per-slot state
        for j in range(self.n):
            h = self.handler(j)
            m = self.model.slots[j]
            if m is None:
                if h is not None:
                    bad.append(("slot-%d-alive" % j, True, False))
                continue
            if h is None:
                bad.append(("slot-%d-alive" % j, False, True))
                continue
            is_open = h.stream is not None and not h.stream.closed
            if is_open != m["open"]:
                bad.append(("stream-open-after-" + op[0], is_open, m["open"]))
            if acted is not None:
                old = before.get(j)
                if j in acted:
                    if old is not None and not old.closed:
                        bad.append(("old-stream-left-open-by-" + op[0], "open", "closed"))
                    if op[0] == "R" and old is not None and h.stream is old:
                        bad.append(("not-reopened", "same stream", "new stream"))
                elif h.stream is not old:
                    bad.append(("touched-unregistered-handler-" + op[0], repr(h.stream), repr(old)))
            del h
        return bad

    def key(self):
        """Canonical implementation state."""
        lh = self.env.lh
        slots = []
        ids = {}
        for j in range(self.n):
            h = self.handler(j)
            if h is None:
                slots.append(None)
                continue
            ids[id(h)] = j
            slots.append((any(w() is h for w in lh._reopenable_handlers),
                          "none" if h.stream is None else ("closed" if h.stream.closed else "open")))
            del h
        order = tuple(ids.get(id(w()), -1) for w in lh._reopenable_handlers)
        return tuple(slots), order


def run_sequence(env, kinds, ops, acc, count_traces=True):
    """-> (problems of the first failing step, index) or (None, None)"""
    env.begin()
    try:
        s = RegSys(env, kinds)
        for i, op in enumerate(ops):
            bad = s.step(op)
            if count_traces:
                acc.traces += 1
            if bad:
                return bad, i, None
        if s.dead_entries:
            # tolerated (they are skipped by reopenFiles/closeFiles), but made visible
            acc.extra["e:dead-registry-entries-seen"] += s.dead_entries
        key = s.key()
        del s
        return None, None, key
    finally:
        env.end()


def report_e(acc, kinds, ops, i, bad):
    what = bad[0][0]
    acc.violation("registry-" + what, {"part": "e", "slots": kinds, "ops": ops[:i + 1]},
                  [list(b[:2]) for b in bad], [[b[0], b[2]] for b in bad],
                  tags={"kind": "registry", "what": what.split("-after-")[0], "op": ops[i][0], "part": "e"},
                  size=len(ops[:i + 1]) * 100 + len(kinds))


def nontrivial_seq(ops):
    for i, op in enumerate(ops):
        if op[0] == "F" and any(o[0] in "RCD" for o in ops[i + 1:]):
            return True
    return False


def shard_e_bfs(kinds, depth, env, acc):
    ops = ops_for(len(kinds))
    bad, _, k0 = run_sequence(env, kinds, [], acc)
    seen = {k0}
    frontier = collections.deque([[]])
    while frontier:
        hist = frontier.popleft()
        for op in ops:
            seq = hist + [op]
            acc.current = {"part": "e", "slots": kinds, "ops": seq}
            bad, i, key = run_sequence(env, kinds, seq, acc, count_traces=False)
            acc.transitions += 1
            acc.traces += 1
            if bad:
                acc.cls("e:bfs-violation")
                report_e(acc, kinds, seq, i, bad)
                continue
            acc.cls("e:bfs-ok")
            if len(seq) < depth and key not in seen:
                seen.add(key)
                frontier.append(seq)
            elif key not in seen:
                seen.add(key)
    acc.states += len(seen)
    acc.extra["e:bfs-configs"] += 1
    acc.sample(lambda: {"part": "e", "slots": kinds, "bfs_states": len(seen), "depth": depth})


def shard_e_seq(kinds, prefix, depth, env, acc):
    ops = ops_for(len(kinds))
    for tail in itertools.product(ops, repeat=depth - len(prefix)):
        seq = list(prefix) + list(tail)
        acc.current = {"part": "e", "slots": kinds, "ops": seq}
        bad, i, _ = run_sequence(env, kinds, seq, acc)
        acc.ev()
        acc.extra["e:sequences"] += 1
        if nontrivial_seq(seq):
            acc.nt()
        if bad:
            acc.cls("e:seq-violation")
            report_e(acc, kinds, seq, i, bad)
        else:
            acc.cls("e:seq-ok")


TRIPLES = [["plain", "rot", "timed"], ["plain-delay", "rot-delay", "timed-delay"],
           ["plain", "plain", "rot-delay"], ["timed", "rot", "plain-delay"]]


def e_configs(tier):
    """-> list of (kinds, depth) for the all-sequences sweep"""
    K = KIND_NAMES
    if tier == "quick":
        return ([([a], 4) for a in K] + [([a, b], 4) for a in K for b in K]
                + [(t, 4) for t in TRIPLES[:2]])
    return ([([a], 6) for a in K] + [([a, b], 6) for a in K for b in K]
            + [(t, 6) for t in TRIPLES[:2]] + [(t, 5) for t in TRIPLES[2:]])


def e_bfs_configs(tier):
    K = KIND_NAMES
    out = [([a], 4) for a in K] + [([a, b], 4) for a in K for b in K]
    if tier == "quick":
        return out + [(t, 4) for t in TRIPLES]
    return ([([a], 6) for a in K] + [([a, b], 6) for a in K for b in K]
            + [([a, b, c], 6) for a in K for b in K for c in K])


# ----------------------------------------------------------------------------
# shards, run, replay

def shard_func(shard, acc):
    what = shard[0]
    with Env() as env:
        if what == "a":
            for s in level_space():
                check_a({"part": "a", "value": s}, env, acc)
        elif what == "b":
            for case in b_space():
                if case["opts"]["path"] == shard[1] and case["opts"]["max_size"] == shard[2] \
                        and case["opts"]["old_files"] == shard[3]:
                    check_b(case, env, acc)
        elif what == "c":
            for case in c_space(shard[1], shard[2]):
                check_c(case, env, acc)
        elif what == "d":
            for t, field in d_cases(shard[1])[shard[2]:shard[3]]:
                check_d(dcase_dict(t, field), env, acc)
        elif what == "e-bfs":
            shard_e_bfs(shard[1], shard[2], env, acc)
        elif what == "e-seq":
            shard_e_seq(shard[1], shard[2], shard[3], env, acc)
        else:
            raise core.HarnessError("unknown shard %r" % (shard,))
    return acc


def all_shards(tier):
    shards = [("a",)]
    shards += [("b", p, m, o) for p in B_PATHS for m in B_MAX for o in B_OLD]
    shards += [("c", tier, None)] + [("c", tier, i) for i in range(len(MENU))]
    nd = len(d_cases(tier))
    step = 1500
    shards += [("d", tier, lo, min(lo + step, nd)) for lo in range(0, nd, step)]
    for kinds, depth in e_bfs_configs(tier):
        shards.append(("e-bfs", kinds, depth))
    for kinds, depth in e_configs(tier):
        ops = ops_for(len(kinds))
        plen = 1 if len(ops) ** depth < 20000 else (2 if len(ops) ** depth < 200000 else 3)
        for prefix in itertools.product(ops, repeat=plen):
            shards.append(("e-seq", kinds, list(prefix), depth))
    return shards


def run(tier):
    quick = tier == "quick"
    run = core.Run(
        "C20", tier, "model_checking",
        rule="(a) logging_level on every documented name x 4 letter cases, every integer -2..52, junk; "
             "(b) one <logfile>: path{STDOUT,STDERR,file} x max-size x old-files x when x interval x delay "
             "x encoding x level, full product, against the decision table; (c) <logger>/<eventlog> with "
             "0..3 handlers from a 6-entry menu x propagate x level spelling, factory called twice, also "
             "through configureLoggers; (d) format strings over all %d record fields x conversions of the "
             "four styles x arbitrary-fields, escapes, field-less/unknown-field formats, custom formatter "
             "factories, date formats, rendered against Python's own rendering; (e) BFS over the canonical "
             "implementation state of 1-%d file handlers under {call factory j, reopenFiles, closeFiles, "
             "drop last reference j} plus every operation sequence of length %s with the registry model "
             "in lock step.  Non-trivial = (b)/(c) accepted configuration with >= 1 handler, (d) format "
             "with >= 1 field reference in its style, (e) sequence with a factory call followed by a "
             "registry operation (distinct cases; shards partition each space)."
             % (len(R.FIELDS), 3, "4" if quick else "6 (5 on two of the four 3-handler configurations)"),
        bounds={"levels": {"names": [n for n, _ in R.LEVEL_TABLE], "integers": [-2, 52]},
                "logfile_product": {"path": B_PATHS, "max-size": B_MAX, "old-files": B_OLD, "when": B_WHEN,
                                    "interval": B_INT, "delay": B_DELAY, "encoding": B_ENC, "level": B_LEVEL},
                "handler_menu": [m["type"] + ":" + m["cls"] for m in MENU], "max_handlers": 3,
                "fields": list(R.FIELDS),
                "full_conversion_product_on": "all fields" if not quick else list(FULL_FIELDS_QUICK),
                "classic": {"types": CL_TYPES, "flags": CL_FLAGS, "width": CL_WIDTH, "precision": CL_PREC,
                            "length": CL_LEN},
                "format_specs": FM_SPEC, "format_conversions": FM_CONV, "affixes": AFFIXES,
                "formatters": FORMATTERS, "dateformats": DATEFORMATS,
                "e_slot_kinds": KIND_NAMES,
                "e_sequences": [[k, d] for k, d in e_configs(tier)],
                "e_bfs_depth": 4 if quick else 6},
        assumptions=[
            "reference model vz/ref/logmodel.py (level table, <logfile> decision table, registry model) "
            "is the documented behaviour; 'rendering in the configured format and style' = what "
            "logging.Formatter(fmt, datefmt, style, validate=False) / string.Template.safe_substitute "
            "produce for the same record",
            "ordinary record = LogRecord of Logger.warning('msg %s %d', 'arg', 7) with created, msecs, "
            "relativeCreated, process (4242) and thread (140737353955136, a 64-bit Linux thread id) pinned",
            "unspecified (only totality and level checked): interval / neutral-valued options on "
            "STDOUT/STDERR, both when and max-size, interval without when, old-files without rotation, "
            "non-canonical integer spellings, the exception class of a load-time refusal, a logger "
            "without handler sections may carry a NullHandler",
            "syslog / win32-eventlog handlers are not created; http-logger and email-notifier handlers "
            "are created but never emit",
        ])
    core.pmap(shard_func, all_shards(tier), run.acc)
    acc = run.acc
    cl = acc.clauses
    for c in ("level-name", "level-int-in-range", "level-int-out-of-range", "level-junk",
              "b:std-stream", "b:std-max-size", "b:std-old-files", "b:std-when", "b:std-delay",
              "b:std-encoding", "b:rotation-needs-old-files", "b:plain-file", "b:size-rotation",
              "b:timed-rotation", "b:both-when-and-max-size", "b:interval-without-when",
              "b:old-files-without-rotation"):
        run.require(cl.get(c, 0) > 0, "reference clause %s never decided a case" % c)
    k = acc.classes
    for c in ("b:accepted:StreamHandler", "b:accepted:FileHandler", "b:accepted:RotatingFileHandler",
              "b:accepted:TimedRotatingFileHandler", "c:accepted", "c:configured", "d:rendered",
              "e:bfs-ok", "e:seq-ok"):
        run.require(k.get(c, 0) > 0, "outcome class %s never observed" % c)
    run.require(k.get("d:rendered", 0) > 2000, "few formats rendered")
    run.require(sum(v for c, v in k.items() if c.startswith("d:refused")) > 500, "few formats refused")
    run.require(acc.states >= 10 and acc.transitions >= 100, "BFS of (e) too small")
    return run


def replay(body):
    case = body["case"]
    acc = core.Acc()
    with Env() as env:
        for _ in range(2):
            part = case.get("part")
            if part == "a":
                check_a(case, env, acc)
            elif part == "b":
                check_b(case, env, acc)
            elif part == "c":
                check_c(case, env, acc)
            elif part == "d":
                check_d(case, env, acc)
            elif part == "e":
                kinds = case["slots"]
                ops = [list(o) for o in case["ops"]]
                bad, i, _ = run_sequence(env, kinds, ops, acc)
                if bad:
                    report_e(acc, kinds, ops, i, bad)
            else:
                print("REPLAY: unknown case", case)
                return 3
    for smp in acc.samples[-1:]:
        print("REPLAY executed:", smp)
    for v in acc.violations.values():
        print("REPLAY violation:", v["kind"], "case=", v["case"])
        print("   observed=", v["observed"])
        print("   expected=", v["expected"])
    print("replayed: %d violation signature(s)" % len(acc.violations))
    return 1 if acc.violations else 0
