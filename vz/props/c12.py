"""C12 - abstract slots accept exactly their implementers, including %import-ed ones.

Engine E2 over (a) texts and (b) load histories:
 schemas = abstract types a (and b) x up to 3 (quick) / 4 (thorough) concrete types,
 each implementing any one / extending any earlier one / both, in every
 combination; generated component packages add implementers (two of them define
 the same type name differently); texts = all sequences of <= d events over
 {'%import P' for every package incl. non-packages, '<t/>' for every type name};
 histories = all sequences of <= h loads of representative texts against ONE
 schema object.  Oracle: reference admission (vz.ref.match with per-load imports)
 and a structural digest of the schema that must not change.
"""
import itertools

from dataclasses import replace

from vz import core
from vz.gen import schema as M
from vz.harness import load as H
from vz.harness import pkgs
from vz.ref import match as R


def schemas(nconc, two_abstract):
    """Every combination of implements / extends for nconc concrete types."""
    abstracts = ["a", "b"] if two_abstract else ["a"]
    names = ["c%d" % i for i in range(1, nconc + 1)]
    opts = []
    for i, n in enumerate(names):
        o = []
        for impl in [None] + abstracts:
            for ext in [None] + names[:i]:
                o.append((impl, ext))
        opts.append(o)
    for combo in itertools.product(*opts):
        types = [M.AType(x) for x in abstracts]
        for n, (impl, ext) in zip(names, combo):
            items = () if ext else (M.Key("k"),)
            types.append(M.SType(n, items, extends=ext, implements=impl))
        items = [M.Sect("*", "a", attribute="sa", multi=True)]
        if two_abstract:
            items.append(M.Sect("*", "b", attribute="sb", multi=True))
        yield M.Schema(types=tuple(types), items=tuple(items))


def make_packages(P):
    pa = P.add_component("pa", [M.SType("pa1", (M.Key("pk"),), implements="a")])
    pb = P.add_component("pb", [M.SType("pb1", (M.Key("pk"),), implements="a"),
                                M.SType("pb2", (), extends="pb1")])
    # same type name as pa's, defined differently (implements nothing)
    pc = P.add_component("pc", [M.SType("pa1", (M.Key("other"),))])
    pd = P.add_component("pd", [M.SType("pd1", (), implements="b")])     # needs abstract type b
    # two components that import EACH OTHER (and one that imports itself): a component is read once per load
    pe_name, pf_name, pg_name = P.name("pe"), P.name("pf"), P.name("pg")
    P.add_component("pe", [M.SType("pe1", (M.Key("pk"),), implements="a")], imports=(pf_name,))
    P.add_component("pf", [M.SType("pf1", (M.Key("pk"),), implements="a")], imports=(pe_name,))
    P.add_component("pg", [M.SType("pg1", (), implements="a")], imports=(pg_name,))
    nocomp = P.add_package_without_component("nocomp")
    mod = P.add_module("mod")
    missing = P.missing("missing")
    return [pa, pb, pc, pd, nocomp, mod, missing]


def alphabet(S, plist, tier):
    evs = [("i", p) for p in plist]
    tnames = [t.name for t in S.types] + ["pa1", "pb1", "pb2", "pd1", "qq"]
    for t in tnames:
        evs.append(("e", t, None))
    return evs


PRE = [()]        # packages imported by the schema under exploration


def observe(sch, text):
    r = H.load(sch, text)
    if r[0] == "ok":
        return ("A", H.tree(r[1]))
    if r[0] == "rejected":
        return ("R", type(r[1]).__name__)
    return ("I", core.exc_desc(r[1]))


MAIN, INC = "file:///v/c12/main.conf", "file:///v/c12/inc.conf"


def observe_mem(sch, files):
    r = H.load_mem(sch, files, MAIN)
    if r[0] == "ok":
        return ("A", H.tree(r[1]))
    if r[0] == "rejected":
        return ("R", type(r[1]).__name__)
    return ("I", core.exc_desc(r[1]))


def explore_texts(S, sch, P, plist, depth, acc, mid, d0, tier, A=None):
    """BFS over event sequences; reference state = (container state, imports)."""
    A = A or alphabet(S, plist, tier)
    xml = mid["schema"]
    seen = set()
    frontier = [()]
    for level in range(depth):
        nxt = []
        for hist in frontier:
            for ev in A:
                h2 = hist + (ev,)
                ref = R.decide(S, h2, want_state=True, packages=P.types, preimported=PRE[0], package_imports=P.imports)
                text = H.render_events(h2)
                acc.current = text
                obs = observe(sch, text)
                acc.ev()
                acc.transitions += 1
                uses = [e for e in h2 if e[0] == "e"]
                imps = [e for e in h2 if e[0] == "i"]
                case = {"member": mid, "text": text}
                acc.clause(ref.clause)
                # non-trivial: admission depends on an implements / import fact
                if uses and ref.verdict != "U" and ref.clause not in ("unknown-type",):
                    acc.nt()
                acc.sample(lambda: dict(case, reference=[ref.verdict, ref.clause], observed=obs[0]))
                acc.cls("ref=%s impl=%s" % (ref.verdict, obs[0]))
                if obs[0] == "I":
                    acc.violation("internal-error", case, obs[1], ref.verdict,
                                  tags={"kind": "internal-error", "exc": obs[1]["class"]})
                    continue
                if ref.verdict == "U":
                    continue
                if obs[0] != ref.verdict or (obs[0] == "A" and obs[1] != ref.tree):
                    acc.violation("admission-differs-from-reference", case,
                                  [obs[0], repr(obs[1])[:200]], [ref.verdict, ref.clause, repr(ref.tree)[:200]],
                                  tags={"kind": "admission", "clause": ref.clause, "ref": ref.verdict,
                                        "with_import": bool(imps)})
                    continue
                # the same events cut into two resources at every point, tail included from the head and
                # head included ahead of the tail: imports made on either side of an '%include' boundary
                # count for the rest of the load, whichever resource holds the rest
                if imps and uses and len(h2) >= 2:
                    for k in range(1, len(h2)):
                        head, tail = H.render_events(h2[:k]), H.render_events(h2[k:])
                        for lay, files in (("tail-included", {MAIN: head + "%include inc.conf\n", INC: tail}),
                                           ("head-included", {MAIN: "%include inc.conf\n" + tail, INC: head})):
                            obs2 = observe_mem(sch, files)
                            acc.ev()
                            acc.transitions += 1
                            acc.cls("include-split impl=%s" % obs2[0])
                            if obs2 != obs:
                                acc.violation("include-split-differs", dict(case, files=files, layout=lay),
                                              [obs2[0], repr(obs2[1])[:200]], [obs[0], repr(obs[1])[:200]],
                                              tags={"kind": "include-split", "layout": lay, "single": obs[0],
                                                    "split": obs2[0]})
                d1 = H.schema_digest(sch)
                if d1 != d0:
                    diff = [a[:2] for a, b in zip(d0, d1) if a != b]
                    acc.violation("schema-changed-by-load", case, repr(diff)[:300], "digest unchanged",
                                  tags={"kind": "schema-digest", "with_import": bool(imps),
                                        "what": sorted(set(x[0] for x in diff))})
                    # continue on a fresh schema object so that one changed schema does not
                    # colour the remaining texts (carry-over is the histories' subject)
                    sch = H.load_schema(xml)
                    d0 = H.schema_digest(sch)
                if ref.state is not None and level + 1 < depth and ref.state not in seen:
                    seen.add(ref.state)
                    nxt.append(h2)
        frontier = nxt
    acc.states += len(seen) + 1
    return True


def history_texts(S, plist):
    pa, pb, pc, pd = plist[:4]
    impl_a = M.implementers(S, "a")
    c = impl_a[0] if impl_a else "c1"
    texts = [
        [("e", c, None)],
        [("i", pa), ("e", "pa1", None)],
        [("e", "pa1", None)],
        [("i", pc), ("e", "pa1", None)],
        [("i", pb), ("e", "pb1", None), ("e", "pb2", None)],
        [("e", "pb1", None), ("i", pb)],
        [("i", pa), ("i", pc)],
        [("i", plist[6]), ("e", c, None)],
    ]
    # every (import X, use a type of Y): what an EARLIER load imported must not be usable in this one
    for x in (pa, pb, pc):
        for y in ("pa1", "pb1", c):
            t = [("i", x), ("e", y, None)]
            if t not in texts:
                texts.append(t)
    texts.append([("e", "pb1", None)])
    return texts


def provided(P, pkg, seen=None):
    """Types a '%import pkg' makes available: its own and, transitively, those of the components it imports."""
    seen = set() if seen is None else seen
    if pkg in seen or not P.types.get(pkg):
        return []
    seen.add(pkg)
    out = list(P.types[pkg])
    for sub in P.imports.get(pkg, ()):
        out += provided(P, sub, seen)
    return out


def uses_imported(texts, hist, step, P):
    """Does the text of this step use a type name that an EARLIER load of the history imported?"""
    imported = set()
    for i in hist[:step]:
        for e in texts[i]:
            if e[0] == "i" and P.types.get(e[1]):
                imported |= {t.name for t in provided(P, e[1])}
    return any(e[0] == "e" and e[1] in imported for e in texts[hist[step]])


def redefines_earlier_type(texts, hist, step, P):
    """Does this step's text import a package that defines a type NAME which an earlier load of the history
    imported from a different package?"""
    earlier = {}
    for i in hist[:step]:
        for e in texts[i]:
            if e[0] == "i" and P.types.get(e[1]):
                for t in P.types[e[1]]:
                    earlier.setdefault(t.name, set()).add(e[1])
    for e in texts[hist[step]]:
        if e[0] == "i" and P.types.get(e[1]):
            for t in P.types[e[1]]:
                if earlier.get(t.name, set()) - {e[1]}:
                    return True
    return False


def explore_histories(S, xml, P, plist, hlen, acc, mid):
    texts = history_texts(S, plist)
    rendered = [H.render_events(t) for t in texts]
    refs = [R.decide(S, t, packages=P.types, preimported=PRE[0], package_imports=P.imports) for t in texts]
    fresh = H.load_schema(xml)
    fresh_digest = None
    for n in range(1, hlen + 1):
        for hist in itertools.product(range(len(texts)), repeat=n):
            sch = H.load_schema(xml)
            d0 = H.schema_digest(sch)
            leaked = False
            for step, ti in enumerate(hist):
                obs = observe(sch, rendered[ti])
                acc.ev()
                acc.transitions += 1
                ref = refs[ti]
                case = {"member": mid, "history": [rendered[i] for i in hist[:step + 1]]}
                earlier_import = any(any(e[0] == "i" for e in texts[i]) for i in hist[:step])
                if step >= 1:
                    acc.nt()
                acc.cls("history ref=%s impl=%s" % (ref.verdict, obs[0]))
                if obs[0] == "I":
                    acc.violation("internal-error", case, obs[1], ref.verdict,
                                  tags={"kind": "internal-error", "exc": obs[1]["class"]})
                    break
                if ref.verdict != "U" and (obs[0] != ref.verdict or (obs[0] == "A" and obs[1] != ref.tree)):
                    acc.violation("outcome-depends-on-earlier-loads", case, [obs[0], repr(obs[1])[:200]],
                                  [ref.verdict, ref.clause],
                                  tags={"kind": "history-outcome", "after_import_load": earlier_import,
                                        "uses_type_imported_earlier": uses_imported(texts, hist, step, P),
                                        "this_load_redefines_that_type": redefines_earlier_type(texts, hist, step, P),
                                        "clause": ref.clause})
                    break
                d1 = H.schema_digest(sch)
                if d1 != d0:
                    diff = [a[:2] for a, b in zip(d0, d1) if a != b]
                    acc.violation("schema-changed-by-load", case, repr(diff)[:300], "digest unchanged",
                                  tags={"kind": "schema-digest",
                                        "with_import": any(e[0] == "i" for e in texts[ti]),
                                        "what": sorted(set(x[0] for x in diff))})
                    d0 = d1        # keep going: later steps show whether the change matters
            acc.sample(lambda: {"member": mid, "history": [rendered[i] for i in hist]})
    acc.states += 1


def shard(arg, acc):
    lo, hi, nconc, two, depth, hlen, tier = arg
    P = pkgs.Packages()
    try:
        plist = make_packages(P)
        for idx, S in enumerate(schemas(nconc, two)):
            if idx < lo or idx >= hi:
                continue
            variants = [(S, S, ())]
            if nconc == 2:
                # the schema itself imports package pb: its types are part of the schema, and a
                # later '%import pb' in a text is a no-op
                pb = plist[1]
                variants.append((replace(S, imports=(pb,), import_pos=1), replace(S, types=S.types + P.types[pb]), (pb,)))
            for Sx, Sref, pre in variants:
                xml = M.render(Sx)
                sch = H.load_schema(xml)
                mid = {"schema": xml, "packages": {k: [t.name for t in v] if v else None for k, v in P.types.items()},
                       "preimported": list(pre)}
                d0 = H.schema_digest(sch)
                PRE[0] = pre
                explore_texts(Sref, sch, P, plist, depth if not pre else min(depth, 3), acc, mid, d0, tier)
                if nconc == 2 and not two and not pre:
                    # components importing each other / themselves, reached through '%import'
                    Am = [("i", P.real[x]) for x in ("pe", "pf", "pg", "pa")] + \
                         [("e", t, None) for t in ("pe1", "pf1", "pg1", "pa1", "c1")]
                    explore_texts(Sref, sch, P, plist, 3 if tier == "quick" else 4, acc, mid, d0, tier, A=Am)
                    acc.extra["mutual_import_explorations"] += 1
                if nconc == 2 and not pre:
                    # a NAMED slot of the abstract type (and of b): admission goes through another branch of the
                    # slot search than for '*' slots, incl. for implementers that only an '%import' brings
                    extra = [M.Sect("nm", "a", attribute="named_a")]
                    if two:
                        extra.append(M.Sect("nb", "b", attribute="named_b"))
                    Sn = replace(Sref, items=tuple(Sref.items) + tuple(extra))
                    xml_n = M.render(Sn)
                    sch_n = H.load_schema(xml_n)
                    mid_n = dict(mid, schema=xml_n)
                    tn = [t.name for t in Sn.types] + ["pa1", "pb1", "pb2", "qq"]
                    An = [("i", P.real[x]) for x in ("pa", "pb")] + \
                         [("e", t, nm) for t in tn for nm in (["nm", "nb"] if two else ["nm"])] + \
                         [("e", "pa1", None), ("e", "c1", None)]
                    explore_texts(Sn, sch_n, P, plist, 3, acc, mid_n, H.schema_digest(sch_n), tier, A=An)
                    acc.extra["named_abstract_slot_explorations"] += 1
                if hlen:
                    explore_histories(Sref, xml, P, plist, hlen if not pre else min(hlen, 2), acc, mid)
                acc.extra["schemas"] += 1
            PRE[0] = ()
    finally:
        P.close()
    acc.traces = acc.transitions
    return acc


def run(tier):
    shards = []
    if tier == "quick":
        fam = [(2, False, 4, 3), (2, True, 4, 2), (3, False, 3, 0)]
    else:
        fam = [(2, False, 5, 4), (2, True, 4, 3), (3, False, 4, 2), (3, True, 3, 2), (4, False, 3, 0)]
    total = 0
    for nconc, two, depth, hlen in fam:
        n = sum(1 for _ in schemas(nconc, two))
        total += n
        step = max(1, n // 16 + (1 if n % 16 else 0))
        for lo in range(0, n, step):
            shards.append((lo, min(n, lo + step), nconc, two, depth, hlen, tier))
    run = core.Run(
        "C12", tier, "model_checking",
        rule="schemas: abstract types a (and b) x 2..%d concrete types, each implementing none / a / b and extending "
             "none / any earlier one, in every combination (%d schemas); 7 generated component packages (two importing each "
             "other, one importing itself - explored in their own text BFS -, pa, pb with "
             "an extender of an implementer, pc defining pa's type name differently, pd needing abstract type b) and 3 "
             "non-components (package without component.xml, plain module, missing); for the two-concrete-type schemas also a "
             "variant with NAMED slots of the abstract types, explored with every type under those names; texts: breadth-first search over "
             "all sequences of '%%import P' (7 names) and '<t/>' (every type name, abstract ones, unknown) up to the "
             "depth bound, reference state = (container state, imports seen); histories: all sequences of <= h loads "
             "of 17 representative texts (every 'import X, use a type of Y' combination over three components) against one "
             "schema object; every explored text with an import and a use is also cut into two resources at every point "
             "(tail included from the head / head included ahead of the tail) and must give the same outcome.  Every load: outcome == reference admission; schema "
             "digest unchanged.  Non-trivial = text with >= 1 section use decided by a clause other than unknown-type; "
             "history steps after the first." % (max(f[0] for f in fam), total),
        bounds={"families": fam, "schemas": total},
        assumptions=["reference admission model vz/ref/match.py (imports extend the model of this load only)",
                     "generated packages on a scratch sys.path entry"])
    core.pmap(shard, shards, run.acc, shard_budget=3000.0)
    a = run.acc
    need = ["accepted", "no-slot-admits-type", "abstract-type-named-directly", "unknown-type",
            "import-refused-not-a-component-package", "import-redefines-type"]
    missing = [c for c in need if not a.clauses.get(c)]
    run.require(not missing, "reference clauses never decided: %s" % missing)
    return run


def replay(body):
    case = body["case"]
    print("replay of C12 cases needs the generated packages; re-creating them")
    P = pkgs.Packages()
    rc = 0
    try:
        plist = make_packages(P)
        # package names are process-unique: map the recorded names onto the fresh ones by suffix
        def remap(text):
            for real in case["member"]["packages"]:
                logical = real.rsplit("_", 1)[1]
                text = text.replace(real, P.real[logical])
            return text
        for _ in range(2):
            sch = H.load_schema(case["member"]["schema"])
            d0 = H.schema_digest(sch)
            texts = case.get("history") or [case["text"]]
            for t in texts:
                t = remap(t)
                obs = observe(sch, t)
                print("load:\n" + t + "->", obs[0], repr(obs[1])[:200])
            d1 = H.schema_digest(sch)
            print("schema digest changed:", d1 != d0, "; expected:", body["expected"])
            if body["kind"] == "schema-changed-by-load":
                rc = 1 if d1 != d0 else 0
            else:
                rc = 1
    finally:
        P.close()
    return rc
