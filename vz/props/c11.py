"""C11 - schema composition features mean the same as their written-out expansion.

Differential over schemas x texts: composed schemas are generated exhaustively
within bounds (extends chains with key type / datatype / implements variations,
prefixes on schema and section types with every relative / absolute spelling,
schema-level extends of 1..3 base files, component imports along every import
graph over three generated packages); each is rendered together with its
mechanically produced expansion (vz.gen.expand / construction), both are loaded,
and the ENTIRE C01 breadth-first search of the expanded schema is replayed on
both: identical outcome (value tree or rejection) for every text; the two schema
objects must also have the same structure modulo object identity.

Wave 2: an import graph is a graph of *references*, and one component - a
(package, file) pair - can be written in several ways (file omitted or
'component.xml' written out, package absolute or '.'-relative to the prefix),
while a second file of the same package is a different component.  Section (e)
gives every edge of every graph every spelling, and also puts a '%import P' line
in front of texts for every package whose default component the schema already
has (one more path to the same component).
"""
import importlib
import io
import itertools
import os
import shutil
import sys
import tempfile
from dataclasses import replace

from vz import core
from vz.engine import bfs
from vz.gen import expand as X
from vz.gen import schema as M
from vz.harness import load as H
from vz.harness import pkgs
from vz.ref import match as R

WRAP = M.SECT_DT_WRAP
SINT = "vz.harness.dt.strict_int"
LOWER = "vz.harness.dt.lower_key"
M.VALUE_TOKENS[SINT] = ["7", "x"]
M.BAD_KEY_TOKEN[LOWER] = "a-b"


# ---------------------------------------------------------------------------
# (a) extends chains

def link_item(kind, i):
    if kind == "key":
        return M.Key("k%d" % i, default="d%d" % i)
    if kind == "multikey":
        return M.MultiKey("m%d" % i, "integer", defaults=("1", "2"))
    if kind == "wild":
        return M.Key("+", attribute="w", default=(("Da", "x"), ("db", "y")))
    if kind == "wild-case":
        return M.Key("+", attribute="w", default=(("Da", "x"), ("da", "y")))
    if kind == "wildmulti":
        return M.MultiKey("+", attribute="w", defaults=(("Da", "x"), ("da", "y"), ("db", "z")))
    if kind == "section":
        return M.Sect("n%d" % i, "l1")
    if kind == "multisection":
        return M.Sect("*", "a", attribute="s%d" % i, multi=True)
    raise ValueError(kind)


KINDS = ["key", "multikey", "wild", "wildmulti", "section", "multisection"]
KT = [None, "identifier", "basic-key"]
DT = [None, WRAP]


def chain_schema(links):
    """links: list of (item kind, keytype, datatype, implements)"""
    types = [M.AType("a"), M.SType("l1", (M.Key("lk", default="d"),)),
             M.SType("i0", (M.Key("ik"),), implements="a")]
    items = []
    for i, (kind, kt, dt, impl) in enumerate(links, 1):
        types.append(M.SType("t%d" % i, (link_item(kind, i),), extends="t%d" % (i - 1) if i > 1 else None,
                             implements="a" if impl else None, keytype=kt, datatype=dt))
        items.append(M.Sect("*", "t%d" % i, attribute="c%d" % i, multi=True))
    items.append(M.Sect("*", "a", attribute="abs", multi=True))
    return M.Schema(types=tuple(types), items=tuple(items))


def chains(tier):
    out = []
    wilds = ("wild", "wildmulti", "wild-case")
    for L in (1, 2, 3):
        for kinds in itertools.product(KINDS, repeat=L):
            if sum(k in wilds for k in kinds) > 1:
                continue
            if L == 3 and tier == "quick" and kinds[0] != kinds[2] and kinds[1] != "wild":
                continue
            out.append([(k, None, None, i == 0) for i, k in enumerate(kinds)])
    # all key type / datatype / implements overrides on fixed item combinations
    fixed = [("wild", "key", "multikey"), ("key", "wildmulti", "section"), ("multisection", "key", "wild")]
    if tier == "quick":
        fixed = fixed[:1]
    for kinds in fixed:
        for L in (2, 3):
            per = list(itertools.product(KT, DT, (False, True)))
            if tier == "quick":
                per = [p for p in per if p[1] is None or p[0] is None]
            for ov in itertools.product(per, repeat=L):
                if L == 3 and tier == "quick" and ov[0] != (None, None, False) and ov[2] != (None, None, False):
                    continue
                out.append([(k,) + o for k, o in zip(kinds[:L], ov)])
    # wildcard defaults that collide only under a derived key type
    for kt2 in KT:
        out.append([("wild-case", "identifier", None, False), ("key", kt2, None, False)])
        out.append([("wildmulti", "identifier", None, False), ("key", kt2, None, False)])
    out.append([("key", None, None, False), ("key", LOWER, None, False)])
    return out


# ---------------------------------------------------------------------------
# (b) prefixes

FUNCS = {"sect": WRAP, "key": SINT, "kt": LOWER}
ROOT = "vz.harness.dt"


def spellings(full, prefix):
    out = [full]
    if prefix and full.startswith(prefix + "."):
        out.append(full[len(prefix):])
    return out


def prefix_schemas(tier):
    out = []
    p0s = [None, "vz", "vz.harness", "vz.harness.dt"]
    for p0 in p0s:
        pts = [None, "vz.harness", "vz.harness.dt", "vz"]
        if p0:
            rest = ROOT[len(p0):]                      # e.g. '.harness.dt'
            parts = rest.split(".")[1:]
            for n in range(1, len(parts) + 1):
                pts.append("." + ".".join(parts[:n]))
        for pt in pts:
            eff_t = X.eff_prefix(p0 or "", pt)
            for s_sect, s_key, s_kt in itertools.product(spellings(WRAP, eff_t), spellings(SINT, eff_t),
                                                         spellings(LOWER, eff_t)):
                for s_top in spellings(SINT, p0 or ""):
                    t = M.SType("pt", (M.Key("pk", s_key, default="1"), M.MultiKey("pm")), keytype=s_kt,
                                datatype=s_sect, prefix=pt)
                    d = M.SType("pd", (M.Key("extra", s_key),), extends="pt", prefix=pt)
                    S = M.Schema(types=(t, d), prefix=p0,
                                 items=(M.Key("topk", s_top, default="2"),
                                        M.Sect("*", "pt", attribute="pts", multi=True),
                                        M.Sect("*", "pd", attribute="pds", multi=True)))
                    out.append(S)
    return out


# ---------------------------------------------------------------------------

def outcome(sch, text):
    r = H.load(sch, text)
    if r[0] == "ok":
        return ("A", H.tree(r[1]))
    if r[0] == "rejected":
        return ("R",)
    return ("I", core.exc_desc(r[1]))


def unordered_top(t):
    if t[0] == "A" and isinstance(t[1], tuple) and t[1][0] == "S":
        s = t[1]
        return ("A", (s[0], s[1], s[2], tuple(sorted(s[3]))))
    return t


def load_or_error(xml, url=H.SURL):
    import ZConfig
    try:
        return ZConfig.loadSchemaFile(io.StringIO(xml), url), None
    except ZConfig.SchemaError as e:
        return None, "SchemaError: %s" % str(e)[:100]
    except Exception as e:
        return None, core.exc_desc(e)


def compare(composed_xml, expanded_model, acc, mid, depth, feature, composed_loader=None, top_unordered=False):
    """Load both; replay the BFS of the expanded schema on both."""
    Sx = expanded_model
    ex_xml = M.render(Sx)
    sch_e, err_e = load_or_error(ex_xml)
    if composed_loader is not None:
        sch_c, err_c = composed_loader()
    else:
        sch_c, err_c = load_or_error(composed_xml)
    acc.ev()
    acc.states += 1
    case0 = dict(mid, composed=composed_xml, expanded=ex_xml)
    if (sch_e is None) != (sch_c is None) or isinstance(err_e, dict) or isinstance(err_c, dict):
        acc.violation("schema-acceptance-differs", case0, ["composed", err_c or "accepted"],
                      ["expanded", err_e or "accepted"], tags={"kind": "schema-acceptance", "feature": feature})
        return
    if sch_e is None:
        acc.cls("both-refused")
        return
    acc.cls("both-accepted")
    st_c, st_e = struct(sch_c, top_unordered), struct(sch_e, top_unordered)
    if st_c != st_e:
        d = struct_diff(st_c, st_e)
        acc.violation("composed-schema-structure-differs-from-expansion", case0, ["composed"] + d[:1],
                      ["expanded"] + d[1:], tags={"kind": "structure", "feature": feature})

    def check(hist, text):
        oe = outcome(sch_e, text)
        oc = outcome(sch_c, text)
        acc.ev(2)
        if top_unordered:
            oe, oc = unordered_top(oe), unordered_top(oc)
        if any(e[0] != "c" for e in hist):
            acc.nt()
        acc.cls("text:%s" % oe[0])
        acc.sample(lambda: dict(mid, text=text, outcome=oe[0]))
        ref = R.decide(Sx, hist)
        if ref.verdict == "U":
            # order-dependent slot search (C01 u1-u3): nothing is specified, so nothing is compared
            acc.cls("text:unspecified")
            return False
        if oe != oc:
            acc.violation("composed-differs-from-expansion", dict(case0, text=text),
                          ["composed", oc[0], repr(oc[1:])[:300]], ["expanded", oe[0], repr(oe[1:])[:300]],
                          tags={"kind": "differs", "feature": feature, "composed": oc[0], "expanded": oe[0]})
            return False
        # the reference model is an additional, independent witness on the expanded schema
        if ref.verdict != oe[0]:
            acc.extra["expanded_disagrees_with_reference(C01's)"] += 1
        return oe[0] != "I" and ref.verdict != "U"

    bfs.explore(Sx, sch_e, (), depth, acc, check)


def shard_models(arg, acc):
    kind, lo, hi, tier = arg
    models = chains(tier) if kind == "chain" else prefix_schemas(tier)
    for idx in range(lo, min(hi, len(models))):
        if kind == "chain":
            S = chain_schema(models[idx])
            mid = {"feature": "extends-chain", "links": [list(l) for l in models[idx]]}
        else:
            S = models[idx]
            mid = {"feature": "prefix"}
        compare(M.render(S), X.expand(S), acc, mid, 3, mid["feature"])
    return acc


# ---------------------------------------------------------------------------
# (c) schema-level extends of base files

def schema_extends_chain(nb, variant, d, acc):
    """top extends c1 extends c2 (extends c3): key type / datatype set only at one level of the chain."""
    where = {"chain-root": nb, "chain-mid": 1, "chain-none": 0}[variant]
    all_types, all_items = [], []
    for i in range(nb, 0, -1):
        t = M.SType("ct%d" % i, (M.Key("ck", default="c%d" % i),))
        its = (M.Key("chainkey%d" % i, default="v%d" % i), M.Sect("*", "ct%d" % i, attribute="cs%d" % i, multi=True))
        S = M.Schema(types=(t,), items=its, keytype="identifier" if i == where else None,
                     datatype=WRAP if i == where else None,
                     extends=("chain%d.xml" % (i + 1),) if i < nb else ())
        with open(os.path.join(d, "chain%d.xml" % i), "w") as f:
            f.write(M.render(S))
        all_types.append(t)
        all_items += list(its)
    own_items = (M.Key("Own", default="o"), M.Key("own2", default="p"))
    composed = M.Schema(items=own_items, extends=("chain1.xml",))
    merged = M.Schema(types=tuple(all_types), items=tuple(all_items) + own_items,
                      keytype="identifier" if where else None, datatype=WRAP if where else None)
    path = os.path.join(d, "top.xml")
    with open(path, "w") as f:
        f.write(M.render(composed))

    def loader():
        import ZConfig
        try:
            return ZConfig.loadSchema(path), None
        except ZConfig.SchemaError as e:
            return None, "SchemaError: %s" % str(e)[:100]
        except Exception as e:
            return None, core.exc_desc(e)
    mid = {"feature": "schema-extends", "chain_depth": nb, "types_set_at": variant}
    compare(M.render(composed), X.expand(merged), acc, mid, 3, "schema-extends", composed_loader=loader,
            top_unordered=True)


def shard_schema_extends(arg, acc):
    nb, ktvariant, tier = arg
    d = tempfile.mkdtemp(prefix="vz-c11-", dir="/dev/shm" if os.path.isdir("/dev/shm") else None)
    try:
        if ktvariant.startswith("chain"):
            schema_extends_chain(nb, ktvariant, d, acc)
            return acc
        kts = {"none": [None] * 3, "same": ["identifier"] * 3, "conflict": ["identifier", None, "basic-key"],
               "conflict-explicit": ["identifier", None, "basic-key"], "own-only": [None] * 3}[ktvariant]
        own_kt = {"conflict-explicit": "basic-key", "own-only": "identifier"}.get(ktvariant)
        bases = []
        all_types, all_items = [], []
        for i in range(1, nb + 1):
            t = M.SType("bt%d" % i, (M.Key("bk", default="b%d" % i), M.MultiKey("bm%d" % i)))
            its = (M.Key("basekey%d" % i, default="v%d" % i), M.Sect("*", "bt%d" % i, attribute="bs%d" % i, multi=True))
            bS = M.Schema(types=(t,), items=its, keytype=kts[i - 1])
            fn = "base%d.xml" % i
            with open(os.path.join(d, fn), "w") as f:
                f.write(M.render(bS))
            bases.append(fn)
            all_types.append(t)
            all_items += list(its)
        own_t = M.SType("ot", (M.Key("ok"),), extends="bt1")
        own_items = (M.Key("own", default="o"), M.Sect("*", "ot", attribute="ots", multi=True))
        composed = M.Schema(types=(own_t,), items=own_items, keytype=own_kt, extends=tuple(bases))
        # which key type governs: explicit, else the bases' common one, else conflict -> refused
        specified = [k or "basic-key" for k in kts[:nb]]
        if own_kt:
            eff = own_kt
        elif len(set(specified)) == 1:
            eff = kts[0]
        else:
            eff = "CONFLICT"
        merged = M.Schema(types=tuple(all_types) + (own_t,), items=tuple(all_items) + own_items,
                          keytype=eff if eff != "CONFLICT" else None)
        path = os.path.join(d, "top.xml")
        with open(path, "w") as f:
            f.write(M.render(composed))

        def loader():
            import ZConfig
            try:
                return ZConfig.loadSchema(path), None
            except ZConfig.SchemaError as e:
                return None, "SchemaError: %s" % str(e)[:100]
            except Exception as e:
                return None, core.exc_desc(e)
        mid = {"feature": "schema-extends", "bases": nb, "keytypes": ktvariant}
        if eff == "CONFLICT":
            sch, err = loader()
            acc.ev()
            acc.states += 1
            acc.cls("conflicting-base-keytypes-" + ("refused" if sch is None and not isinstance(err, dict) else "accepted"))
            if sch is not None or isinstance(err, dict):
                acc.violation("conflicting-base-keytypes-not-refused", dict(mid, composed=M.render(composed)),
                              err or "accepted", "SchemaError", tags={"kind": "schema-acceptance", "feature": "schema-extends"})
            return acc
        compare(M.render(composed), X.expand(merged), acc, mid, 3, "schema-extends", composed_loader=loader,
                top_unordered=True)
    finally:
        shutil.rmtree(d, ignore_errors=True)
    return acc


# ---------------------------------------------------------------------------
# (d) component imports

def shard_imports(arg, acc):
    lo, hi, tier = arg
    combos = import_combos(tier)
    P = pkgs.Packages()
    try:
        ta = M.SType("ta", (M.Key("ak", default="a"),), implements="a")
        tb = M.SType("tb", (M.Key("bk"),), extends="ta")
        tc = M.SType("tc", (M.MultiKey("cm"),), implements="a")
        tdefs = {"pa": [ta], "pb": [tb], "pc": [tc]}
        real = {}
        made = {}
        for idx in range(lo, min(hi, len(combos))):
            pb_imp, pc_imp, top = combos[idx]
            key = (pb_imp, pc_imp)
            if key not in made:
                n = len(made)
                names = {k: "%s%d" % (k, n) for k in ("pa", "pb", "pc")}
                ra = P.add_component(names["pa"], tdefs["pa"])
                rb = P.add_component(names["pb"], tdefs["pb"], imports=[P.name(names[x]) for x in pb_imp])
                rc = P.add_component(names["pc"], tdefs["pc"], imports=[P.name(names[x]) for x in pc_imp])
                made[key] = {"pa": ra, "pb": rb, "pc": rc}
            rn = made[key]
            deps = {"pa": (), "pb": pb_imp, "pc": pc_imp}
            # expansion: types defined in place once, in first-import order
            order = []
            failed = [False]

            def imp(p):
                if p in order:
                    return
                order.append(p)            # registered before its content is read (idempotence)
                for q in deps[p]:
                    imp(q)
                seq.extend(tdefs[p])
            seq = []
            for p in top:
                imp(p)
            names_defined = [t.name for t in seq]
            ill = any(t.extends and t.extends not in names_defined[:i] for i, t in enumerate(seq))
            if ill:
                # the expansion would use a type before its definition: the composed schema must be refused
                composed = M.Schema(types=(M.AType("a"),), items=(M.Sect("*", "a", attribute="abs", multi=True),),
                                    imports=tuple(rn[p] for p in top), import_pos=1)
                sch, err = load_or_error(M.render(composed))
                acc.ev()
                acc.states += 1
                if sch is not None or isinstance(err, dict):
                    acc.violation("import-order-makes-type-undefined-but-accepted",
                                  {"feature": "component-imports", "composed": M.render(composed),
                                   "pb_imports": list(pb_imp), "schema_imports": list(top)},
                                  err or "accepted", "SchemaError",
                                  tags={"kind": "schema-acceptance", "feature": "component-imports"})
                else:
                    acc.cls("both-refused")
                continue
            items = [M.Sect("*", "a", attribute="abs", multi=True)]
            for t in seq:
                items.append(M.Sect("*", t.name, attribute="s_" + t.name, multi=True))
            composed = M.Schema(types=(M.AType("a"),), items=tuple(items), imports=tuple(rn[p] for p in top), import_pos=1)
            expanded = M.Schema(types=(M.AType("a"),) + tuple(seq), items=tuple(items))
            mid = {"feature": "component-imports", "pb_imports": list(pb_imp), "pc_imports": list(pc_imp),
                   "schema_imports": list(top)}
            compare(M.render(composed), X.expand(expanded), acc, mid, 2 if tier == "quick" else 3, "component-imports")
    finally:
        P.close()
    return acc



# ---------------------------------------------------------------------------
# (e) spelling of import references x several component files per package x %import lines
#
# A component is a (package, file) pair.  The same component can be named in several ways
# (docs/writing-schema.rst, <import>): the file left to its default or spelled 'component.xml';
# the package absolute or '.'-relative to the enclosing prefix.  A second file of a package is
# a different component.  Every edge of an import graph gets every spelling.

TARGETS = {"A": ("pa", None), "B": ("pb", None), "C": ("pc", None), "X": ("pa", "extra.xml")}
SPELL = {"quick": {None: ("abs", "file", "rel"), "extra.xml": ("abs", "rel")},
         "thorough": {None: ("abs", "file", "rel", "relfile"), "extra.xml": ("abs", "rel")}}


def refs_of(target, tier):
    return [(target, sp) for sp in SPELL[tier][TARGETS[target][1]]]


def ref_xml(root, ref):
    target, sp = ref
    pkg, fn = TARGETS[target]
    name = "." + pkg if sp.startswith("rel") else root + "." + pkg
    if fn is None and sp in ("file", "relfile"):
        fn = "component.xml"
    return '<import package="%s"%s/>' % (name, ' file="%s"' % fn if fn else "")


def needs_prefix(refs):
    return any(sp.startswith("rel") for _, sp in refs)


def edge_lists(targets, maxlen, tier, repeat=False):
    """every list of length 0..maxlen over `targets` (without repetition unless `repeat`), every spelling of
    every element"""
    out = []
    for n in range(0, maxlen + 1):
        lists = itertools.product(targets, repeat=n) if repeat else itertools.permutations(targets, n)
        for tl in lists:
            out += list(itertools.product(*[refs_of(t, tier) for t in tl]))
    return out


def spelling_space(tier):
    """package sets: (edges of pb, edges of pc); the schema's own import lists are enumerated per set"""
    pb = edge_lists(("A",), 1, tier)
    pc = edge_lists(("A", "B", "X"), 2, tier)
    return [(b, c) for b in pb for c in pc]


def top_lists(tier):
    """the schema's own import lists: length 1..2 over the tier's alphabet; thorough adds length 3 over the quick alphabet"""
    out = [t for t in edge_lists(("A", "B", "C", "X"), 2, tier, repeat=True) if t]
    if tier != "quick":
        out += [t for t in edge_lists(("A", "B", "C", "X"), 3, "quick", repeat=True) if len(t) == 3]
    return out


class CompTree:
    """One root package with the sub-packages pa, pb, pc; pa carries two component files."""

    def __init__(self, base, n, tdefs, edges):
        self.root = "vzc11_%d" % n           # n is unique over the whole run: the name (and every case) is reproducible
        d = os.path.join(base, self.root)
        os.makedirs(d)
        with open(os.path.join(d, "__init__.py"), "w") as f:
            f.write("# generated\n")
        for pkg in ("pa", "pb", "pc"):
            os.makedirs(os.path.join(d, pkg))
            with open(os.path.join(d, pkg, "__init__.py"), "w") as f:
                f.write("# generated\n")
        for target, (pkg, fn) in TARGETS.items():
            refs = edges.get(target, ())
            lines = ["<component%s>" % (' prefix="%s"' % self.root if needs_prefix(refs) else "")]
            lines += ["  " + ref_xml(self.root, r) for r in refs]
            for t in tdefs[target]:
                lines += M.render_type(t)
            lines.append("</component>")
            with open(os.path.join(d, pkg, fn or "component.xml"), "w") as f:
                f.write("\n".join(lines) + "\n")
        importlib.invalidate_caches()
        self.files = {t: open(os.path.join(d, TARGETS[t][0], TARGETS[t][1] or "component.xml")).read() for t in TARGETS}

    def forget(self):
        for k in [k for k in sys.modules if k == self.root or k.startswith(self.root + ".")]:
            del sys.modules[k]


def _fn(f):
    if f is None:
        return None
    return "%s.%s" % (getattr(f, "__module__", None) or type(f).__module__,
                      getattr(f, "__qualname__", None) or type(f).__qualname__)


def struct(schema, top_unordered=False):
    """What a schema object says, modulo object identity: per type the key type, the datatype and the
    ordered items (key, kind, name, attribute, occurrence bounds, handler, datatype, section type or default);
    per abstract type the set of implementers."""
    def rows(t):
        out = []
        for key, info in t:
            r = [key, type(info).__name__, info.name, info.attribute, info.minOccurs, repr(info.maxOccurs),
                 info.handler, _fn(info.datatype)]
            if info.issection():
                r.append(("type", info.sectiontype.name))
            else:
                r.append(("default", H.canon_value(info.getdefault())))
            out.append(tuple(r))
        return tuple(out)
    out = []
    for n in sorted(schema.gettypenames()):
        t = schema.gettype(n)
        if t.isabstract():
            out.append(("abstract", n, tuple(sorted(t.getsubtypenames()))))
        else:
            out.append(("concrete", n, _fn(t.keytype), _fn(t.datatype), rows(t)))
    top = rows(schema)
    out.append(("schema", _fn(schema.keytype), _fn(schema.datatype), schema.handler,
                tuple(sorted(top, key=repr)) if top_unordered else top))
    return tuple(out)


def struct_diff(a, b):
    for x, y in zip(a, b):
        if x != y:
            return [repr(x)[:300], repr(y)[:300]]
    return [len(a), len(b)]


def shard_spellings(arg, acc):
    lo, hi, tier = arg
    space = spelling_space(tier)
    tops = top_lists(tier)
    ta = M.SType("ta", (M.Key("ak", default="a"),), implements="a")
    tb = M.SType("tb", (M.Key("bk"),), extends="ta")
    tc = M.SType("tc", (M.MultiKey("cm"),), implements="a")
    tx = M.SType("tx", (M.Key("xk", default="x"), M.Sect("*", "a", attribute="xs", multi=True)), implements="a")
    tdefs = {"A": [ta], "B": [tb], "C": [tc], "X": [tx]}
    base = tempfile.mkdtemp(prefix="vz-c11-", dir="/dev/shm" if os.path.isdir("/dev/shm") else None)
    sys.path.insert(0, base)
    depth = 1 if tier == "quick" else 2
    try:
        for idx in range(lo, min(hi, len(space))):
            pb_edges, pc_edges = space[idx]
            T = CompTree(base, idx, tdefs, {"B": pb_edges, "C": pc_edges})
            deps = {"A": (), "X": (), "B": tuple(t for t, _ in pb_edges), "C": tuple(t for t, _ in pc_edges)}
            by_graph = {}
            for top in tops:
                by_graph.setdefault(tuple(t for t, _ in top), []).append(top)
            for gtop, variants in by_graph.items():
                d = 1 if len(gtop) > 2 else depth
                spellings_graph(T, deps, pb_edges, pc_edges, gtop, variants, tdefs, d, d - 1, acc)
            T.forget()
    finally:
        try:
            sys.path.remove(base)
        except ValueError:
            pass
        importlib.invalidate_caches()
        shutil.rmtree(base, ignore_errors=True)
    return acc


def spellings_graph(T, deps, pb_edges, pc_edges, gtop, variants, tdefs, depth, imp_depth, acc):
    """One import graph (who imports which component, in which order); `variants` are the spellings of the
    schema's own import list.  The expansion and its texts are computed once, every variant is held against it."""
    order, seq = [], []

    def imp(c):
        if c in order:
            return
        order.append(c)                # registered before its content is read
        for q in deps[c]:
            imp(q)
        seq.extend(tdefs[c])
    for c in gtop:
        imp(c)
    defined = [t.name for t in seq]
    ill = any(t.extends and t.extends not in defined[:i] for i, t in enumerate(seq))
    items = [M.Sect("*", "a", attribute="abs", multi=True)]
    if not ill:
        for t in seq:
            items.append(M.Sect("*", t.name, attribute="s_" + t.name, multi=True))
    texts = []
    sch_e = st_e = None
    if not ill:
        Sx = X.expand(M.Schema(types=(M.AType("a"),) + tuple(seq), items=tuple(items)))
        ex_xml = M.render(Sx)
        sch_e, err_e = load_or_error(ex_xml)
        if sch_e is None:
            raise core.HarnessError("expansion of an import graph refused: %r" % (err_e,))
        st_e = struct(sch_e)

        def collect(hist, text):
            oe = outcome(sch_e, text)
            ref = R.decide(Sx, hist)
            texts.append((hist, text, oe, ref.verdict))
            return oe[0] != "I" and ref.verdict != "U"
        sub = core.Acc()
        bfs.explore(Sx, sch_e, (), depth, sub, collect)
        acc.ev(1 + len(texts))         # the expansion and its texts are loaded once per graph
        acc.states += 1 + sub.states
    # packages whose default component is part of the schema: '%import P' names a component already there
    present = [T.root + "." + TARGETS[c][0] for c in order if TARGETS[c][1] is None]
    for top in variants:
        lines = M.render(M.Schema(types=(M.AType("a"),), items=tuple(items),
                                  prefix=T.root if needs_prefix(top) else None)).split("\n")
        lines[2:2] = ["  " + ref_xml(T.root, r) for r in top]
        composed = "\n".join(lines)
        sch_c, err_c = load_or_error(composed)
        acc.ev()
        acc.states += 1
        read = all_refs(top, pb_edges, pc_edges, order)
        spell = "+".join(sorted(set(sp for _, sp in read)))
        mid = {"feature": "import-spelling", "schema_imports": [list(r) for r in top],
               "pb_imports": [list(r) for r in pb_edges], "pc_imports": [list(r) for r in pc_edges],
               "composed": composed, "components": T.files, "root": T.root}
        kinds = set()
        for c in order:
            sps = [sp for cc, sp in read if cc == c]
            if len(set(sps)) > 1:
                kinds.add("same-component-spelled-differently")
            if len(sps) > 1:
                kinds.add("component-reached-repeatedly")
        if "A" in order and "X" in order:
            kinds.add("two-files-of-one-package")
        for k in kinds:
            acc.cls("imports:" + k)
        for sp in spell.split("+"):
            acc.cls("imports:uses-" + sp)
        if ill:
            if sch_c is not None or isinstance(err_c, dict):
                acc.violation("import-order-makes-type-undefined-but-accepted", mid, err_c or "accepted", "SchemaError",
                              tags={"kind": "schema-acceptance", "feature": "import-spelling"})
            else:
                acc.cls("both-refused")
            continue
        if sch_c is None:
            acc.violation("schema-acceptance-differs", dict(mid, expanded=ex_xml), ["composed", err_c],
                          ["expanded", "accepted"], tags={"kind": "schema-acceptance", "feature": "import-spelling"})
            continue
        acc.cls("both-accepted")
        st_c = struct(sch_c)
        if st_c != st_e:
            acc.violation("composed-schema-structure-differs-from-expansion", dict(mid, expanded=ex_xml),
                          ["composed"] + struct_diff(st_c, st_e)[:1], ["expanded"] + struct_diff(st_c, st_e)[1:],
                          tags={"kind": "structure", "feature": "import-spelling"})
            continue
        for hist, text, oe, verdict in texts:
            variants_t = [("", text)]
            if len(hist) <= imp_depth:
                variants_t += [("%import " + p, "%%import %s\n%s" % (p, text)) for p in present]
            for label, txt in variants_t:
                oc = outcome(sch_c, txt)
                acc.ev()
                acc.transitions += 1
                if hist:
                    acc.nt()
                acc.cls("text:%s" % oe[0])
                if label:
                    acc.cls("imports:text-with-%import-of-a-present-component")
                acc.sample(lambda: {"feature": "import-spelling", "schema_imports": [list(r) for r in top],
                                    "text": txt, "outcome": oe[0]})
                if verdict == "U":
                    acc.cls("text:unspecified")
                    continue
                if oe != oc:
                    acc.violation("composed-differs-from-expansion", dict(mid, expanded=ex_xml, text=txt),
                                  ["composed", oc[0], repr(oc[1:])[:300]], ["expanded", oe[0], repr(oe[1:])[:300]],
                                  tags={"kind": "differs", "feature": "import-spelling", "composed": oc[0],
                                        "expanded": oe[0], "percent_import": bool(label)})
                    break


def all_refs(top, pb_edges, pc_edges, order):
    """references actually read while the schema is loaded"""
    out = list(top)
    if "B" in order:
        out += list(pb_edges)
    if "C" in order:
        out += list(pc_edges)
    return out


def import_combos(tier):
    out = []
    for pb_imp in ((), ("pa",)):
        for pc_imp in ((), ("pa",), ("pb",), ("pa", "pb"), ("pb", "pa")):
            for n in (1, 2, 3):
                for top in itertools.product(("pa", "pb", "pc"), repeat=n):
                    out.append((pb_imp, pc_imp, top))
    return out


def run(tier):
    nch = len(chains(tier))
    npr = len(prefix_schemas(tier))
    nim = len(import_combos(tier))
    nsp = len(spelling_space(tier))
    ntop = len(top_lists(tier))
    run = core.Run(
        "C11", tier, "model_checking",
        rule="%d extends chains (length 1..3; every item kind per link; key type / datatype / implements overridden at "
             "every subset of links on fixed item combinations; wildcard defaults that collide only under a derived key "
             "type), %d prefix schemas (schema prefix x section-type prefix, relative and absolute, x every relative / "
             "absolute spelling of a section datatype, a key datatype, a key type and a schema-level key datatype), "
             "schema-level extends of 1..3 base files x 5 key-type situations and extends chains of depth 2..3 with key type / datatype set at one level, %d component import graphs (3 packages: "
             "who imports whom x every import list of length 1..3 incl. repeats): each composed schema and its "
             "expansion are loaded and the whole breadth-first search (C01 engine, depth 3; 2 for imports in quick) of "
             "the expanded schema is replayed on both; the two schema objects must also have the same structure (types, key "
             "types, datatypes, ordered items with their defaults, implementers).  Import-reference spellings: a component "
             "is a (package, file) pair; 4 components in 3 sub-packages of one root package (pa has component.xml and "
             "extra.xml); pb imports [] or [A], pc imports every list without repetition of length <= 2 over {A, B, X}, the "
             "schema imports every list of length 1..%d over {A, B, C, X}; EVERY edge carries EVERY spelling of its "
             "component out of {%s} for a default file (abs = absolute package, file omitted; file = file='component.xml' "
             "written out; rel = '.pkg' under a prefix naming the root package; relfile = both) and {abs, rel} for extra.xml: %d package "
             "sets x %d schema import lists = %d composed schemas, each held against the expansion of its graph "
             "(acceptance, structure, every text of the BFS to depth %d), and every text of depth <= %d also with a "
             "'%%import P' line in front for every package P whose default component the schema already has "
             "(thorough: lists of length 3 use the quick alphabet and text depth 1 / 0).  "
             "states = schemas + BFS states, transitions = texts.  "
             "Non-trivial = text with >= 1 key or section event (every type here exists through composition)."
             % (nch, npr, nim, 2 if tier == "quick" else 3, ", ".join(SPELL[tier][None]), nsp, ntop, nsp * ntop,
                1 if tier == "quick" else 2, 0 if tier == "quick" else 1),
        bounds={"chains": nch, "prefix_schemas": npr, "import_graphs": nim, "depth": 3,
                "import_spelling_package_sets": nsp, "import_spelling_schema_import_lists": ntop,
                "import_spelling_schemas": nsp * ntop, "import_spelling_alphabet": list(SPELL[tier][None]),
                "import_spelling_text_depth": 1 if tier == "quick" else 2},
        assumptions=["expansion rules of vz/gen/expand.py written from the statement",
                     "merge order of base schemas is not fixed by the statement: top-level attribute order is not compared there",
                     "not generated (unspecified): a derived key type under which declared base key names are not fixed points"])
    shards = []
    for kind, n in (("chain", nch), ("prefix", npr)):
        step = max(1, (n + 31) // 32)
        shards += [(kind, lo, lo + step, tier) for lo in range(0, n, step)]
    core.pmap(shard_models, shards, run.acc, shard_budget=3000.0)
    core.pmap(shard_schema_extends, [(nb, v, tier) for nb in (1, 2, 3)
                                     for v in ("none", "same", "conflict", "conflict-explicit", "own-only")] +
              [(nb, v, tier) for nb in (2, 3) for v in ("chain-root", "chain-mid", "chain-none")], run.acc)
    step = max(1, (nim + 31) // 32)
    core.pmap(shard_imports, [(lo, lo + step, tier) for lo in range(0, nim, step)], run.acc)
    step = max(1, (nsp + 63) // 64)
    core.pmap(shard_spellings, [(lo, lo + step, tier) for lo in range(0, nsp, step)], run.acc, shard_budget=3000.0)
    a = run.acc
    a.traces = a.transitions
    c = a.classes
    run.require(c.get("imports:same-component-spelled-differently", 0) > 1000,
                "import-spelling axis: few schemas reach one component under two different spellings")
    run.require(c.get("imports:two-files-of-one-package", 0) > 1000,
                "import-spelling axis: few schemas import two component files of one package")
    run.require(c.get("imports:text-with-%import-of-a-present-component", 0) > 1000,
                "import-spelling axis: few texts with a %import line naming a component the schema already has")
    run.require(all(c.get("imports:uses-" + sp, 0) > 100 for sp in SPELL[tier][None]),
                "import-spelling axis: a spelling of the alphabet was hardly used")
    run.require(a.classes.get("both-accepted", 0) > 100, "few composed schemas accepted")
    run.require(a.classes.get("both-refused", 0) >= 3, "no composed schema refused together with its expansion")
    run.require(a.classes.get("text:A", 0) > 1000, "few accepted texts")
    return run


def replay(body):
    case = body["case"]
    rc = 0
    if case.get("feature") == "import-spelling":
        return replay_spelling(case)
    if case.get("feature") in ("schema-extends", "component-imports"):
        print("cases with base files / generated packages are re-checked by ./check C11")
        return 1
    for _ in range(2):
        sc, ec = load_or_error(case["composed"])
        se, ee = load_or_error(case["expanded"])
        print("composed schema:", ec or "accepted", "; expanded schema:", ee or "accepted")
        if (sc is None) != (se is None):
            rc = 1
        elif sc is not None and "text" in case:
            a, b = outcome(sc, case["text"]), outcome(se, case["text"])
            print("text:\n" + case["text"] + "composed:", a[0], repr(a[1:])[:200], "\nexpanded:", b[0], repr(b[1:])[:200])
            if a != b:
                rc = 1
    return rc


def replay_spelling(case):
    """Rebuild the generated packages from the recorded component files and hold the composed schema against
    the expansion again (twice)."""
    base = tempfile.mkdtemp(prefix="vz-c11-", dir="/dev/shm" if os.path.isdir("/dev/shm") else None)
    root = case["root"]
    rc = 0
    sys.path.insert(0, base)
    try:
        os.makedirs(os.path.join(base, root))
        open(os.path.join(base, root, "__init__.py"), "w").close()
        for target, content in case["components"].items():
            pkg, fn = TARGETS[target]
            d = os.path.join(base, root, pkg)
            os.makedirs(d, exist_ok=True)
            open(os.path.join(d, "__init__.py"), "w").close()
            with open(os.path.join(d, fn or "component.xml"), "w") as f:
                f.write(content)
            print("--- %s/%s/%s\n%s" % (root, pkg, fn or "component.xml", content))
        print("--- composed schema\n" + case["composed"])
        for _ in range(2):
            sc, ec = load_or_error(case["composed"])
            print("composed schema:", ec or "accepted")
            if "expanded" not in case:
                if sc is not None:
                    rc = 1
                continue
            se, ee = load_or_error(case["expanded"])
            print("expanded schema:", ee or "accepted")
            if (sc is None) != (se is None):
                rc = 1
            elif sc is not None:
                if struct(sc) != struct(se):
                    print("structure differs:", struct_diff(struct(sc), struct(se)))
                    rc = 1
                if "text" in case:
                    plain = "".join(l for l in case["text"].splitlines(True) if not l.startswith("%import "))
                    a, b = outcome(sc, case["text"]), outcome(se, plain)
                    print("text:\n" + case["text"] + "composed:", a[0], repr(a[1:])[:200], "\nexpanded:", b[0], repr(b[1:])[:200])
                    if a != b:
                        rc = 1
    finally:
        try:
            sys.path.remove(base)
        except ValueError:
            pass
        for k in [k for k in sys.modules if k == root or k.startswith(root + ".")]:
            del sys.modules[k]
        importlib.invalidate_caches()
        shutil.rmtree(base, ignore_errors=True)
    return rc
