#!/usr/bin/env python3
"""summary_md.py -> markdown table of the committed quick-tier evidence (DESIGN.md section 8.2b)."""
import json, glob
m = json.load(open('/verif/MANIFEST.json'))
eng = {c['property_id']: c.get('engine', '') for c in m['checks']}
print("| id | level | engine | evaluations | distinct non-trivial | states | transitions | outcome classes | known findings printed | wall (s, when the evidence was written) |")
print("|---|---|---|---|---|---|---|---|---|---|")
for f in sorted(glob.glob('/verif/evidence/C*.json')):
    e = json.load(open(f)); c = e['coverage']
    print("| %s | %s | %s | %s | %s | %s | %s | %d | %s | %.0f |" % (
        e['property_id'], e['level'], eng.get(e['property_id'], ''), f"{c['evaluations']:,}".replace(",", " "),
        f"{c['distinct_nontrivial']:,}".replace(",", " "), f"{c['states']:,}".replace(",", " "),
        f"{c['transitions']:,}".replace(",", " "), len(c.get('outcome_classes', {})),
        ", ".join(c.get('violations_attributed_to_known_findings', [])) or "-", e['wall_s']))
