"""C17 - schema-less configurations survive serialisation and re-reading unchanged.

E1 over the C03 text spaces (plus a line alphabet extended with '$$', grammar
characters after the key, empty values, repeated keys, mixed case, imports at
depth).  Oracle: differential round trip parse -> str -> parse -> str.
"""
import io
import itertools

from vz import core
from vz.gen import texts as G
from vz.props.c03 import sec_tree

URL = "file:///v/main.conf"
GRAMMAR_CHARS = set("<>/%#()$")


def load(text):
    import ZConfig
    from ZConfig import schemaless
    try:
        return "ok", schemaless.loadConfigFile(io.StringIO(text), URL)
    except NotImplementedError as e:
        return "notimplemented", None
    except ZConfig.ConfigurationError as e:
        return "rejected", type(e).__name__
    except Exception as e:
        return "internal", core.exc_desc(e)


def full_tree(top):
    t = sec_tree(top)
    t["imports"] = list(top.imports)
    return t


def features(tree):
    f = set()

    def walk(t, top):
        if not top:
            if t["type"].endswith("/") or (t["name"] or "").endswith("/"):
                f.add("header-ends-with-slash")
        for k, vs in t["keys"].items():
            for v in vs:
                if "$" in v:
                    f.add("dollar-in-value")
                if v != v.strip():
                    f.add("value-has-surrounding-blanks")
        for s in t["sections"]:
            walk(s, False)
    walk(tree, True)
    return f


# environment the '$(NAME)' lines of the alphabet refer to (set in every process that runs cases)
ENV = {"VZ_C17_PAD": " p ", "VZ_C17_EMPTY": "", "VZ_C17_MID": "m $x #y", "VZ_C17_LT": "<a>"}


def set_env():
    import os
    os.environ.update(ENV)


def nontrivial(tree):
    def walk(t):
        if t["sections"]:
            return True
        for k, vs in t["keys"].items():
            if len(vs) > 1:
                return True
            for v in vs:
                if GRAMMAR_CHARS & set(v):
                    return True
        return False
    return walk(tree)


def check_text(text, acc, what):
    acc.current = text
    set_env()
    st, r1 = load(text)
    acc.ev()
    has_define = any(l.strip().startswith(("%define", "%include")) for l in text.split("\n"))
    if st == "internal":
        acc.violation("internal-error", {"text": text}, r1, "configuration error or result",
                      tags={"kind": "internal-error", "exc": r1["class"]})
        return
    if st == "notimplemented":
        acc.cls("refused-define-include")
        return
    if st == "rejected":
        acc.cls("rejected")
        return
    acc.cls("accepted")
    # '%define' / '%include' must be refused, never silently dropped
    from vz.ref import lines as RL
    ref = RL.parse(text, on_define="refuse", on_include="refuse")
    if not ref.ok and "notimplemented" in ref.error[1] and not ref.unspec:
        acc.violation("define-or-include-silently-accepted", {"text": text}, "accepted", "refused")
        return
    t1 = full_tree(r1)
    feats = features(t1)
    if "$(" not in text:
        # outer blanks can only come out of an environment variable; from literal text they are a parser matter
        feats.discard("value-has-surrounding-blanks")
    feat = ("header-ends-with-slash" if "header-ends-with-slash" in feats else
            "value-has-surrounding-blanks-from-env" if "value-has-surrounding-blanks" in feats else
            "dollar-in-value" if "dollar-in-value" in feats else "none")
    case = {"text": text, "space": what}
    try:
        s1 = str(r1)
    except Exception as e:
        acc.violation("str-raises", case, core.exc_desc(e), "text", tags={"kind": "str-raises", "feature": feat})
        return
    st2, r2 = load(s1)
    if nontrivial(t1):
        acc.nt()
    acc.sample(lambda: {"text": text, "serialised": s1})
    if st2 != "ok":
        acc.violation("reload-fails", dict(case, serialised=s1), [st2, r2], "reload succeeds",
                      tags={"kind": "roundtrip", "feature": feat})
        return
    t2 = full_tree(r2)
    if t2 != t1:
        acc.violation("reload-differs", dict(case, serialised=s1), t2, t1,
                      tags={"kind": "roundtrip", "feature": feat})
        return
    s2 = str(r2)
    if s2 != s1:
        acc.violation("second-serialisation-differs", dict(case, serialised=s1), s2, s1,
                      tags={"kind": "roundtrip", "feature": feat})


def shard_lines(shard, acc):
    prefix, L = shard
    for n in range(0, L - len(prefix) + 1):
        for tail in itertools.product(G.CHAR_ALPHABET, repeat=n):
            line = prefix + "".join(tail)
            check_text(line, acc, "line")
            check_text("<x>\n" + line + "\n</x>", acc, "line-in-section")
            check_text("<x y>\nk v\n<z/>\n" + line + "\n</x>\nk " + line, acc, "line-nested-and-as-value")
    return acc


def shard_texts(shard, acc):
    first, n, A = shard
    for m in range(0, n):
        for tail in itertools.product(A, repeat=m):
            lines = (A[first],) + tail
            check_text("\n".join(lines) + "\n", acc, "text")
    return acc


def shard_seed(shard, acc):
    order, lo, hi = shard
    seed = [l for l in G.seed40() if not l.strip().startswith("%define")]
    seed = [l.replace("$x", "$$x").replace("$y", "$$y").replace("${x}", "") for l in seed]
    A = G.LINE_ALPHABET_C17 + G.LINE_ALPHABET
    if order == 0:
        check_text("\n".join(seed) + "\n", acc, "seed")
    elif order == 1:
        for i in range(lo, min(hi, len(seed))):
            for a in A:
                t = list(seed)
                t[i] = a
                check_text("\n".join(t) + "\n", acc, "seed-1")
                t = list(seed)
                t.insert(i, a)
                check_text("\n".join(t) + "\n", acc, "seed-ins")
    else:
        for i in range(lo, min(hi, len(seed))):
            for j in range(i + 1, len(seed)):
                for a in G.LINE_ALPHABET_C17:
                    for b in G.LINE_ALPHABET_C17:
                        t = list(seed)
                        t[i] = a
                        t[j] = b
                        check_text("\n".join(t) + "\n", acc, "seed-2")
    return acc


# the code point inside a value, at the very END of the text (the last printed line), inside a section name, at the
# very start; at the start of a key line that is NOT the first line of the text but IS the first line of its
# serialisation (the printer drops comments and writes keys before sections, so a line changes its position: anything
# that treats the first line specially shows only there); between key and value, inside a section type
UNI_CONTEXTS = [("k v", "w"), ("k v", ""), ("<a b", ">\nk v\n</a>"), ("", "k v"), ("# c\n", "k v"), ("<a/>\n", "k v\n"),
                ("k", " v"), ("<a", ">\n</a")]


def shard_unicode(shard, acc):
    lo, hi, nctx = shard
    for cp in range(lo, hi):
        c = chr(cp)
        for pre, post in UNI_CONTEXTS[:nctx]:
            if post.endswith("</a"):
                check_text(pre + c + post + c + ">", acc, "unicode")
            else:
                check_text(pre + c + post, acc, "unicode")
    return acc


def run(tier):
    L = 4 if tier == "quick" else 5
    n = 3 if tier == "quick" else 4
    nctx = 6 if tier == "quick" else 8
    A = G.LINE_ALPHABET_C17
    run = core.Run(
        "C17", tier, "exploration",
        rule="every line of length <= %d over the 15-class alphabet (alone, in a section, nested and as a "
             "value), every text of <= %d lines over the %d-line C17 alphabet and over the C03 line "
             "alphabet, a 38-line depth-6 seed with every line replaced by / preceded by every alphabet "
             "line (%s), every Unicode code point in %d contexts; for each text the schema-less loader "
             "accepts: load -> str -> load -> str.  Non-trivial = accepted text with a section, a "
             "repeated key or a grammar character in a value (distinct texts; shards partition the space)."
             % (L, n, len(A), "singly" if tier == "quick" else "singly and in pairs", nctx),
        bounds={"max_line_len": L, "max_lines": n, "line_alphabet": A, "unicode_contexts": UNI_CONTEXTS[:nctx]},
        assumptions=["structural equality = same keys/value lists, section type/name/order/nesting, imports"])
    C = G.CHAR_ALPHABET
    core.pmap(shard_lines, [("", 1)] + [(a + b, L) for a in C for b in C], run.acc)
    core.pmap(shard_texts, [(i, n, A) for i in range(len(A))], run.acc)
    core.pmap(shard_texts, [(i, min(n, 3), G.LINE_ALPHABET) for i in range(len(G.LINE_ALPHABET))], run.acc)
    dev = [(0, 0, 0)] + [(1, i, i + 4) for i in range(0, 40, 4)]
    if tier != "quick":
        dev += [(2, i, i + 1) for i in range(0, 39)]
    core.pmap(shard_seed, dev, run.acc)
    step = 0x110000 // 64
    core.pmap(shard_unicode, [(lo, min(lo + step, 0x110000), nctx) for lo in range(0, 0x110000, step)],
              run.acc)
    run.require(run.acc.classes.get("accepted", 0) > 1000, "few accepted texts")
    run.require(run.acc.classes.get("refused-define-include", 0) > 10, "no define/include texts")
    return run


def replay(body):
    acc = core.Acc()
    for _ in range(2):
        check_text(body["case"]["text"], acc, "replay")
    for v in acc.violations.values():
        print("REPLAY violation:", v["kind"], "observed=", v["observed"], "expected=", v["expected"])
    print("replayed: %d violation signature(s)" % len(acc.violations))
    return 1 if acc.violations else 0
