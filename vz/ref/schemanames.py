"""Reference for the SPELLING of every name-bearing attribute of a schema document (C10, wave 3).

Nothing here imports ZConfig.  Every rule is transcribed from docs/writing-schema.rst (the type given in
parentheses after each attribute: basic-key, identifier, dotted-name, 'yes|no', ...) and from
docs/standard-datatypes.rst (what a basic-key / identifier / dotted-name / dotted-suffix is).  All patterns are
anchored with \\Z: a value is well formed only if the WHOLE value matches - no trailing line feed, no blanks.

A *slot* is one attribute of one element kind in one container position.  `SLOTS[slot_id]` gives
(render, judge, stem, keytype_dependent): render(value, keytype_rendering, place) -> schema document,
judge(value, effective keytype) -> (expectation, clause) with expectation in

    accept   the document obeys every rule        -> must load
    reject   the value breaks a rule              -> ZConfig.SchemaError from loadSchemaFile
    refuse   the value breaks a rule, but the statement does not say which error class reports it
             (a malformed key= of a <default>)    -> SchemaError or another ConfigurationError at load time
    total    the documentation is silent          -> accepted or SchemaError
    total-at-load  silent, in a 'refuse' slot     -> accepted, SchemaError or another ConfigurationError
    None     not generated (dotted datatype names: importing them is Registry.search's business)
"""
import re

from vz.ref import schemadoc as R

_BASIC = re.compile(r"[a-zA-Z][-._a-zA-Z0-9]*\Z")
_IDENT = re.compile(r"[_a-zA-Z][_a-zA-Z0-9]*\Z")
_DOTTED = re.compile(r"[_a-zA-Z][_a-zA-Z0-9]*(?:\.[_a-zA-Z][_a-zA-Z0-9]*)*\Z")
_SUFFIX = re.compile(r"(?:\.[_a-zA-Z][_a-zA-Z0-9]*)+\Z")

# docs/standard-datatypes.rst
DOC_STOCK = ("basic-key", "boolean", "byte-size", "dotted-name", "dotted-suffix", "existing-dirpath",
             "existing-directory", "existing-file", "existing-path", "float", "identifier", "inet-address",
             "inet-binding-address", "inet-connection-address", "integer", "ipaddr-or-hostname", "locale", "null",
             "port-number", "socket-address", "string", "time-interval", "timedelta")
# registered by the library but not in that document: nothing is asserted about them
UNDOCUMENTED_STOCK = ("socket-binding-address", "socket-connection-address", "string-list")

# the characters every slot is enumerated over: letters of both cases, a digit, the three punctuation characters
# of basic-key / dotted names, the two special names, and white space of every kind XML can carry
ALPHABET_QUICK = ("a", "B", "1", "_", "-", ".", "+", "*", " ", "\n", "\t", "\r", "\xe9")
ALPHABET_THOROUGH = ALPHABET_QUICK + ("\xa0", "\u2028", ":", "/")
WHITESPACE = (" ", "\n", "\t", "\r", "\xa0", "\u2028")


def xml_attr(v):
    """Attribute value rendering that reaches the parser unchanged: white space as character references
    (a literal line feed or tab in an attribute value is normalised to a blank by every XML parser)."""
    out = []
    for c in v:
        if c == "&":
            out.append("&amp;")
        elif c == "<":
            out.append("&lt;")
        elif c == '"':
            out.append("&quot;")
        elif c in "\n\t\r" or ord(c) > 126:
            out.append("&#%d;" % ord(c))
        else:
            out.append(c)
    return "".join(out)


def strings(alphabet, maxlen):
    out = [""]
    layer = [""]
    for _ in range(maxlen):
        layer = [s + c for s in layer for c in alphabet]
        out += layer
    return out


def insertions(stem, alphabet, maxlen):
    """The stem itself and the stem with every string of 1..maxlen characters inserted at every position."""
    out = [stem]
    seen = {stem}
    for s in strings(alphabet, maxlen)[1:]:
        for p in range(len(stem) + 1):
            v = stem[:p] + s + stem[p:]
            if v not in seen:
                seen.add(v)
                out.append(v)
    return out


def ascii_only(v):
    return all(ord(c) < 128 for c in v)


def _ident_verdict(v, rx=_IDENT):
    """'yes' / 'no' / 'open' (the documentation says 'any valid Python identifier'; whether that includes
    non-ASCII identifiers is left open - DESIGN C09)."""
    if rx.match(v):
        return "yes"
    if not ascii_only(v):
        parts = v.split(".") if rx is not _IDENT else [v]
        if rx is _SUFFIX and v.startswith("."):
            parts = v[1:].split(".")
        if all(p.isidentifier() for p in parts):
            return "open"
    return "no"


def name_verdict(keytype, v):
    """Is v a value of the key type?  -> 'yes' / 'no' / 'open'."""
    kt = keytype or "basic-key"
    if kt == "basic-key":
        return "yes" if _BASIC.match(v) else "no"
    return _ident_verdict(v)


# ---------------------------------------------------------------------------
# documents

HEAD = '  <abstracttype name="zabs"/>\n  <sectiontype name="zleaf" implements="zabs"/>\n'
DEFINED_TYPES = {"zabs": "abstract", "zleaf": "concrete", "zbase": "concrete", "zcont": "concrete"}
PLACES = ("top", "type", "derived")


def kt_attr(kt):
    return ' keytype="%s"' % kt if kt else ""


def document(place, kt, item="", schema_attrs="", types="", root="schema"):
    """place: where `item` goes - 'top' (the schema's own items, key type on <schema>), 'type' (a section type
    carrying the key type), 'derived' (a section type that inherits the key type from its base)."""
    if place == "top":
        return "<%s%s%s>\n%s%s%s</%s>\n" % (root, kt_attr(kt), schema_attrs, HEAD, types, item, root)
    if place == "type":
        return '<%s%s>\n%s%s  <sectiontype name="zcont"%s>\n%s  </sectiontype>\n</%s>\n' % (
            root, schema_attrs, HEAD, types, kt_attr(kt), item, root)
    if place == "derived":
        return ('<%s%s>\n%s%s  <sectiontype name="zbase"%s/>\n  <sectiontype name="zcont" extends="zbase">\n%s'
                '  </sectiontype>\n</%s>\n' % (root, schema_attrs, HEAD, types, kt_attr(kt), item, root))
    raise ValueError(place)


ITEM_TEMPLATES = {
    "key": '    <key name="%(name)s"%(extra)s/>\n',
    "multikey": '    <multikey name="%(name)s"%(extra)s/>\n',
    "section": '    <section type="zleaf" name="%(name)s"%(extra)s/>\n',
    "multisection": '    <multisection type="zleaf" name="%(name)s"%(extra)s/>\n',
}


def item(kind, name, **attrs):
    extra = "".join(' %s="%s"' % (k, xml_attr(v)) for k, v in attrs.items())
    return ITEM_TEMPLATES[kind] % {"name": xml_attr(name), "extra": extra}


# ---------------------------------------------------------------------------
# judges: (value, effective key type) -> (expectation, clause)

def judge_name(kind, with_attribute):
    def judge(v, kt):
        if v == "":
            return "reject", "name-empty"
        if kind == "multisection":
            return ("accept", "multisection-named-star-or-plus") if v in ("*", "+") else \
                ("reject", "multisection-name-not-star-or-plus")
        if v == "*":
            if kind in ("key", "multikey"):
                return "reject", "star-as-key-name"
            return ("accept", "wildcard-name-with-attribute") if with_attribute else \
                ("reject", "wildcard-name-without-attribute")
        if v == "+":
            return ("accept", "wildcard-name-with-attribute") if with_attribute else \
                ("reject", "wildcard-name-without-attribute")
        nv = name_verdict(kt, v)
        if nv == "no":
            return "reject", "name-not-a-value-of-the-key-type"
        if nv == "open":
            return "total", "non-ascii-identifier"
        if with_attribute:
            return "accept", "name-is-a-value-of-the-key-type"
        n = R.norm(kt, v)
        a = n.lower().replace("-", "_")              # "converting hyphens in the key name to underscores"
        if not _IDENT.match(a):
            return "reject", "derived-attribute-not-an-identifier"
        if not _BASIC.match(n):
            return "accept", "derived-attribute-of-a-name-that-is-no-basic-key"
        return "accept", "name-and-derived-attribute-well-formed"
    return judge


def judge_default_key(v, kt):
    nv = name_verdict(kt, v)
    if nv == "no":
        return "refuse", "default-key-not-a-value-of-the-key-type"
    if nv == "open":
        return "total-at-load", "non-ascii-identifier"
    return "accept", "default-key-is-a-value-of-the-key-type"


def judge_type_name(v, kt):
    if not _BASIC.match(v):
        return "reject", "type-name-not-a-basic-key"
    if v.lower() in DEFINED_TYPES:
        return "reject", "type-name-already-used"
    return "accept", "type-name-is-a-basic-key"


def judge_attribute(v, kt):
    if v == "":
        return "total", "empty-attribute"
    iv = _ident_verdict(v)
    if iv == "no":
        return "reject", "attribute-not-an-identifier"
    if iv == "open":
        return "total", "non-ascii-identifier"
    if v.startswith("getSection"):
        return "reject", "attribute-reserved-prefix"
    return "accept", "attribute-is-an-identifier"


def judge_handler(v, kt):
    return ("accept", "handler-is-a-basic-key") if _BASIC.match(v) else ("reject", "handler-not-a-basic-key")


def judge_required(v, kt):
    return ("accept", "required-yes-or-no") if v in ("yes", "no") else ("reject", "required-not-yes-or-no")


def judge_datatype(v, kt):
    if "." in v:
        return None, "dotted-datatype-name-not-generated"
    if not _BASIC.match(v):
        return "reject", "datatype-name-not-a-basic-key"
    if v.lower() in DOC_STOCK:
        return "accept", "documented-stock-datatype"
    if v.lower() in UNDOCUMENTED_STOCK:
        return "total", "undocumented-stock-datatype"
    return "reject", "unknown-datatype-name"


def judge_typeref(want):
    """want: 'any' (section type=: concrete or abstract), 'concrete' (extends=), 'abstract' (implements=)."""
    def judge(v, kt):
        if not _BASIC.match(v):
            return "reject", "type-reference-not-a-basic-key"
        k = DEFINED_TYPES.get(v.lower())
        if k is None or v.lower() in ("zbase", "zcont"):
            return "reject", "type-reference-undefined"
        if want != "any" and k != want:
            return "reject", "type-reference-of-the-wrong-kind"
        return "accept", "type-reference-resolves"
    return judge


def judge_prefix(where):
    """where: 'schema' (nothing outside), 'type-in-prefixed-schema', 'type-in-plain-schema'."""
    def judge(v, kt):
        if v == "":
            return "total", "empty-prefix"
        dv = _ident_verdict(v, _DOTTED)
        if dv == "yes":
            return "accept", "prefix-is-a-dotted-name"
        sv = _ident_verdict(v, _SUFFIX)
        if where != "schema" and sv == "yes":
            return ("accept", "relative-prefix-inside-a-prefix") if where == "type-in-prefixed-schema" else \
                ("total", "relative-prefix-without-outer-prefix-on-a-type")
        if "open" in (dv, sv):
            return "total", "non-ascii-identifier"
        return "reject", "prefix-not-a-dotted-name"
    return judge


# ---------------------------------------------------------------------------
# slots

NAME_STEM = "Ab1"        # a value of every key type used, so that every inserted character decides


def _name_slot(kind, with_attribute):
    def render(v, kt, place):
        it = item(kind, v, attribute="zattr") if with_attribute else item(kind, v)
        return document(place, kt, it)
    return render, judge_name(kind, with_attribute), NAME_STEM, True


def _default_key_slot(kind):
    def render(v, kt, place):
        it = '    <%s name="+" attribute="zattr">\n      <default key="%s">x</default>\n    </%s>\n' % (
            kind, xml_attr(v), kind)
        return document(place, kt, it)
    return render, judge_default_key, NAME_STEM, True


def _item_attr_slot(kind, attr, judge, stem):
    if kind == "multisection" and attr == "attribute":
        inner = judge

        def judge(v, kt):
            return ("reject", "wildcard-name-without-attribute") if v == "" else inner(v, kt)

    def render(v, kt, place):
        name = "*" if kind == "multisection" else "zname"
        kw = {attr: v}
        if kind == "multisection" and attr != "attribute":
            kw["attribute"] = "zattr"
        # attribute order: the enumerated one last
        it = item(kind, name, **kw)
        return document(place, kt, it)
    return render, judge, stem, False


def _type_name_slot(tag):
    def render(v, kt, place):
        return document("top", None, types='  <%s name="%s"/>\n' % (tag, xml_attr(v)))
    return render, judge_type_name, NAME_STEM, False


def _type_attr_slot(attr, judge, stem):
    def render(v, kt, place):
        return document("top", None, types='  <sectiontype name="zfresh" %s="%s"/>\n' % (attr, xml_attr(v)))
    return render, judge, stem, False


def _schema_attr_slot(attr, judge, stem):
    def render(v, kt, place):
        return document("top", None, schema_attrs=' %s="%s"' % (attr, xml_attr(v)))
    return render, judge, stem, False


def _typeref_slot(kind):
    def render(v, kt, place):
        it = '    <%s type="%s" name="%s" attribute="zattr"/>\n' % (kind, xml_attr(v), "zname" if kind == "section" else "*")
        return document(place, kt, it)
    return render, judge_typeref("any"), "zleaf", False


def _type_prefix_slot(outer):
    def render(v, kt, place):
        return document("top", None, types='  <sectiontype name="zfresh" prefix="%s"/>\n' % xml_attr(v),
                        schema_attrs=' prefix="vz.harness"' if outer else "")
    return render, judge_prefix("type-in-prefixed-schema" if outer else "type-in-plain-schema"), "vz.harness", False


SLOTS = {}
for _k in ("key", "multikey", "section"):
    SLOTS[_k + ".name+attribute"] = _name_slot(_k, True)
    SLOTS[_k + ".name"] = _name_slot(_k, False)
SLOTS["multisection.name+attribute"] = _name_slot("multisection", True)
SLOTS["key/default.key"] = _default_key_slot("key")
SLOTS["multikey/default.key"] = _default_key_slot("multikey")
for _k in ("key", "multikey", "section", "multisection"):
    SLOTS[_k + ".attribute"] = _item_attr_slot(_k, "attribute", judge_attribute, NAME_STEM)
    SLOTS[_k + ".handler"] = _item_attr_slot(_k, "handler", judge_handler, NAME_STEM)
    SLOTS[_k + ".required"] = _item_attr_slot(_k, "required", judge_required, "yes")
for _k in ("key", "multikey"):
    SLOTS[_k + ".datatype"] = _item_attr_slot(_k, "datatype", judge_datatype, "integer")
for _k in ("section", "multisection"):
    SLOTS[_k + ".type"] = _typeref_slot(_k)
SLOTS["sectiontype.name"] = _type_name_slot("sectiontype")
SLOTS["abstracttype.name"] = _type_name_slot("abstracttype")
SLOTS["sectiontype.datatype"] = _type_attr_slot("datatype", judge_datatype, "null")
SLOTS["sectiontype.keytype"] = _type_attr_slot("keytype", judge_datatype, "identifier")
SLOTS["sectiontype.extends"] = _type_attr_slot("extends", judge_typeref("concrete"), "zleaf")
SLOTS["sectiontype.implements"] = _type_attr_slot("implements", judge_typeref("abstract"), "zabs")
SLOTS["sectiontype.prefix"] = _type_prefix_slot(False)
SLOTS["sectiontype.prefix-inside-prefix"] = _type_prefix_slot(True)
SLOTS["schema.handler"] = _schema_attr_slot("handler", judge_handler, NAME_STEM)
SLOTS["schema.datatype"] = _schema_attr_slot("datatype", judge_datatype, "null")
SLOTS["schema.keytype"] = _schema_attr_slot("keytype", judge_datatype, "basic-key")
SLOTS["schema.prefix"] = _schema_attr_slot("prefix", judge_prefix("schema"), "vz.harness")

# slots whose document does not depend on the place (type-level and schema-level attributes)
PLACELESS = tuple(s for s in SLOTS if s.split(".")[0] in ("sectiontype", "abstracttype", "schema"))


def slot_values(slot, alphabet, bare_len, ins_len):
    stem = SLOTS[slot][2]
    out = strings(alphabet, bare_len)
    seen = set(out)
    for v in insertions(stem, alphabet, ins_len):
        if v not in seen:
            seen.add(v)
            out.append(v)
    return out
