"""C16 - the composite handler delivers every handled value exactly once, all or nothing.

Engine E2 (the C01 search, merge key extended by the shared handler list) over
schemas with `handler=` on every subset of {schema, each item of the container
under test, wrapper slots, a leaf key}.  On every accepted node the returned
handler object is exercised with complete / incomplete / None-holding /
case-duplicate / upper-cased maps and compared with the entry list the reference
model predicts (own items in schema order after all nested sections, nested
sections in closing order, schema handler last).

Wave 3 adds the axis HOW THE TEXT IS LOADED (see ROUTES below): every accepted node is loaded again
with every single command-line override that addresses a declared key of a section the text holds
(and of the top level), with override lists, through loader objects that serve two loads, through
an ExtendedConfigLoader without options and through %include; the oracle is the reference entry list
of the text edited as the override says (vz/ref/overrides.py).
"""
import io
import itertools

from vz import core
from vz.engine import bfs
from vz.gen import schema as M
from vz.harness import load as H
from vz.harness.dt import Wrapped
from vz.ref import match as R
from vz.ref import overrides as OV
from dataclasses import replace


def family(tier):
    fam = []
    sel1 = M.selections(1)
    sel2 = M.selections(2)
    for placement in (0, 1, 2):
        for lab, items in sel1:
            sites = ["schema"] + ["item%d" % i for i in range(len(items))] + ["lk"]
            if placement >= 1:
                sites.append("cuts")
            if placement >= 2:
                sites.append("mids")
            if tier == "quick" and placement == 2:
                subsets = [tuple(sites)]
            else:
                subsets = [c for k in range(1, len(sites) + 1) for c in itertools.combinations(sites, k)]
            for sub in subsets:
                fam.append((lab, items, placement, sub, 3 if tier == "quick" else 4))
    for placement in ((1,) if tier == "quick" else (0, 1, 2)):
        for lab, items in sel2:
            sites = ["schema", "item0", "item1", "lk"] + (["cuts"] if placement >= 1 else []) + \
                    (["mids"] if placement >= 2 else [])
            subsets = [tuple(sites)]
            if tier != "quick":
                subsets += [("item0", "item1"), ("item1", "lk", "schema")]
                subsets += [tuple(x for x in sites if x != s) for s in sites]
            for sub in subsets:
                fam.append((lab, items, placement, sub, 3))
    return fam


def hname(site):
    # mixed case in the schema text: handler names are normalised as basic-keys
    return "H_%s" % site


def build(member):
    lab, items, placement, sub, depth = member
    items = tuple(replace(it, handler=hname("item%d" % i)) if ("item%d" % i) in sub else it
                  for i, it in enumerate(items))
    env = M.type_env(lk_handler=hname("lk") if "lk" in sub else None, l1_datatype=M.SECT_DT_WRAP)
    return M.place(items, placement, env, cut_datatype=M.SECT_DT_WRAP, schema_datatype=M.SECT_DT_WRAP,
                   schema_handler=hname("schema") if "schema" in sub else None,
                   cuts_handler=hname("cuts") if "cuts" in sub else None,
                   mids_handler=hname("mids") if "mids" in sub else None)


def object_ids(v, out):
    """ids of every attribute value / section object reachable in a result."""
    out.add(id(v))
    if isinstance(v, Wrapped):
        object_ids(v.inner, out)
    elif hasattr(v, "getSectionAttributes"):
        for a in v.getSectionAttributes():
            object_ids(getattr(v, a), out)
    elif isinstance(v, list):
        for x in v:
            object_ids(x, out)
    elif isinstance(v, dict):
        for x in v.values():
            object_ids(x, out)


class Recorder:
    def __init__(self):
        self.calls = []

    def make(self, name):
        def cb(value, name=name):
            self.calls.append((name, value))
        return cb


# ---------------------------------------------------------------------------
# axis "what kind of object is mapped" (wave 2).  The statement speaks of "the callable" of an
# entry and exempts only entries mapped to None, so nothing about the callable but the fact that
# it can be called may influence delivery: not its truth value, its length, its equality with
# None or with other callables, its hashability, its type, nor what it returns.

LOG = []          # (name, value) in the order of the calls, whatever kind of callable was called


def _rec(name, value):
    LOG.append((name, value))


class _Obj:
    def __init__(self, name):
        self.name = name

    def __call__(self, value):
        _rec(self.name, value)

    def method(self, value):
        _rec(self.name, value)


class _BoolFalse(_Obj):
    def __bool__(self):
        return False


class _LenZero(_Obj):
    def __len__(self):
        return 0


class _BoolRaises(_Obj):
    def __bool__(self):
        raise RuntimeError("the truth value of a handler callable was asked for")


class _EqAnything(_Obj):
    """equal to everything (None, every other callable), with one common hash"""

    def __eq__(self, other):
        return True

    def __ne__(self, other):
        return False

    def __hash__(self):
        return 7


class _Unhashable(_Obj):
    __hash__ = None


class _ListRecorder(list):
    """keeps what it received in itself: empty (falsy, equal to []) until first called"""
    name = None

    def __call__(self, value):
        self.append(value)
        _rec(self.name, value)


def _returning(name, ret):
    def cb(value):
        _rec(name, value)
        return ret
    return cb


def _function(name):
    def cb(value):
        _rec(name, value)
    return cb


def _class(name):
    def __init__(self, value):
        _rec(name, value)
    return type("HandlerClass", (), {"__init__": __init__})


def _listrec(name):
    r = _ListRecorder()
    r.name = name
    return r


def _partial(name):
    import functools
    return functools.partial(_rec, name)


CALLABLE_KINDS = (
    ("function", _function),
    ("bound-method", lambda name: _Obj(name).method),
    ("partial", _partial),
    ("class", _class),
    ("object", _Obj),
    ("object-bool-false", _BoolFalse),
    ("object-len-zero", _LenZero),
    ("object-bool-raises", _BoolRaises),
    ("object-equal-to-anything", _EqAnything),
    ("object-unhashable", _Unhashable),
    ("empty-list-subclass", _listrec),
    ("returns-true", lambda name: _returning(name, True)),
    ("returns-false", lambda name: _returning(name, False)),
    ("returns-string", lambda name: _returning(name, "stop")),
)
KIND_NAMES = tuple(k for k, _ in CALLABLE_KINDS)
# one callable object mapped to every name: the values must still arrive once per entry, in order
SHARED_KINDS = ("function", "builtin-list-append", "empty-list-subclass", "object-bool-false",
                "object-equal-to-anything")
_CACHE = {}
_LISTRECS = []


def callable_of(kind, name):
    """the callable of this kind for this name (made once per process: the objects carry no state
    but the empty-list-subclass, which reset_log empties again)"""
    c = _CACHE.get((kind, name))
    if c is None:
        c = _CACHE[(kind, name)] = dict(CALLABLE_KINDS)[kind](name)
        if kind == "empty-list-subclass":
            _LISTRECS.append(c)
    return c


def reset_log():
    del LOG[:]
    for c in _LISTRECS:
        if c:
            del c[:]


def shared_callable(kind):
    """one callable object to be mapped to every name -> (callable, records_names)"""
    if kind == "builtin-list-append":
        return LOG.append, False              # a built-in bound method: records the bare values
    return callable_of(kind, "*"), True


_MK = []


def map_kinds():
    if not _MK:
        _MK.extend(_map_kinds())
    return _MK


def _map_kinds():
    import collections
    import collections.abc
    import types

    class PairsMapping(collections.abc.Mapping):
        def __init__(self, d):
            self._pairs = list(d.items())

        def __getitem__(self, k):
            for a, b in self._pairs:
                if a == k:
                    return b
            raise KeyError(k)

        def __iter__(self):
            return iter([a for a, _ in self._pairs])

        def __len__(self):
            return len(self._pairs)

    return (
        ("dict-reversed-insertion", lambda d: dict(reversed(list(d.items())))),
        ("ordered-dict-reversed", lambda d: collections.OrderedDict(reversed(list(d.items())))),
        ("mappingproxy", lambda d: types.MappingProxyType(dict(d))),
        ("abc-mapping", PairsMapping),
        ("userdict", collections.UserDict),
    )


def none_subsets(uniq, tier):
    """which sets of names are mapped to None (the empty set is the complete map and the sets of
    size 1 are variant 4 of the older part)"""
    n = len(uniq)
    full = n <= (3 if tier == "quick" else 6)
    sizes = (n - 1, n) + ((2,) if tier != "quick" or n <= 4 else ())
    for k in range(2 if n > 1 else 1, n + 1):
        if full or k in sizes:
            for c in itertools.combinations(uniq, k):
                yield c


def call(handler, mapping):
    import ZConfig
    try:
        handler(mapping)
        return ("ok",)
    except ZConfig.ConfigurationError as e:
        return ("config-error", str(e)[:120])
    except Exception as e:
        return ("internal", core.exc_desc(e))


TIER = "quick"        # set by run() before the workers are forked / by replay from the case


def check_callables(handler, exp, uniq, tier, bad, acc):
    """the wave-2 axes on one accepted node whose older variants all passed.
    exp = [(name, value object delivered to the plain function of variant 1)]."""
    names = [n for n, _ in exp]
    n_maps = 0

    def delivered(r, want, named=True):
        """did exactly the entries `want` (pairs of exp, in order) arrive?"""
        if r != ("ok",) or len(LOG) != len(want):
            return False
        for got, (nm, val) in zip(LOG, want):
            if named:
                if got[0] != nm or got[1] is not val:
                    return False
            elif got is not val:
                return False
        return True

    def seen(named=True):
        return [c[0] for c in LOG] if named else len(LOG)

    K = len(KIND_NAMES)
    # a. every name mapped to its own callable of one kind
    for k in KIND_NAMES:
        reset_log()
        r = call(handler, {nm: callable_of(k, nm) for nm in uniq})
        n_maps += 1
        acc.extra["callable-kind/" + k] += 1
        if not delivered(r, exp):
            return bad("callable-kind-changes-delivery", [r, seen()], names, callable=k, layout="uniform")
    # b. the kinds mixed: name i gets kind (i + r) mod K, for every r - each name meets each kind
    #    once, next to names that hold other kinds
    if len(uniq) >= 2:
        for rot in range(K):
            reset_log()
            m = {nm: callable_of(KIND_NAMES[(i + rot) % K], nm) for i, nm in enumerate(uniq)}
            r = call(handler, m)
            n_maps += 1
            if not delivered(r, exp):
                return bad("callable-kind-changes-delivery", [r, seen()], names,
                           callable="+".join(KIND_NAMES[(i + rot) % K] for i in range(len(uniq))),
                           layout="mixed")
        acc.extra["mixed-kind-nodes"] += 1
    # c. one callable object mapped to every name
    for k in SHARED_KINDS:
        reset_log()
        c, named = shared_callable(k)
        r = call(handler, {nm: c for nm in uniq})
        n_maps += 1
        want = [("*", v) for _, v in exp]
        if not delivered(r, want, named):
            return bad("shared-callable-changes-delivery", [r, seen(named)], len(exp), callable=k, layout="shared")
    # d. one name holds a callable of the kind, every other name is mapped to None
    if tier != "quick" and len(uniq) >= 2:
        for k in KIND_NAMES:
            for p in uniq:
                reset_log()
                r = call(handler, {nm: (callable_of(k, nm) if nm == p else None) for nm in uniq})
                n_maps += 1
                want = [e for e in exp if e[0] == p]
                if not delivered(r, want):
                    return bad("callable-kind-changes-delivery", [r, seen()], [e[0] for e in want],
                               callable=k, layout="single-among-none")
    # e. sets of names mapped to None
    for sub in none_subsets(uniq, tier):
        reset_log()
        r = call(handler, {nm: (None if nm in sub else callable_of("function", nm)) for nm in uniq})
        n_maps += 1
        want = [e for e in exp if e[0] not in sub]
        if not delivered(r, want):
            return bad("none-set-mishandled", [r, seen()], [e[0] for e in want], none_count=min(len(sub), 3),
                       all_none=len(sub) == len(uniq))
        acc.extra["none-sets"] += 1
    # f. all or nothing when the names that are mapped hold None / falsy callables / the duplicate holds None
    for miss in (uniq if tier != "quick" else sorted(set((uniq[0], uniq[-1])))):
        for k in (None, "object-bool-false", "empty-list-subclass"):
            reset_log()
            r = call(handler, {nm: (callable_of(k, nm) if k else None) for nm in uniq if nm != miss})
            n_maps += 1
            if r[0] != "config-error" or LOG:
                return bad("incomplete-map-not-all-or-nothing", [r, seen()], ["config-error", []],
                           others=k or "None")
            reset_log()
            m = {nm: (callable_of(k, nm) if k else None) for nm in uniq}
            m[miss.upper()] = callable_of(k, miss) if k else None
            r = call(handler, m)
            n_maps += 1
            if r[0] != "config-error" or LOG:
                return bad("duplicate-name-not-all-or-nothing", [r, seen()], ["config-error", []],
                           others=k or "None")
    # g. the kind of the mapping object and the order of its items
    for mk, make in map_kinds():
        reset_log()
        r = call(handler, make({nm: callable_of("function", nm) for nm in uniq}))
        n_maps += 1
        if not delivered(r, exp):
            return bad("mapping-kind-changes-delivery", [r, seen()], names, mapping=mk)
        if uniq:
            for miss in ((uniq[0], uniq[-1]) if tier != "quick" else (uniq[0],)):
                reset_log()
                r = call(handler, make({nm: callable_of("function", nm) for nm in uniq if nm != miss}))
                n_maps += 1
                if r[0] != "config-error" or LOG:
                    return bad("incomplete-map-not-all-or-nothing", [r, seen()], ["config-error", []], mapping=mk)
    reset_log()
    acc.extra["wave2_maps_checked"] += n_maps
    if len(exp) >= 2:
        acc.extra["falsy-callable-nodes-2+entries"] += 1
    return True


# ---------------------------------------------------------------------------
# axis "how the text is loaded" (wave 3).  The statement speaks of "the handler object returned with
# a configuration" - whichever public entry point produced the pair: loadConfigFile / loadConfig with
# or without override specifiers, a ConfigLoader / ExtendedConfigLoader object (which may serve several
# loads), text that arrives through %include.  The entries are those of the items "instantiated by the
# text"; an override replaces values, it neither adds nor removes an instantiated item, and the value
# delivered is "the same value that the value tree holds".

ROUTES = ("override", "override-list", "same-loader-two-loads",
          "extended-loader-without-options+whole-text-through-include", "same-loader-after-another-text")
ROUTES_QUICK = ROUTES[:4]
PART_URL = "file:///v/part.conf"


def ov_value(dt, second=False):
    if dt in ("string", "null"):
        return "ow" if second else "ov"
    if dt == "integer":
        return "11" if second else "9"
    toks = [t for t in M.VALUE_TOKENS[dt] if R.convert(dt, t) is not R.BAD]
    return toks[-1 if second else 0]


def route_specs(S, events, tier):
    """Every override specifier 'path/key=value' whose path addresses a section the text holds (each
    component spelled by the section's name or by its type - the last one by both; the letter case of a
    component is C14's subject) - or the top level - and whose key is a declared key / multikey of that container (for a
    wildcard key: the undeclared name 'zz').  -> [(spec, n_components, spelling, is_multi, spec2, target)]
    where spec2 supplies a second value for the same key and target identifies (container, key)."""
    top = OV.section_tree(events)
    out = []

    def keys(node, prefix, how):
        tname = node.type.lower() if node.type else None
        for it in M.eff_items(S, tname):
            if isinstance(it, (M.Key, M.MultiKey)):
                k = "zz" if it.name == "+" else it.name
                path = "/".join(prefix + (k,))
                out.append((path + "=" + ov_value(it.datatype), len(prefix) + 1, how,
                            isinstance(it, M.MultiKey), path + "=" + ov_value(it.datatype, True),
                            (id(node), k)))

    def walk(node, prefix, how):
        keys(node, prefix, how)
        for ch in node.children:
            if not isinstance(ch, OV.Sec):
                continue
            sp = []
            if ch.name:
                sp.append((ch.name.lower(), "name"))
            sp.append((ch.type.lower(), "type"))
            sp = [(c, h) for c, h in sp if OV.resolve(node, c) is ch]
            for i, (c, h) in enumerate(sp):
                if i == 0:
                    walk(ch, prefix + (c,), h)
                else:
                    keys(ch, prefix + (c,), h)
    walk(top, (), "top")
    return out


def load_on(ld, text, url=H.URL):
    import ZConfig
    try:
        cfg, h = ld.loadFile(io.StringIO(text), url)
        return ("ok", cfg, h)
    except ZConfig.ConfigurationError as e:
        return ("rejected", e, None)
    except Exception as e:
        return ("internal", e, None)


_INCL = {}


def including_loader(base, sch, part_text):
    """a loader of class `base` whose public openResource serves PART_URL from memory"""
    cls = _INCL.get(base)
    if cls is None:
        class IncludingLoader(base):
            part = None

            def openResource(self, url):
                if str(url) == PART_URL:
                    return self.createResource(io.StringIO(self.part), PART_URL)
                return base.openResource(self, url)
        cls = _INCL[base] = IncludingLoader
    ld = cls(sch)
    ld.part = part_text
    return ld


def make_loader(sch, specs):
    import ZConfig.cmdline
    import ZConfig.loader
    if not specs:
        return ZConfig.loader.ConfigLoader(sch)
    ld = ZConfig.cmdline.ExtendedConfigLoader(sch)
    for sp in specs:
        ld.addOption(sp)
    return ld


def check_delivery(cfg, handler, exp, bad):
    """len, the complete map (sequence, values, identity with the tree's objects) and all-or-nothing with
    the first name missing.  -> the recorded calls, or None after a violation."""
    names = [n for n, _ in exp]
    try:
        n = len(handler)
    except Exception as e:
        bad("len-raises", core.exc_desc(e), len(exp))
        return None
    if n != len(exp):
        bad("wrong-length", n, len(exp))
        return None
    uniq = sorted(set(names))
    ids = set()
    object_ids(cfg, ids)
    rec = Recorder()
    r = call(handler, {nm: rec.make(nm) for nm in uniq})
    if r != ("ok",):
        bad("complete-map-refused", r, "ok")
        return None
    got = [c[0] for c in rec.calls]
    if got != names:
        bad("wrong-call-sequence", got, names)
        return None
    for (nm, val), (_, want) in zip(rec.calls, exp):
        if H.tree(val) != want:
            bad("wrong-value-delivered", [nm, repr(H.tree(val))], [nm, repr(want)])
            return None
        if isinstance(val, (list, dict, Wrapped)) or hasattr(val, "getSectionAttributes"):
            if id(val) not in ids:
                bad("delivered-object-not-in-tree", [nm, repr(H.tree(val))], "the tree's own object")
                return None
    if uniq:
        rec2 = Recorder()
        r = call(handler, {nm: rec2.make(nm) for nm in uniq[1:]})
        if r[0] != "config-error" or rec2.calls:
            bad("incomplete-map-not-all-or-nothing", [r, [c[0] for c in rec2.calls]], ["config-error", []])
            return None
    return rec.calls


def check_routes(S, sch, hist, text, base_exp, acc, case, tier, wide=True):
    """the wave-3 axis on one accepted node (>= 1 entry) whose other variants all passed.
    wide=False (quick tier, members with two items under test): single specifiers and the two-load session only."""
    specs = route_specs(S, hist, tier)
    # override lists: every single specifier; the first together with the last; thorough: every two neighbours
    lists = [((s[0],), "override", s[1], s[2]) for s in specs]
    prim, seen_t = [], set()           # one specifier (the first spelling) per addressed (container, key)
    for s_ in specs:
        if s_[5] not in seen_t:
            seen_t.add(s_[5])
            prim.append(s_)
    if len(prim) >= 2 and wide:
        pairs = [(0, len(prim) - 1)]
        if tier != "quick":
            pairs += [(i, i + 1) for i in range(len(prim) - 1) if (i, i + 1) != pairs[0]]
        for i, j in pairs:
            lists.append(((prim[i][0], prim[j][0]), "override-list", max(prim[i][1], prim[j][1]),
                          prim[i][2] + "+" + prim[j][2]))

    def judge(obs, route, ovs, exp, **tags):
        """-> (cfg, handler, exp, bad) when the load was accepted as the reference says, None when there is
        nothing to compare, False after a violation"""
        acc.ev()
        c = dict(case, route={"kind": route, "overrides": list(ovs)})
        tg = dict(tags, route=route)

        def bad(kind, observed, expected):
            acc.violation(kind, c, observed, expected, tags=dict(tg, kind=kind))
            return False
        if obs[0] == "internal":
            d = core.exc_desc(obs[1])
            acc.violation("internal-error", c, d, "a configuration and its handler",
                          tags=dict(tg, kind="internal-error", exc=d["class"], where=d["where"]))
            return False
        if exp is None:
            acc.cls("route:%s unspecified-or-refused-by-the-reference" % route)
            return None
        if obs[0] != "ok":
            acc.cls("route:%s verdict-disagreement(C14's)" % route)
            acc.extra["route_verdict_disagreements"] += 1
            return None
        acc.cls("route:%s accepted" % route)
        acc.extra["route/" + route] += 1
        if len(exp) >= 2:
            acc.nt()
        return obs[1], obs[2], exp, bad

    def expected(ovs):
        """(entries of the text edited as the overrides say, addressed containers) or (None, ()) """
        if not ovs:
            return base_exp, ()
        try:
            edited, addressed = OV.edit(S, hist, ovs)
        except OV.MustReject:
            return None, ()
        ref = R.decide(S, edited)
        if ref.verdict != "A":
            return None, ()
        return ref.entries, addressed

    def session(ovs, route, first_text, **tags):
        """one loader object serves two loads: first_text (None = the same text), then the text"""
        ld = make_loader(sch, ovs)
        exp, addressed = expected(ovs)
        note(ovs, exp, addressed)
        if first_text is None:
            j1 = judge(load_on(ld, text), route, ovs, exp, step=1, **tags)
            if not j1:
                return j1 is None
            calls1 = check_delivery(*j1)
            if calls1 is None:
                return False
        else:
            j1 = None
            load_on(ld, first_text)
        j2 = judge(load_on(ld, text), route, ovs, exp, step=2, **tags)
        if not j2:
            return j2 is None
        if check_delivery(*j2) is None:
            return False
        if j1 is not None:
            # the handler of the first load after the second load: unchanged
            h1, bad = j1[1], j1[3]
            if len(h1) != len(exp):
                return bad("first-handler-changed-by-second-load", len(h1), len(exp))
            rec = Recorder()
            r = call(h1, {nm: rec.make(nm) for nm, _ in exp})
            if r != ("ok",) or len(rec.calls) != len(calls1) or \
                    any(a[0] != b[0] or a[1] is not b[1] for a, b in zip(rec.calls, calls1)):
                return bad("first-handler-changed-by-second-load", [r, [c[0] for c in rec.calls]],
                           [c[0] for c in calls1])
        acc.extra["loader-sessions"] += 1
        return True

    def note(ovs, exp, addressed):
        if exp is None:
            return
        below = 0
        for node in addressed:
            if node.type is not None:
                below += sum(1 for it in M.eff_items(S, node.type.lower()) if it.handler)
        if below:
            acc.extra["override-loads-addressing-a-section-that-holds-handlers"] += 1
        if ovs and S.handler:
            acc.extra["override-loads-with-schema-handler"] += 1
        if ovs and max(len(o.split("=", 1)[0].split("/")) for o in ovs) >= 3:
            acc.extra["override-loads-two-sections-deep"] += 1

    # the first list (or no override at all) runs as a two-load session of one loader object
    first = lists[0] if lists else ((), "plain", 0, "none")
    if not session(first[0], "same-loader-two-loads", None, components=first[2], by=first[3]):
        return False
    for ovs, route, ncomp, how in lists[1:]:
        exp, addressed = expected(ovs)
        if exp is None:
            # the reference refuses the edited text or is silent about it: nothing to compare (C14's subject)
            acc.cls("route:%s unspecified-or-refused-by-the-reference" % route)
            continue
        note(ovs, exp, addressed)
        j = judge(H.load(sch, text, overrides=list(ovs)), route, ovs, exp, components=ncomp, by=how)
        if j is False or (j and check_delivery(*j) is None):
            return False
    if wide:
        # the same text through an ExtendedConfigLoader that was given no option, the whole text arriving through
        # %include: one load does both - the including loader IS an option-less ExtendedConfigLoader
        import ZConfig.cmdline
        ld = including_loader(ZConfig.cmdline.ExtendedConfigLoader, sch, text)
        j = judge(load_on(ld, "%include part.conf\n"), ROUTES[3], (), base_exp)
        if j is False or (j and check_delivery(*j) is None):
            return False
    if tier != "quick":
        # a loader object (carrying the first specifier, if any) that has loaded another text before: this
        # text without its last event, accepted or not
        other = H.render_events(tuple(hist)[:-1])
        if not session(first[0], ROUTES[4], other, components=first[2], by=first[3]):
            return False
    acc.extra["route-nodes"] += 1
    if specs:
        acc.extra["route-nodes-with-overrides"] += 1
    return True


def check_case(S, sch, hist, text, acc, mid):
    obs = H.load(sch, text)
    ref = R.decide(S, hist)
    acc.ev()
    case = {"member": mid, "events": [list(e) for e in hist], "text": text}
    if obs[0] == "internal":
        d = core.exc_desc(obs[1])
        acc.violation("internal-error", case, d, ref.verdict,
                      tags={"kind": "internal-error", "exc": d["class"], "where": d["where"]})
        return False
    o = "A" if obs[0] == "ok" else "R"
    if ref.verdict == "U":
        acc.cls("unspecified")
        return False
    if o != ref.verdict:
        acc.cls("verdict-disagreement(C01's)")
        acc.extra["verdict_disagreements"] += 1
        return False
    if o == "R":
        acc.cls("rejected")
        return True
    cfg, handler = obs[1], obs[2]
    exp = ref.entries
    names = [n for n, _ in exp]
    acc.cls("accepted-%d-entries" % min(len(exp), 6))
    levels = set()
    if len(exp) >= 2:
        acc.nt()
    acc.sample(lambda: dict(case, entries=names))

    def bad(kind, observed, expected, **tags):
        acc.violation(kind, case, observed, expected, tags=dict(tags, kind=kind))
        return False

    try:
        n = len(handler)
    except Exception as e:
        return bad("len-raises", core.exc_desc(e), len(exp))
    if n != len(exp):
        return bad("wrong-length", n, len(exp))
    uniq = sorted(set(names))
    ids = set()
    object_ids(cfg, ids)
    # 1. complete map
    rec = Recorder()
    r = call(handler, {nm: rec.make(nm) for nm in uniq})
    if r != ("ok",):
        return bad("complete-map-refused", r, "ok")
    first_calls = list(rec.calls)
    got = [c[0] for c in rec.calls]
    if got != names:
        return bad("wrong-call-sequence", got, names)
    for (nm, val), (_, want) in zip(rec.calls, exp):
        if H.tree(val) != want:
            return bad("wrong-value-delivered", [nm, repr(H.tree(val))], [nm, repr(want)])
        if isinstance(val, (list, dict, Wrapped)) or hasattr(val, "getSectionAttributes"):
            if id(val) not in ids:
                return bad("delivered-object-not-in-tree", [nm, repr(H.tree(val))], "the tree's own object")
    # 2. keys written in upper case are matched after basic-key normalisation
    rec = Recorder()
    r = call(handler, {nm.upper(): rec.make(nm) for nm in uniq})
    if r != ("ok",) or [c[0] for c in rec.calls] != names:
        return bad("upper-case-map-mishandled", [r, [c[0] for c in rec.calls]], names)
    for miss in uniq:
        # 3. one name unmapped: configuration error, nothing called
        rec = Recorder()
        r = call(handler, {nm: rec.make(nm) for nm in uniq if nm != miss})
        if r[0] != "config-error" or rec.calls:
            return bad("incomplete-map-not-all-or-nothing", [r, [c[0] for c in rec.calls]],
                       ["config-error", []])
        # 4. one name mapped to None: skipped, the others called once, in order
        rec = Recorder()
        r = call(handler, {nm: (None if nm == miss else rec.make(nm)) for nm in uniq})
        want = [x for x in names if x != miss]
        if r != ("ok",) or [c[0] for c in rec.calls] != want:
            return bad("none-entry-mishandled", [r, [c[0] for c in rec.calls]], want)
        # 5. a case-variant duplicate of one name: configuration error, nothing called
        rec = Recorder()
        m = {nm: rec.make(nm) for nm in uniq}
        m[miss.upper()] = rec.make(miss)
        r = call(handler, m)
        if r[0] != "config-error" or rec.calls:
            return bad("duplicate-name-not-all-or-nothing", [r, [c[0] for c in rec.calls]],
                       ["config-error", []])
    # 6. names no entry of this load uses: a single surplus name is harmless, two surplus names that
    #    normalise to the same key are refused, nothing called
    rec = Recorder()
    m = {nm: rec.make(nm) for nm in uniq}
    m["zz-unused"] = rec.make("zz-unused")
    r = call(handler, m)
    if r != ("ok",) or [c[0] for c in rec.calls] != names:
        return bad("surplus-name-mishandled", [r, [c[0] for c in rec.calls]], names)
    rec = Recorder()
    m = {nm: rec.make(nm) for nm in uniq}
    m["zz-unused"] = rec.make("zz-unused")
    m["ZZ-Unused"] = rec.make("zz-unused")
    r = call(handler, m)
    if r[0] != "config-error" or rec.calls:
        return bad("duplicate-unused-name-not-all-or-nothing", [r, [c[0] for c in rec.calls]], ["config-error", []])
    if not uniq:
        r = call(handler, {})
        if r != ("ok",):
            return bad("empty-map-refused", r, "ok")
    acc.extra["handler_calls_checked"] += 3 * len(uniq) + 5
    if not uniq:
        return True
    tier = mid.get("tier", TIER)
    if not check_callables(handler, [(c[0], c[1]) for c in first_calls], uniq, tier, bad, acc):
        return False
    return check_routes(S, sch, hist, text, exp, acc, case, tier,
                        wide=tier != "quick" or len(mid["label"]) <= 1)


def shard(member, acc):
    S, root = build(member)
    xml = M.render(S)
    sch = H.load_schema(xml)
    mid = {"label": list(member[0]), "placement": member[2], "handlers_on": list(member[3]),
           "depth": member[4], "schema": xml, "tier": TIER}
    bfs.explore(S, sch, root, member[4], acc, lambda h, t: check_case(S, sch, h, t, acc, mid),
                with_handlers=True)
    acc.extra["schemas"] += 1
    return acc


def run(tier):
    global TIER
    TIER = tier
    fam = family(tier)
    run = core.Run(
        "C16", tier, "model_checking",
        rule="the C01 breadth-first search (merge key = open-matcher state + the shared handler list) over "
             "schemas with handler= on every subset of {schema, items of the container under test, wrapper "
             "slots, leaf key} (all subsets for <= 1 item, selected subsets for 2 items); every accepted node: "
             "len(handler), call sequence and delivered values for the complete map, the upper-cased map, each "
             "single name missing / mapped to None / duplicated in another letter case, against the entry list of "
             "the reference model.  On every accepted node with >= 1 entry additionally the axis WHAT IS MAPPED: "
             "(a) every name mapped to its own callable of one kind, for every kind of the alphabet "
             "callable_kinds (plain function / bound method / partial / class / callable object; objects that are "
             "falsy by __bool__ or by __len__, whose __bool__ raises, that compare equal to None and to each other, "
             "that are unhashable, a list subclass that is empty until called; functions returning True / False / a "
             "string); (b) the kinds mixed, name i holding kind (i + r) mod K for every rotation r; (c) one "
             "shared callable object (shared_kinds) mapped to every name; (d, thorough) one name holding each kind "
             "while all others hold None; (e) every set of names mapped to None (bounds.none_sets); (f) each name "
             "missing / case-duplicated while the remaining names hold None, falsy objects or empty list "
             "subclasses; (g) the mapping object being each of mapping_kinds (reversed insertion order, "
             "OrderedDict (a dict subclass), mappingproxy, a non-dict collections.abc.Mapping, UserDict), complete and "
             "with the first (thorough: also the last) name missing.  Expected in every case: exactly the reference entries whose "
             "name holds a non-None object are called, once, in order, with the identical value objects; on "
             "missing / duplicate names a configuration error and no call.  "
             "On the same nodes additionally the axis HOW THE TEXT IS LOADED (routes): (h) EVERY single override "
             "specifier 'path/key=value' whose path addresses a section the text holds at any depth - each component "
             "spelled by the section's name if it has one, else by its type, the last component by both (the letter "
             "case of components is C14's subject), resolved by the first-match rule of "
             "C14's statement - or the top level, and whose key is a declared key / multikey of the addressed container "
             "(wildcard key: an undeclared name), loaded through loadConfigFile(overrides=); (i) override lists over "
             "the specifiers with distinct (container, key) targets: the first with the last (thorough: every two "
             "neighbours); (j) one "
             "loader object (ExtendedConfigLoader carrying the first specifier, ConfigLoader if the node offers none) "
             "serving two loads of the text - both handlers checked, and the first one again after the second load; "
             "(k) an ExtendedConfigLoader without options and (l) the whole text arriving through %include of a main "
             "file, in one load (an option-less ExtendedConfigLoader that includes); (m, thorough) "
             "a loader (carrying the first specifier, if any) that loaded a different text (the text without its last "
             "event) before.  Quick tier: (i) and (k, l) on the schemas with <= 1 item under test, (h) and (j) on all.  "
             "Expected on every route: len, call sequence and delivered values (identical with the "
             "objects of the tree returned by THAT load) equal to the reference entry list of the text edited as the "
             "overrides say (vz/ref/overrides.py + vz/ref/match.py), all-or-nothing with the first name missing.  "
             "Non-trivial = accepted (text, route) with >= 2 handler entries.",
        bounds={"schemas": len(fam), "depth": sorted(set(m[4] for m in fam)),
                "callable_kinds": list(KIND_NAMES), "shared_kinds": list(SHARED_KINDS),
                "mapping_kinds": [k for k, _ in map_kinds()],
                "none_sets": "all subsets of the distinct names for <= %d names, else sizes 1, %sn-1, n"
                             % ((3, "2 (<= 4 names), ") if tier == "quick" else (6, "2, ")),
                "all_or_nothing_with_none_or_falsy_others": "first and last name" if tier == "quick" else "every name",
                "single_among_none": tier != "quick",
                "routes": list(ROUTES_QUICK if tier == "quick" else ROUTES),
                "override_paths": "every section of the text reachable by first-match addressing, all depths (<= 3 "
                                  "section components occur), components spelled by name if named else by type, "
                                  "the last component by both",
                "override_keys": "every declared key / multikey of the addressed container, 'zz' for a wildcard key; "
                                 "one convertible value ('ov', '9')",
                "override_lists": "singles; first+last" + (" (schemas with <= 1 item under test)" if tier == "quick"
                                                           else "; neighbours"),
                "include_route": "schemas with <= 1 item under test" if tier == "quick" else "all schemas"},
        assumptions=["reference entry order from vz/ref/match.py (finish order of containers)",
                     "map keys that are not valid basic-keys are not generated (statement silent)",
                     "mapped objects that are neither None nor callable, and callables that raise, are not "
                     "generated (statement silent)",
                     "what an override does to the VALUES is C14's subject: routes whose verdict differs from the "
                     "reference on the edited text are counted (route_verdict_disagreements), not judged here",
                     "loadConfig(url) / loadURL differ from loadFile only in how the resource is opened (not a route)"])
    core.pmap(shard, fam, run.acc, shard_budget=1800.0)
    a = run.acc
    run.require(sum(v for k, v in a.classes.items() if k.startswith("accepted-") and k != "accepted-0-entries"
                    and k != "accepted-1-entries") > 500, "too few accepted nodes with >= 2 entries")
    run.require(a.extra.get("handler_calls_checked", 0) > 1000, "few handler calls")
    run.require(min(a.extra.get("callable-kind/" + k, 0) for k in KIND_NAMES) > 5000,
                "some kind of callable was mapped on too few accepted nodes")
    run.require(a.extra.get("falsy-callable-nodes-2+entries", 0) > 500,
                "the callable-kind axis ran on too few nodes with >= 2 entries")
    run.require(a.extra.get("mixed-kind-nodes", 0) > 500, "too few nodes with >= 2 distinct names for mixed kinds")
    run.require(a.extra.get("none-sets", 0) > 5000, "too few sets of None-mapped names")
    run.require(a.extra.get("wave2_maps_checked", 0) > 100000, "few maps of the what-is-mapped axis")
    for r in (ROUTES_QUICK if tier == "quick" else ROUTES):
        few = 5000 if r in ("override-list", ROUTES[3]) else 100000
        run.require(a.extra.get("route/" + r, 0) > few, "route %s accepted on too few nodes" % r)
    run.require(a.extra.get("override-loads-addressing-a-section-that-holds-handlers", 0) > 50000,
                "too few override loads whose addressed section holds handler-bearing items")
    run.require(a.extra.get("override-loads-two-sections-deep", 0) > 50000,
                "too few override loads addressing a section inside a section")
    run.require(a.extra.get("override-loads-with-schema-handler", 0) > 50000,
                "too few override loads under a schema-level handler")
    run.require(a.extra.get("loader-sessions", 0) > 50000, "too few two-load sessions of one loader object")
    run.require(a.extra.get("route_verdict_disagreements", 0) * 100 <= a.extra.get("route/override", 0),
                "more than 1% of the override loads disagree with the reference on the verdict")
    return run


def replay(body):
    case = body["case"]
    m = case["member"]
    member = (tuple(m["label"]), M.items_from_labels(m["label"]), m["placement"], tuple(m["handlers_on"]), m["depth"])
    S, root = build(member)
    assert M.render(S) == m["schema"], "schema of the replay file cannot be rebuilt"
    hist = tuple(tuple(e) for e in case["events"])
    rc = 0
    for _ in range(2):
        acc = core.Acc()
        sch = H.load_schema(m["schema"])
        check_case(S, sch, hist, case["text"], acc, dict(m, tier=m.get("tier", "quick")))
        print("text:\n" + case["text"])
        print("reference entries:", [n for n, _ in R.decide(S, hist).entries])
        for v in acc.violations.values():
            print("REPLAY violation:", v["kind"], "tags=", v["tags"], "route=", v["case"].get("route", "loadConfigFile"),
                  "observed=", v["observed"], "expected=", v["expected"])
            rc = 1
    return rc
