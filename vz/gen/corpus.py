"""Corpus T: (schema, event list, text, reference verdict, reference tree) records
obtained by running the C01 enumeration on the REFERENCE MODEL ALONE
(deduplicating on the reference model's own state).  No ZConfig call is made
here, so the corpus is identical whatever the state of the repository; the
dependent checks (C06, C07, C08, C14, C15) draw their seeds from it and re-load
each seed themselves.  Nothing is cached between commands."""
from vz.gen import schema as M
from vz.harness import load as H
from vz.ref import match as R


def nodes(S, root, depth, lean=False, rich=True):
    """Yield (events, decision) for every node of the reference BFS."""
    root = tuple(root)
    d0 = R.decide(S, root, want_state=True)
    yield root, d0
    seen = {d0.state}
    frontier = [root]
    for level in range(depth):
        nxt = []
        for hist in frontier:
            st = R.open_stack(S, hist)
            voc = (M.lean_vocabulary(S, st[-1], len(st) > 1) if lean
                   else M.vocabulary(S, st[-1], len(st) > 1, rich))
            for ev in voc:
                h2 = hist + (ev,)
                d = R.decide(S, h2, want_state=True)
                yield h2, d
                if d.state is not None and level + 1 < depth and d.state not in seen:
                    seen.add(d.state)
                    nxt.append(h2)
        frontier = nxt


def members(tier, kinds=("family", "rich")):
    """-> list of (name, S, root, depth, lean)"""
    out = []
    if "rich" in kinds:
        for name, S, root in M.rich_schemas():
            out.append((name, S, tuple(root), 4 if tier == "quick" else 5, True))
    if "family" in kinds:
        env = M.type_env()
        for lab, items in M.selections(2 if tier != "quick" else 1):
            if not items:
                continue
            for p in (0, 1):
                S, root = M.place(items, p, env)
                out.append(("+".join(lab) + "@%d" % p, S, tuple(root), 3, False))
        if tier == "quick":
            for i, (lab, items) in enumerate(M.selections(2)):
                if len(items) == 2 and i % 7 == 0:
                    S, root = M.place(items, 1, env)
                    out.append(("+".join(lab) + "@1", S, tuple(root), 3, False))
    return out


def members_bounded(tier, every=4):
    """The quick members, plus (other tiers) every `every`-th member of the full two-item family."""
    base = members("quick")
    if tier == "quick":
        return base
    names = {m[0] for m in base}
    return base + [m for i, m in enumerate(members(tier)) if m[0] not in names and i % every == 0]


def text_of(events):
    return H.render_events(events)
