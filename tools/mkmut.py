#!/usr/bin/env python3
"""mkmut.py NAME FILE OLD NEW [FILE OLD NEW ...] -> /verif/mutants/NAME.diff

Builds a patch against /repo by exact string replacement (OLD must occur exactly
once in FILE), without leaving /repo modified."""
import subprocess, sys, os
name = sys.argv[1]
triples = sys.argv[2:]
assert len(triples) % 3 == 0 and triples
assert subprocess.run(["git", "-C", "/repo", "status", "--porcelain", "--untracked-files=no"],
                      capture_output=True, text=True).stdout.strip() == "", "repo dirty"
try:
    for i in range(0, len(triples), 3):
        f, old, new = triples[i:i + 3]
        p = os.path.join("/repo", f)
        s = open(p).read()
        assert s.count(old) == 1, "OLD occurs %d times in %s" % (s.count(old), f)
        open(p, "w").write(s.replace(old, new))
    d = subprocess.run(["git", "-C", "/repo", "diff"], capture_output=True, text=True).stdout
    assert d.strip()
    open("/verif/mutants/%s.diff" % name, "w").write(d)
    print("wrote /verif/mutants/%s.diff" % name)
finally:
    subprocess.run(["git", "-C", "/repo", "checkout", "--", "."], check=True)
