"""Reduced run of vz.props.c13.run('quick'): the real run()/require()/finish() code, but pmap only gets the shards of
the kinds in KEEP (self-tests, BFS, the whole datatype-name axis).  Evidence goes to a scratch VZ_OUT."""
import sys, os, tempfile, shutil
src = os.environ.get("VZ_SRC") or "/repo/src"
out = tempfile.mkdtemp(prefix="c13red-", dir="/dev/shm")
os.environ["VZ_OUT"] = out
os.environ["VZ_SRC"] = src
sys.path.insert(0, os.path.realpath(src)); sys.path.insert(0, "/verif")
os.chdir("/verif")
from vz import core
core.assert_repo_import()
from vz.props import c13
KEEP = ("self-test", "self-test-dt", "bfs", "explicit-dt")
orig = core.pmap
def pmap(func, shards, acc=None, **kw):
    shards = list(shards)
    keep = [s for s in shards if s[0] in KEEP]
    print("shards: %d of %d kept" % (len(keep), len(shards)))
    return orig(func, keep, acc, **kw)
core.pmap = pmap
try:
    run = c13.run("quick")
    rc = run.finish()
    print("failed_guards", run.failed_guards)
    print("REDUCED-RUN rc=%s" % rc)
finally:
    shutil.rmtree(out, ignore_errors=True)
