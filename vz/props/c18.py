"""C18 - path, URL and file-object entry points reach the same resource, same result.

Part (a), engine E1: every string up to length n over the 11-symbol alphabet
through ZConfig.url.urlnormalize / urldefrag / urljoin (3 bases) and
BaseLoader.isPath / normalizeURL, judged by the reference model vz.ref.urls
(RFC 3986 scheme scanner with the drive-letter rule, 'file:///' normalisation,
split-at-first-'#', RFC 3986 5.2 resolution, path -> file URL).

Part (b), layout enumeration on real files in a /dev/shm scratch tree: every
file/directory name over the name alphabet x every chain layout
top -> mid -> leaf (same / sub / parent directory per hop, <= 3 levels) for
'%include', <import src=> and <schema extends=> x every current directory
x the ways of naming the top resource.  Oracle: all ways give the same value
tree / schema digest AND that equals the tree the layout was built to produce
(decoy files with other contents sit at every other place a wrong join could
land); reported URLs are 'file:///' URLs of the right files; '#frag' references
are refused.

Wave 2 axes of part (b): (i) the SPELLING of the references inside the files
(vz/ref/refspell.py: percent-encoded with upper- / lower-case hex digits, written
literally, and the two alternating mixes, de-duplicated by the text that ends up
in the file), (ii) the spelling of the top-level file: URL (pathname2url form,
verbatim path after 'file://', single-slash 'file:/...', everything
percent-encoded with lower-case hex digits), (iii) directory name and file stem
varying independently (every ordered pair of different names).

Wave 3, part (d): reference GRAPHS (vz/ref/refgraph.py).  Parts (b) / (b2) / (c) load
chains whose hops have one kind and whose files all have different names, so every
reference text and every file name occurs once per load.  Part (d) enumerates loads
with TWO reference sites in two resources that read the same text and name two
different files (fork, chain), one file referred to twice (diamond, %include), files
of one name in several directories, and every mix of src / extends along the hops,
for every name x cwd x way; oracle = the result the graph was built to give.
"""
import io
import itertools
import os
import shutil
import tempfile

from vz import core
from vz.ref import urls as R
from vz.ref import refspell as S
from vz.ref import refgraph as G

PROP = "C18"

# ---------------------------------------------------------------------------
# part (a)

ALPHABET = ["a", "C", ":", "/", "\\", "#", ".", "f", "i", "l", "e"]
BASES = ["file:///d/e/f.conf", "file:///a", "file:///d%20e/C/"]
A_CWD = ("d e", "C#")          # cwd of part (a) below the scratch root: quoting of the cwd shows
SCHEME_CASES = ["FILE", "File", "fIlE"]    # extra: other spellings of the scheme of 'file...' strings


def _loader():
    import ZConfig.loader
    return ZConfig.loader.SchemaLoader()


def call(fn, *args):
    import ZConfig
    try:
        return ("ok", fn(*args))
    except ZConfig.ConfigurationError as e:
        return ("config-error", str(e)[:120])
    except Exception as e:
        return ("other", core.exc_desc(e))


def check_string(s, acc, L, cwd, U):
    """All helper functions on one string."""
    acc.current = {"part": "a", "s": s}
    acc.ev()
    if ":" in s or "#" in s:
        acc.nt()

    def bad(fn, verdict, clause, observed, expected, extra=None):
        case = {"part": "a", "fn": fn, "s": s}
        if extra:
            case.update(extra)
        acc.violation(fn + "-wrong", case, observed, expected,
                      tags={"kind": fn + "-wrong", "fn": fn, "clause": clause,
                            "verdict": "decodes to another path" if verdict.startswith("decodes to")
                            else verdict})

    # isPath
    exp, clause = R.is_path(s)
    o = call(L.isPath, s)
    acc.clause(clause)
    if o[0] != "ok" or o[1] is not exp:
        bad("isPath", "wrong classification", clause, o, exp)
    # urlnormalize
    o = call(U.urlnormalize, s)
    if o[0] != "ok":
        bad("urlnormalize", "raised", "normalize:totality", o, "a string")
    else:
        v, clause = R.judge_normalized(s, o[1])
        acc.clause(clause)
        if v:
            bad("urlnormalize", v, clause, o[1], R.normalize(s))
        else:
            o2 = call(U.urlnormalize, o[1])
            if o2 != o:
                bad("urlnormalize", "not idempotent", "normalize:idempotent", o2, o[1])
    # urldefrag
    o = call(U.urldefrag, s)
    if o[0] != "ok":
        bad("urldefrag", "raised", "defrag:totality", o, "a pair")
    else:
        v, clause = R.judge_defrag(s, o[1])
        acc.clause(clause)
        if v:
            head, frag = R.split_fragment(s)
            bad("urldefrag", v, clause, o[1], [R.normalize(head), frag or ""])
    # urljoin
    for bi, base in enumerate(BASES):
        o = call(U.urljoin, base, s)
        if o[0] != "ok":
            bad("urljoin", "raised", "join:totality", o, "a string", {"base": base})
            continue
        v, clause = R.judge_join(base, s, o[1])
        acc.clause(clause)
        if v:
            bad("urljoin", v, clause, o[1], R.resolve(base, s), {"base": base})
    # normalizeURL
    o = call(L.normalizeURL, s)
    v, clause = R.judge_normalize_url(cwd, s, o)
    acc.clause(clause)
    acc.cls("a:normalizeURL:" + o[0])
    if v:
        shown = o
        if o[0] == "ok" and o[1].startswith("file://" + R.quote_path(cwd)):
            shown = ("ok", "file://<cwd>" + o[1][len("file://" + R.quote_path(cwd)):])
        bad("normalizeURL", v.replace(cwd, "<cwd>"), clause, shown,
            "file URL of <cwd>/" + s if R.is_path(s)[0] else "see clause")
    acc.sample(lambda: {"part": "a", "s": s, "isPath": exp, "urlnormalize": U.urlnormalize(s),
                        "urldefrag": list(U.urldefrag(s)), "urljoin": U.urljoin(BASES[0], s),
                        "normalizeURL": (o[1].replace(R.quote_path(cwd), "<cwd>")
                                         if o[0] == "ok" else o[0])})


def file_prefixed(first, m, n):
    """'file:' + first + t for every t with len(first + t) <= m, in every spelling of the
    scheme; the lower-case spelling only beyond the plain enumeration bound n."""
    for k in range(0, m - len(first) + 1):
        for tail in itertools.product(ALPHABET, repeat=k):
            t = first + "".join(tail)
            for sc in ["file"] + SCHEME_CASES:
                s = sc + ":" + t
                if sc == "file" and len(s) <= n:
                    continue
                yield s


def enter_a_cwd(root):
    d = os.path.join(root, *A_CWD)
    os.makedirs(d, exist_ok=True)
    return d


def shard_strings(shard, acc):
    from ZConfig import url as U
    root, prefix, n, m = shard
    L = _loader()
    old = os.getcwd()
    cwd = enter_a_cwd(root)
    os.chdir(cwd)
    try:
        if m is not None:
            for s in file_prefixed(prefix, m, n):
                check_string(s, acc, L, cwd, U)
            return acc
        for k in range(0, n - len(prefix) + 1):
            for tail in itertools.product(ALPHABET, repeat=k):
                check_string(prefix + "".join(tail), acc, L, cwd, U)
    finally:
        os.chdir(old)
    return acc


# ---------------------------------------------------------------------------
# part (b)

NAME_ALPHABET = ["a", "Z", "0", " ", "-", "_", ".", "~", "+", "&", ";", "[", "]", "é", "雪"]
KINDS = ["include", "src", "extends"]
HOPS = {"same": 0, "sub": 1, "parent": -1}
MAXDEPTH = 3
CWDS = ["root", "sub", "outside"]
WAYS = ["abspath", "relpath", "fileurl", "fileurl-raw", "fileurl-1slash", "fileurl-lower",
        "fileobj-abs", "fileobj-rel"]
# ways in which the CALLER wrote characters literally into a URL: ZConfig is not asked to
# re-encode them, so URLs derived from them are judged for form and target only
LITERAL_WAYS = ("fileurl-raw",)
ROLES = ["top", "mid", "leaf"]
MODES = S.MODES                      # spellings of the references inside the files
BASE_MODE = MODES[0]                 # 'pct-upper': what the check wrote before wave 2
VARIANTS = ("good", "bad-leaf", "frag-ref", "frag-top")
EXTRA_MODE_VARIANTS = ("good", "frag-ref")       # variants run for every further spelling
PAIR_TOP_DEPTH = 1                   # quick tier: layouts used for (directory name != file stem)


def names(maxlen):
    out = []
    for k in range(1, maxlen + 1):
        for t in itertools.product(NAME_ALPHABET, repeat=k):
            n = "".join(t)
            if n in (".", ".."):
                continue
            out.append(n)
    return out


def layouts():
    """(depth of top, hop top->mid, hop mid->leaf) with all depths in 0..3."""
    out = []
    for t in range(MAXDEPTH + 1):
        for h1 in HOPS:
            d1 = t + HOPS[h1]
            if not 0 <= d1 <= MAXDEPTH:
                continue
            for h2 in HOPS:
                d2 = d1 + HOPS[h2]
                if 0 <= d2 <= MAXDEPTH:
                    out.append((t, h1, h2))
    return out


CONFIG_SCHEMA = """<schema>
  <sectiontype name="s"><multikey name="k" attribute="k"/></sectiontype>
  <multikey name="k" attribute="k"/>
  <multisection type="s" name="*" attribute="ss"/>
</schema>
"""


def contents(kind, role, real, depth, ref, variant):
    """Text of one file.  `ref` is the (quoted, relative) reference to the next file."""
    tag = role if real else "DECOY-%s-%d" % (role, depth)
    if kind != "include" and ref is not None:
        ref = ref.replace("&", "&amp;")       # XML attribute syntax, not URL syntax
    if kind == "include":
        if role == "top":
            return "k %s\n%%include %s\n" % (tag, ref) if real else "k %s\n" % tag
        if role == "mid":
            if not real:
                return "k %s\n" % tag
            return "k %s\n<s x>\n%%include %s\n</s>\n" % (tag, ref)
        if real and variant == "bad-leaf":
            return "k %s\nzz 1\n" % tag
        return "k %s\n" % tag
    if kind == "src":
        if role == "top":
            if not real:
                return "<schema/>\n"
            return ('<schema>\n<import src="%s"/>\n'
                    '<sectiontype name="ttop"><key name="k" default="%s"/></sectiontype>\n'
                    '<section type="tmid" name="m" attribute="m"/>\n'
                    '<section type="tleaf" name="l" attribute="l"/>\n</schema>\n' % (ref, tag))
        if role == "mid":
            if not real:
                return ('<schema>\n<sectiontype name="tmid"><key name="k" default="%s"/></sectiontype>\n'
                        '<sectiontype name="tleaf"><key name="k" default="%s-leaf"/></sectiontype>\n'
                        '</schema>\n' % (tag, tag))
            return ('<schema>\n<import src="%s"/>\n'
                    '<sectiontype name="tmid"><key name="k" default="%s"/></sectiontype>\n</schema>\n'
                    % (ref, tag))
        if real and variant == "bad-leaf":
            return ('<schema>\n<sectiontype name="tleaf"><key name="k" datatype="no-such-datatype"/>'
                    '</sectiontype>\n</schema>\n')
        return ('<schema>\n<sectiontype name="tleaf"><key name="k" default="%s"/></sectiontype>\n'
                '</schema>\n' % tag)
    # extends
    if role == "top":
        if not real:
            return "<schema/>\n"
        return '<schema extends="%s">\n<key name="ktop" default="%s"/>\n</schema>\n' % (ref, tag)
    if role == "mid":
        if not real:
            return ('<schema>\n<key name="kmid" default="%s"/>\n<key name="kleaf" default="%s-leaf"/>\n'
                    '</schema>\n' % (tag, tag))
        return '<schema extends="%s">\n<key name="kmid" default="%s"/>\n</schema>\n' % (ref, tag)
    if real and variant == "bad-leaf":
        return '<schema>\n<key name="kleaf" datatype="no-such-datatype"/>\n</schema>\n'
    return '<schema>\n<key name="kleaf" default="%s"/>\n</schema>\n' % tag


EXPECTED = {
    "include": {"k": ["top", "mid"], "ss": [{"#type": "s", "#name": "x", "k": ["leaf"]}]},
    "src": {"m": {"#type": "tmid", "#name": "m", "k": "mid"},
            "l": {"#type": "tleaf", "#name": "l", "k": "leaf"}},
    "extends": {"ktop": "top", "kmid": "mid", "kleaf": "leaf"},
}
EXPECTED_DEFAULTS = {
    "src": {"ttop": {"k": "top"}, "tmid": {"k": "mid"}, "tleaf": {"k": "leaf"}},
    "extends": {"": {"ktop": "top", "kmid": "mid", "kleaf": "leaf"}},
}
BEHAVIOUR_CONFIG = {"src": "<tmid m/>\n<tleaf l/>\n", "extends": ""}


class Tree:
    """The scratch tree of one name: T, T/d, T/d/d, T/d/d/d and an outside directory; the
    files are n.top, n.mid, n.leaf in every directory.  d = n unless `dname` is given."""

    def __init__(self, base, name, dname=None):
        self.name = name
        self.dname = name if dname is None else dname
        self.T = os.path.join(base, "T")
        self.dirs = [self.T]
        for _ in range(MAXDEPTH):
            self.dirs.append(os.path.join(self.dirs[-1], self.dname))
        self.outside = os.path.join(base, "O", "o")
        os.makedirs(self.dirs[-1])
        os.makedirs(self.outside)

    def path(self, role, depth):
        return os.path.join(self.dirs[depth], self.name + "." + role)

    def cwd(self, which):
        return {"root": self.T, "sub": self.dirs[1], "outside": self.outside}[which]

    def ref(self, hop, role, frag="", mode=BASE_MODE):
        fn = self.name + "." + role
        if hop == "same":
            r = fn
        elif hop == "sub":
            r = self.dname + "/" + fn
        else:
            r = "../" + fn
        if mode == BASE_MODE:
            return R.quote_path(r) + frag
        return S.spell(r, mode) + frag

    def refs(self, layout, mode, frag=""):
        return {"top": self.ref(layout[1], "mid", mode=mode),
                "mid": self.ref(layout[2], "leaf", frag, mode=mode), "leaf": None}

    def write(self, kind, layout, variant, mode=BASE_MODE):
        t, h1, h2 = layout
        d1 = t + HOPS[h1]
        d2 = d1 + HOPS[h2]
        real = {"top": t, "mid": d1, "leaf": d2}
        frag = "#frag" if variant == "frag-ref" else ""
        refs = self.refs(layout, mode, frag)
        for role in ROLES:
            for depth in range(MAXDEPTH + 1):
                with open(self.path(role, depth), "w", encoding="utf-8") as f:
                    f.write(contents(kind, role, real[role] == depth, depth, refs[role], variant))
        return real


def value_tree(v):
    if hasattr(v, "getSectionAttributes"):
        d = {"#type": v.getSectionType(), "#name": v.getSectionName()}
        for a in v.getSectionAttributes():
            d[a] = value_tree(getattr(v, a))
        return d
    if isinstance(v, (list, tuple)):
        return [value_tree(i) for i in v]
    if v is None or isinstance(v, (str, int, float, bool)):
        return v
    return repr(v)


def top_tree(conf):
    t = value_tree(conf)
    t.pop("#type", None)
    t.pop("#name", None)
    return t


def dtname(dt):
    return getattr(dt, "__name__", None) or type(dt).__name__


def schema_digest(schema):
    """Structure of a schema: per type the children (key, class, name, attribute,
    datatype name, occurrence bounds, default values / section type)."""
    def default_of(info):
        d = info.getdefault()
        if d is None:
            return None
        if isinstance(d, list):
            return [getattr(x, "value", x) for x in d]
        if isinstance(d, dict):
            return {k: getattr(x, "value", x) for k, x in d.items()}
        return getattr(d, "value", d)

    def type_d(t):
        out = []
        for key, info in t:
            d = {"key": key, "cls": type(info).__name__, "name": info.name,
                 "attribute": info.attribute, "datatype": dtname(info.datatype),
                 "min": info.minOccurs, "max": repr(info.maxOccurs)}
            if info.issection():
                d["sectiontype"] = info.sectiontype.name
            else:
                d["default"] = default_of(info)
            out.append(d)
        return out

    types = {}
    for n in sorted(schema.gettypenames()):
        t = schema.gettype(n)
        types[n] = "abstract" if t.isabstract() else type_d(t)
    return {"top": type_d(schema), "types": types,
            "keytype": dtname(schema.keytype), "datatype": dtname(schema.datatype)}


def position_urls(schema):
    """URLs recorded in the positions of default values (observation only)."""
    out = set()
    for t in [schema] + [schema.gettype(n) for n in schema.gettypenames()]:
        if t.isabstract():
            continue
        for _key, info in t:
            if info.issection():
                continue
            d = info.getdefault()
            for vi in (d if isinstance(d, list) else [d]):
                pos = getattr(vi, "position", None)
                if pos:
                    out.add(pos[2])
    return out


def defaults_projection(dig):
    out = {}
    for n, t in list(dig["types"].items()) + [("", dig["top"])]:
        if t == "abstract":
            continue
        keys = {d["name"]: d["default"] for d in t if "default" in d}
        if keys or n:
            out[n] = keys
    return out


def naming(way, top, cwd):
    from urllib.request import pathname2url
    if way in ("abspath", "fileobj-abs"):
        return top
    if way in ("relpath", "fileobj-rel"):
        return os.path.relpath(top, cwd)
    if way == "fileurl":
        return "file://" + pathname2url(top)
    if way == "fileurl-raw":                       # the path verbatim
        return "file://" + top
    if way == "fileurl-1slash":                    # has to be normalised to 'file:///'
        return "file:" + pathname2url(top)
    if way == "fileurl-lower":                     # everything but unreserved, lower-case hex
        return "file://" + S.spell(top, "pct-lower")
    raise core.HarnessError("unknown way %r" % (way,))


def judge_url(url, path, way, mode=BASE_MODE):
    """`url` must be the 'file:///' URL of `path`; strictly (nothing that needs encoding
    stays literal) unless the caller itself wrote literal characters (way / spelling)."""
    if way in LITERAL_WAYS or mode not in ("pct-upper", "pct-lower"):
        return S.judge_file_url_of_path_lenient(url, path)
    return R.judge_file_url_of_path(url, path)


def err_key(val):
    """Error description modulo the spelling of the URL."""
    u = val.get("url")
    if isinstance(u, str):
        d, problem = S.decode_lenient(u)
        u = d if problem is None else u
    return (val.get("class"), u, val.get("lineno"))


def err_desc(e):
    return {"class": type(e).__name__, "url": getattr(e, "url", None),
            "lineno": getattr(e, "lineno", None)}


def load(kind, way, top, cwd, cfg_schema, suffix=""):
    """One load through the public API.  -> (status, value, url)"""
    import ZConfig
    ref = naming(way, top, cwd) + suffix
    try:
        if kind == "include":
            if way.startswith("fileobj"):
                with open(ref, encoding="utf-8") as f:
                    conf, _h = ZConfig.loadConfigFile(cfg_schema, f)
            else:
                conf, _h = ZConfig.loadConfig(cfg_schema, ref)
            return ("ok", top_tree(conf), None)
        if way.startswith("fileobj"):
            with open(ref, encoding="utf-8") as f:
                schema = ZConfig.loadSchemaFile(f)
        else:
            schema = ZConfig.loadSchema(ref)
        dig = schema_digest(schema)
        conf, _h = ZConfig.loadConfigFile(schema, io.StringIO(BEHAVIOUR_CONFIG[kind]))
        dig["behaviour"] = top_tree(conf)
        dig["#position-urls"] = sorted(position_urls(schema), key=repr)
        return ("ok", dig, schema.url)
    except ZConfig.ConfigurationError as e:
        return ("config-error", err_desc(e), None)
    except Exception as e:
        return ("internal", core.exc_desc(e), None)


def quotable(name):
    return R.needs_quoting(name)


def name_feature(name):
    """Coarse class of a name for violation signatures."""
    f = []
    if any(ord(c) > 127 for c in name):
        f.append("non-ascii")
    if " " in name:
        f.append("space")
    if any(c in "+&;[]" for c in name):
        f.append("delim")
    return "+".join(f) or "plain"


def mode_plan(tree, layout, modes):
    """The spellings that put a DIFFERENT text into the files of this state, in order
    (a mode whose two references read exactly like those of an earlier mode is the same
    case and is not run again)."""
    seen = set()
    plan = []
    for mode in modes:
        texts = (tree.ref(layout[1], "mid", mode=mode), tree.ref(layout[2], "leaf", mode=mode))
        if texts in seen:
            continue
        seen.add(texts)
        plan.append(mode)
    return plan


def check_state(tree, kind, layout, cwdk, acc, cfg_schema, variants=VARIANTS, modes=MODES,
                extra_variants=EXTRA_MODE_VARIANTS):
    """One (layout, names, cwd) state: for every distinct spelling of the references, every
    way of naming the top resource; the first spelling for the good tree, a failing leaf,
    a '#frag' reference and a '#frag' top-level name, the others for `extra_variants`."""
    name = tree.name
    case0 = {"part": "b", "kind": kind, "layout": list(layout), "name": name, "cwd": cwdk}
    if tree.dname != name:
        case0["dname"] = tree.dname
    acc.current = case0
    acc.ev()
    acc.states += 1
    nontrivial = quotable(name) or quotable(tree.dname)
    if nontrivial:
        acc.nt()
    feature = "quoted-char" if nontrivial else "plain"
    cwd = tree.cwd(cwdk)
    old = os.getcwd()
    t, h1, h2 = layout
    # directories (relative to T) that contain the two referring files
    dir_above = {"top": t, "mid": t + HOPS[h1]}

    pending = {}

    def viol(kind_, variant, way, observed, expected):
        pending.setdefault((kind_, variant), []).append((way, observed, expected))

    def flush(ways_used, mode):
        # one violation per (kind, variant); the tag says which ways of naming fail
        for (kind_, variant), items in sorted(pending.items()):
            failing = sorted({w for w, _o, _e in items})
            if set(failing) == set(ways_used):
                wcls = "all"
            elif all(w.startswith("fileobj") for w in failing):
                wcls = "fileobj-only"
            elif not any(w.startswith("fileobj") for w in failing):
                wcls = "named-only:" + "+".join(failing)
            else:
                wcls = "mixed:" + "+".join(failing)
            way, observed, expected = items[0]
            tags = {"kind": kind_, "ref": kind, "variant": variant, "ways": wcls,
                    "name-feature": feature, "spelling": mode,
                    "names": name_feature(name) if tree.dname == name else
                    "dir:%s/file:%s" % (name_feature(tree.dname), name_feature(name))}
            acc.violation(kind_, dict(case0, variant=variant, way=way, failing_ways=failing, spelling=mode,
                                      ref_top_to_mid=tree.ref(h1, "mid", mode=mode),
                                      ref_mid_to_leaf=tree.ref(h2, "leaf", mode=mode)),
                          observed, expected, tags=tags)
        pending.clear()

    try:
        plan = mode_plan(tree, layout, modes)
        for mode in plan:
            base = mode == BASE_MODE
            mtag = "" if base else "[%s]" % mode
            acc.extra["b:spelling:" + mode] += 1
            reftexts = tree.refs(layout, mode)
            # the cross the wave-2 seeds live in: a literally written non-ASCII reference in a file
            # whose own URL has percent-encoded parts
            cross = any(S.has_literal_nonascii(reftexts[r]) and dir_above[r] > 0 and quotable(tree.dname)
                        for r in ("top", "mid"))
            mixed = any(S.has_literal_nonascii(reftexts[r]) and S.has_pct(reftexts[r]) for r in ("top", "mid"))
            for variant in (variants if base else extra_variants):
                if variant == "frag-top":
                    real = tree.write(kind, layout, "good", mode)
                else:
                    real = tree.write(kind, layout, variant, mode)
                top = tree.path("top", real["top"])
                leaf = tree.path("leaf", real["leaf"])
                os.chdir(cwd)
                results = {}
                ways = WAYS if variant != "frag-top" else [w for w in WAYS if not w.startswith("fileobj")]
                for way in ways:
                    results[way] = load(kind, way, top, cwd, cfg_schema,
                                        "#frag" if variant == "frag-top" else "")
                    acc.transitions += 1
                    acc.traces += 1
                os.chdir(old)
                for way in ways:
                    st, val, url = results[way]
                    acc.cls("b:%s:%s%s:%s" % (kind, variant, mtag, st if st != "config-error" else val["class"]))
                    if st == "ok" and kind != "include":
                        # observation, not part of the verdict: see tools/notes/C18.md
                        for pu in val.pop("#position-urls"):
                            if not (isinstance(pu, str) and pu.startswith("file:///")):
                                acc.extra["b:obs:default-position-url-not-a-file-url:" + way] += 1
                    if st == "ok" and variant == "good":
                        acc.extra["b:ok:way:" + way] += 1
                        if cross:
                            acc.extra["b:ok:literal-non-ascii-ref-in-file-below-encoded-dir"] += 1
                        if mixed:
                            acc.extra["b:ok:ref-mixing-literal-non-ascii-and-pct"] += 1
                        if tree.dname != name:
                            acc.extra["b:ok:dir-name-differs-from-file-stem"] += 1
                    if st == "internal":
                        viol("internal-error", variant, way, val, "result or ConfigurationError")
                if any(results[w][0] == "internal" for w in ways):
                    flush(ways, mode)
                    continue
                if variant == "good":
                    _judge_good(kind, results, top, viol, acc, mode)
                elif variant == "bad-leaf":
                    _judge_bad_leaf(kind, results, leaf, viol, acc, mode)
                else:
                    for way in ways:
                        if results[way][0] != "config-error":
                            viol("fragment-accepted", variant, way, results[way][:2],
                                 "ConfigurationError / SchemaError")
                    acc.clause("b:fragment-rejected" + mtag)
                flush(ways, mode)
        acc.sample(lambda: dict(case0, spellings=plan,
                                ref_top_to_mid=[tree.ref(h1, "mid", mode=m) for m in plan],
                                ref_mid_to_leaf=[tree.ref(h2, "leaf", mode=m) for m in plan]))
    finally:
        os.chdir(old)


def _judge_good(kind, results, top, viol, acc, mode=BASE_MODE):
    first = results[WAYS[0]]
    for way in WAYS:
        st, val, url = results[way]
        if st != "ok":
            viol("load-fails", "good", way, [st, val], "loads")
            continue
        # expected result, built from the layout alone
        if kind == "include":
            if val != EXPECTED["include"]:
                viol("wrong-resource", "good", way, val, EXPECTED["include"])
        else:
            proj = defaults_projection(val)
            if proj != EXPECTED_DEFAULTS[kind] or val["behaviour"] != EXPECTED[kind]:
                viol("wrong-resource", "good", way,
                     {"defaults": proj, "behaviour": val["behaviour"]},
                     {"defaults": EXPECTED_DEFAULTS[kind], "behaviour": EXPECTED[kind]})
            # the URL of the top resource does not depend on how references are spelled
            v = judge_url(url, top, way)
            if v:
                viol("schema-url", "good", way, url, "'file:///' URL of the top file: " + v)
            elif first[0] == "ok" and url != first[2]:
                acc.extra["b:schema-url-literal-differs-but-equivalent"] += 1
        if first[0] == "ok" and val != first[1]:
            viol("entry-points-differ", "good", way, val, first[1])
    acc.clause("b:equal-and-expected" + ("" if mode == BASE_MODE else "[%s]" % mode))


def _judge_bad_leaf(kind, results, leaf, viol, acc, mode=BASE_MODE):
    first = results[WAYS[0]]
    for way in WAYS:
        st, val, url = results[way]
        if st != "config-error":
            viol("bad-leaf-accepted", "bad-leaf", way, [st, val], "ConfigurationError")
            continue
        if val["url"] is None:
            acc.clause("b:error-without-url")
        else:
            v = judge_url(val["url"], leaf, way, mode)
            if v:
                viol("error-url", "bad-leaf", way, val, "'file:///' URL of the failing file: " + v)
            acc.clause("b:error-url-is-file-url-of-leaf")
        if kind == "include" and (val["url"] is None or val["lineno"] != 2):
            viol("error-url", "bad-leaf", way, val, "url of the included file and line 2")
        if first[0] == "config-error" and err_key(val) != err_key(first[1]):
            viol("entry-points-differ", "bad-leaf", way, val, first[1])


def config_schema():
    import ZConfig
    return ZConfig.loadSchemaFile(io.StringIO(CONFIG_SCHEMA))


def shard_layouts(shard, acc):
    """shard = (root, idx, name, kinds[, opts]); opts: dname (directory name, default = name),
    layouts, cwds, modes, extra_variants."""
    root, idx, name, kinds = shard[:4]
    opts = shard[4] if len(shard) > 4 else {}
    base = os.path.join(root, "%s%d" % (opts.get("prefix", "b"), idx))
    tree = Tree(base, name, opts.get("dname"))
    cfg_schema = config_schema()
    try:
        for kind in kinds:
            for layout in opts.get("layouts") or layouts():
                for cwdk in opts.get("cwds") or CWDS:
                    check_state(tree, kind, layout, cwdk, acc, cfg_schema,
                                variants=opts.get("variants", VARIANTS),
                                modes=opts.get("modes", MODES),
                                extra_variants=opts.get("extra_variants", EXTRA_MODE_VARIANTS))
    finally:
        shutil.rmtree(base, ignore_errors=True)
    return acc


def name_pairs(nm):
    """(directory name, file stem), the two different."""
    return [(d, f) for d in nm for f in nm if d != f]


# ---------------------------------------------------------------------------

# ---------------------------------------------------------------------------
# (c) one schema that extends TWO base schemas living in different directories (every pair of
#     same / sub / parent), decoys with the same file names in the other base's directory

def shard_extends_multi(shard, acc):
    import ZConfig
    from urllib.parse import quote
    root, idx, name = shard
    base = tempfile.mkdtemp(prefix="m%d-" % idx, dir=root)
    old = os.getcwd()
    try:
        top_dir = os.path.join(base, "p", name + "d")
        dirs = {"same": top_dir, "sub": os.path.join(top_dir, name + "s"), "parent": os.path.join(base, "p")}
        rel = {"same": "", "sub": quote(name + "s") + "/", "parent": "../"}
        outside = os.path.join(base, "elsewhere")
        for d in list(dirs.values()) + [outside]:
            os.makedirs(d, exist_ok=True)
        f1, f2 = name + "1.xml", name + "2.xml"

        def base_doc(key, tag):
            return '<schema>\n<key name="%s" default="%s"/>\n</schema>\n' % (key, tag)
        for h1 in HOPS:
            for h2 in HOPS:
                if h1 == h2:
                    continue
                # real targets and decoys (same file name, other directory, other content)
                for d in dirs.values():
                    for fn, key in ((f1, "kb1"), (f2, "kb2")):
                        with open(os.path.join(d, fn), "w", encoding="utf-8") as f:
                            f.write(base_doc(key, "DECOY"))
                with open(os.path.join(dirs[h1], f1), "w", encoding="utf-8") as f:
                    f.write(base_doc("kb1", "real-1"))
                with open(os.path.join(dirs[h2], f2), "w", encoding="utf-8") as f:
                    f.write(base_doc("kb2", "real-2"))
                top = os.path.join(top_dir, name + "top.xml")
                with open(top, "w", encoding="utf-8") as f:
                    f.write('<schema extends="%s %s">\n<key name="ktop" default="top"/>\n</schema>\n'
                            % (rel[h1] + quote(f1), rel[h2] + quote(f2)))
                for cwdk, cwd in (("root", base), ("sub", top_dir), ("outside", outside)):
                    os.chdir(cwd)
                    results = {}
                    for way in WAYS:
                        try:
                            if way.startswith("fileobj"):
                                with open(naming(way, top, cwd), encoding="utf-8") as fh:
                                    sch = ZConfig.loadSchemaFile(fh)
                            else:
                                sch = ZConfig.loadSchema(naming(way, top, cwd))
                            results[way] = tuple((k, sch.getinfo(k).getdefault().value) for k in ("kb1", "kb2", "ktop"))
                        except ZConfig.ConfigurationError as e:
                            results[way] = ("error", type(e).__name__, str(e).replace(base, "<scratch>")[:120])
                        except Exception as e:
                            results[way] = ("internal", core.exc_desc(e))
                        acc.transitions += 1
                    acc.ev()
                    acc.extra["c_states"] += 1
                    if any(ord(ch) > 127 or ch in " &;[]+~" for ch in name):
                        acc.nt()
                    want = (("kb1", "real-1"), ("kb2", "real-2"), ("ktop", "top"))
                    acc.cls("c:extends-two-bases:" + ("ok" if all(r == want for r in results.values()) else "differs"))
                    acc.clause("c:two-bases-resolve-against-the-extending-schema")
                    if any(r != want for r in results.values()):
                        acc.violation("extends-entry-resolved-against-wrong-base",
                                      {"name": name, "base1": h1, "base2": h2, "cwd": cwdk},
                                      {w: list(r) for w, r in results.items()}, [list(x) for x in want],
                                      tags={"kind": "extends-two-bases", "base1": h1, "base2": h2})
                    acc.sample(lambda: {"part": "c", "name": name, "base1": h1, "base2": h2, "cwd": cwdk})
    finally:
        os.chdir(old)
        shutil.rmtree(base, ignore_errors=True)
    return acc


# ---------------------------------------------------------------------------
# (d) wave 3: reference GRAPHS (vz/ref/refgraph.py) - two reference sites of one load that
#     read the same text and name different files, files of one name in several directories,
#     hops of mixed kinds

D_SHARDS_PER_NAME = 3


def graph_reftext(tree, case, mode):
    return lambda e: tree.ref(e[2], case.nodes[e[3]][1], mode=mode)


def graph_write(tree, case, mode):
    """Every (depth, extension) slot of the extensions in use: the node placed there, or a decoy."""
    reftext = graph_reftext(tree, case, mode)
    placed = {slot: nid for nid, slot in case.nodes.items()}
    for ext in case.exts():
        for depth in range(MAXDEPTH + 1):
            nid = placed.get((depth, ext))
            text = G.document(case, nid, reftext) if nid else G.decoy_document(case, ext, depth)
            with open(tree.path(ext, depth), "w", encoding="utf-8") as f:
                f.write(text)


def graph_load(case, way, top, cwd, cfg_schema, scratch):
    """-> (status, observation, url of the schema)"""
    import ZConfig
    ref = naming(way, top, cwd)
    try:
        if case.config:
            if way.startswith("fileobj"):
                with open(ref, encoding="utf-8") as f:
                    conf, _h = ZConfig.loadConfigFile(cfg_schema, f)
            else:
                conf, _h = ZConfig.loadConfig(cfg_schema, ref)
            return ("ok", top_tree(conf), None)
        if way.startswith("fileobj"):
            with open(ref, encoding="utf-8") as f:
                schema = ZConfig.loadSchemaFile(f)
        else:
            schema = ZConfig.loadSchema(ref)
        return ("ok", schema_digest(schema), schema.url)
    except ZConfig.ConfigurationError as e:
        return ("config-error", dict(err_desc(e), message=str(e).replace(scratch, "<scratch>")[:160]), None)
    except Exception as e:
        return ("internal", core.exc_desc(e), None)


def graph_modes(tree, case, modes):
    seen, plan = set(), []
    for mode in modes:
        rt = graph_reftext(tree, case, mode)
        texts = tuple(rt(e) for e in case.edges)
        if texts not in seen:
            seen.add(texts)
            plan.append(mode)
    return plan


def check_graph(tree, case, cwds, acc, cfg_schema, modes=(BASE_MODE,), ways=WAYS):
    """One reference graph with one name: per distinct spelling the files are written once and
    loaded from every cwd in every way; every load must give what the graph was built to give
    (vz.ref.refgraph.expected) and the ways must agree."""
    name = tree.name
    nontrivial = quotable(name) or quotable(tree.dname)
    feature = "quoted-char" if nontrivial else "plain"
    collide = bool(case.same_text_sites())
    want = G.expected(case)
    if case.config:
        want = {"k": want, "ss": []}
    top = tree.path(*reversed(case.nodes["top"]))
    old = os.getcwd()
    scratch = os.path.dirname(tree.T)
    try:
        for cwdk in cwds:
            case0 = dict(case.key(), part="d", name=name, cwd=cwdk)
            if tree.dname != name:
                case0["dname"] = tree.dname
            acc.current = case0
            acc.ev()
            acc.states += 1
            acc.extra["d:states"] += 1
            if nontrivial:
                acc.nt()
            cwd = tree.cwd(cwdk)
            for mode in graph_modes(tree, case, modes):
                acc.extra["d:spelling:" + mode] += 1
                graph_write(tree, case, mode)
                os.chdir(cwd)
                results = {}
                for way in ways:
                    results[way] = graph_load(case, way, top, cwd, cfg_schema, scratch)
                    acc.transitions += 1
                    acc.traces += 1
                os.chdir(old)
                bad = {}
                first = results[ways[0]]
                for way in ways:
                    st, val, url = results[way]
                    acc.cls("d:%s:%s:%s" % (case.shape, case.profile, st if st != "config-error" else val["class"]))
                    if st == "internal":
                        bad.setdefault("internal-error", []).append((way, val, "result or ConfigurationError"))
                        continue
                    if st != "ok":
                        bad.setdefault("load-fails", []).append((way, val, want))
                        continue
                    got = val if case.config else defaults_projection(val)
                    if got != want:
                        bad.setdefault("wrong-resource", []).append((way, got, want))
                    elif first[0] == "ok" and val != first[1]:
                        bad.setdefault("entry-points-differ", []).append((way, val, first[1]))
                    if not case.config:
                        v = judge_url(url, top, way)
                        if v:
                            bad.setdefault("schema-url", []).append((way, url, "'file:///' URL of the top file: " + v))
                    if got == want:
                        acc.extra["d:ok:shape:" + case.shape] += 1
                        acc.extra["d:ok:profile:" + case.profile] += 1
                        acc.extra["d:ok:way:" + way] += 1
                        if collide:
                            acc.extra["d:ok:same-text-in-two-resources-names-two-files"] += 1
                        if case.naming == "shared":
                            acc.extra["d:ok:files-of-one-name-in-several-directories"] += 1
                        if case.mixed_kinds():
                            acc.extra["d:ok:hops-of-mixed-kinds"] += 1
                        if case.shape == "diamond":
                            acc.extra["d:ok:one-file-included-twice"] += 1
                acc.clause("d:graph-gives-the-constructed-result")
                for kind_, items in sorted(bad.items()):
                    failing = sorted({w for w, _o, _e in items})
                    if set(failing) == set(ways):
                        wcls = "all"
                    elif all(w.startswith("fileobj") for w in failing):
                        wcls = "fileobj-only"
                    elif not any(w.startswith("fileobj") for w in failing):
                        wcls = "named-only:" + "+".join(failing)
                    else:
                        wcls = "mixed:" + "+".join(failing)
                    way, observed, expected = items[0]
                    rt = graph_reftext(tree, case, mode)
                    acc.violation(kind_, dict(case0, way=way, failing_ways=failing, spelling=mode,
                                              files={n: "depth %d: %s.%s" % (d, name, x)
                                                     for n, (d, x) in sorted(case.nodes.items())},
                                              references=["%s -%s-> %s: %s" % (e[0], e[1], e[3], rt(e))
                                                          for e in case.edges]),
                                  observed, expected,
                                  tags={"kind": kind_, "part": "d", "shape": case.shape, "naming": case.naming,
                                        "profile": case.profile, "ways": wcls, "name-feature": feature,
                                        "spelling": mode})
            acc.sample(lambda: dict(case0, files={n: list(v) for n, v in case.nodes.items()},
                                    references=[list(e) + [graph_reftext(tree, case, BASE_MODE)(e)]
                                                for e in case.edges]))
    finally:
        os.chdir(old)


def shard_graphs(shard, acc):
    """shard = (root, idx, name, part index, opts); the cases with index = part (mod D_SHARDS_PER_NAME)."""
    root, idx, name, part, opts = shard
    base = os.path.join(root, "%s%d" % (opts.get("prefix", "d"), idx))
    tree = Tree(base, name, opts.get("dname"))
    cfg_schema = config_schema()
    try:
        for i, case in enumerate(G.cases()):
            if i % D_SHARDS_PER_NAME == part:
                check_graph(tree, case, opts.get("cwds") or CWDS, acc, cfg_schema,
                            modes=opts.get("modes") or (BASE_MODE,))
    finally:
        shutil.rmtree(base, ignore_errors=True)
    return acc


def run(tier):
    n = 6 if tier == "quick" else 7
    m = 4 if tier == "quick" else 5          # 'file:' + every string of length <= m
    namelen = 1 if tier == "quick" else 2
    nm = names(namelen)
    lay = layouts()
    # (b2) directory name and file stem independent
    pairs = name_pairs(names(1))
    if tier == "quick":
        pair_lay = [l for l in lay if l[0] == PAIR_TOP_DEPTH]
        pair_cwds = ["root"]
        pair_variants = ("good",)
    else:
        pair_lay = lay
        pair_cwds = CWDS
        pair_variants = ("good", "frag-ref")
    # (d) reference graphs
    gcases = G.cases()
    gnames = names(1)
    if tier == "quick":
        g_modes = (BASE_MODE,)
        g_pairs = []
    else:
        g_modes = tuple(MODES)
        g_pairs = pairs
    g_pair_cwds = ["root"]
    g_same_text = sum(1 for c in gcases if c.same_text_sites())
    run = core.Run(
        PROP, tier, "exploration",
        rule="(a) every string of length <= %d over %r, plus 'file:' + every string of length <= %d "
             "over it with the scheme also spelled %r, through urlnormalize, urldefrag, urljoin against %r, isPath and normalizeURL, "
             "judged by vz/ref/urls.py; non-trivial = string containing ':' or '#'.  (b) every state "
             "(reference kind in %r, layout, name, cwd): %d names of length <= %d over %r (minus '.', '..') "
             "used as directory name and file stem, %d chain layouts top->mid->leaf (depth of top 0..3, each "
             "hop same/sub/parent, all depths 0..3), cwd in %r; per state the ways %r of naming the top "
             "resource ('fileurl' = 'file://' + pathname2url(path), '-raw' = the path verbatim after 'file://', "
             "'-1slash' = 'file:' + quoted path, '-lower' = everything but unreserved characters percent-encoded "
             "with lower-case hex digits), for the good tree, a failing leaf, a '#frag' reference and a '#frag' top name; "
             "AND per state every spelling in %r of the two references inside the files that yields a different text "
             "(vz/ref/refspell.py: every character that is not RFC 3986 unreserved percent-encoded with upper-case / "
             "lower-case hex digits, written literally - XML-escaped in attributes; a space is never literal because "
             "white space delimits the argument / separates 'extends' entries -, or alternately literal and encoded "
             "counted over the whole reference, directory part included); the first spelling runs all four variants, "
             "the others the variants %r; all spellings denote the same file, so every way must load, give the "
             "constructed tree and agree; URLs reported for literally written URLs / references are judged for "
             "'file:///' form and target only.  "
             "non-trivial = name with a character that must be percent-encoded.  (b2) directory name and file stem "
             "vary independently: every ordered pair of different 1-character names (%d pairs) x kinds x %d layouts "
             "(%s) x cwd in %r x every distinct spelling x all ways, variants %r.  (c) one schema extending TWO base "
             "schemas in different directories (all 6 ordered pairs of same / sub / parent) with decoys of the same "
             "file names elsewhere, every 1-character name, 3 working directories, the same ways of naming the top.  "
             "(d) reference GRAPHS (vz/ref/refgraph.py), i.e. loads with more than one reference site: all %d placed graphs "
             "of the shapes fork (top -> mid by hop h1 in sub / parent, top -> its leaf and mid -> its leaf by one hop h2 in "
             "same / sub / parent: the two leaf references are the SAME TEXT in two resources of different directories and "
             "name two different files; file names per role, or mid and both leaves sharing one file name in three "
             "directories; top refers to its leaf first or to mid first), diamond (h1 = same: one file included twice, "
             "by the same text from two resources; %%include only) and chain (top -> mid -> leaf, all three files of ONE "
             "name, both hops sub or both parent, hence both references the same text), top at depth 0..3, all depths 0..3, "
             "the hops all %%include or EVERY assignment of src / extends to the edges (mixed kinds: 8 per fork, 4 per chain); "
             "%d of the graphs have two reference sites with equal text and different targets; decoys at every other "
             "(depth, file name) slot; x %d names of length 1 x cwd in %r x the ways above x the spellings %r that give "
             "different texts%s; every load must give the result the graph was built to give (%%include = textual inclusion "
             "in pre-order; a schema has its own and its bases' keys and the section types of everything it extends or "
             "imports, transitively) and the ways must agree.  states = (kind, layout, name(s), cwd) and (graph, name(s), cwd) "
             "tuples, transitions = loads through the public API."
             % (n, "".join(ALPHABET), m, SCHEME_CASES, BASES, KINDS, len(nm), namelen,
                "".join(NAME_ALPHABET), len(lay), CWDS, WAYS, MODES, list(EXTRA_MODE_VARIANTS),
                len(pairs), len(pair_lay),
                "top at depth %d" % PAIR_TOP_DEPTH if tier == "quick" else "all", pair_cwds, list(pair_variants),
                len(gcases), g_same_text, len(gnames), CWDS, list(g_modes),
                "; (d2) the same graphs with directory name != file stem: %d ordered pairs of 1-character names, "
                "first spelling, cwd in %r" % (len(g_pairs), g_pair_cwds) if g_pairs else ""),
        bounds={"a_alphabet": ALPHABET, "a_max_len": n, "a_bases": BASES, "a_scheme_spellings": SCHEME_CASES, "a_file_prefixed_max_len": m,
                "b_name_alphabet": NAME_ALPHABET, "b_name_max_len": namelen, "b_names": len(nm),
                "b_layouts": len(lay), "b_kinds": KINDS, "b_cwds": CWDS, "b_ways": WAYS,
                "b_max_dir_levels": MAXDEPTH,
                "b_reference_spellings": MODES, "b_variants_first_spelling": list(VARIANTS),
                "b_variants_other_spellings": list(EXTRA_MODE_VARIANTS),
                "b2_name_pairs": len(pairs), "b2_layouts": len(pair_lay), "b2_cwds": pair_cwds,
                "b2_variants": list(pair_variants), "b2_reference_spellings": MODES,
                "d_graphs": len(gcases),
                "d_graphs_by_shape": {sh: sum(1 for c in gcases if c.shape == sh) for sh in ("fork", "diamond", "chain")},
                "d_graphs_with_equal_text_naming_two_files": g_same_text,
                "d_kind_profiles": sorted({c.profile for c in gcases}),
                "d_names": len(gnames), "d_cwds": CWDS, "d_ways": WAYS, "d_reference_spellings": list(g_modes),
                "d2_name_pairs": len(g_pairs), "d2_cwds": g_pair_cwds if g_pairs else [],
                "d_not_explored": "two SIBLING resources with equal reference text (top -> m1 -> l1, top -> m2 -> l2); "
                                  "graphs of more than 4 files; names longer than 1 character in graphs"},
        assumptions=[
            "POSIX file system with UTF-8 file names (the Windows drive-letter rule is exercised through "
            "isPath/normalizeURL only)",
            "unspecified, totality and 'file:///' form only: file URLs with a host part or without a slash "
            "after 'file:', network-path references, joins whose path has an empty segment, references "
            "that themselves carry the scheme 'file', the case of the scheme, how many characters beyond "
            "the mandatory ones are percent-encoded, the number of leading slashes of a path",
            "the url of schema errors may be None (documented); when present it must be the 'file:///' URL",
            "references inside files are URL references: written percent-encoded, or with the URL-neutral "
            "characters of the name alphabet (all but the space) literal; a literal space in a reference "
            "is outside the explored space"])
    root = tempfile.mkdtemp(prefix="vz-c18-", dir="/dev/shm")
    try:
        plen = 2
        shards = [(root, "", plen - 1, None)]
        shards += [(root, "".join(p), n, None) for p in itertools.product(ALPHABET, repeat=plen)]
        shards += [(root, "", n, 0)] + [(root, c, n, m) for c in ALPHABET]
        core.pmap(shard_strings, shards, run.acc)
        a_ev = run.acc.evaluations
        if tier == "quick":
            bshards = [(root, i * 3 + j, name, [kind]) for i, name in enumerate(nm)
                       for j, kind in enumerate(KINDS)]
        else:
            bshards = [(root, i, name, KINDS) for i, name in enumerate(nm)]
        core.pmap(shard_layouts, bshards, run.acc)
        b_states = run.acc.states
        popts = {"prefix": "p", "layouts": pair_lay, "cwds": pair_cwds, "variants": pair_variants,
                 "extra_variants": pair_variants}
        core.pmap(shard_layouts, [(root, i, f, KINDS, dict(popts, dname=d)) for i, (d, f) in enumerate(pairs)],
                  run.acc)
        cnames = names(1)
        core.pmap(shard_extends_multi, [(root, i, nme) for i, nme in enumerate(cnames)], run.acc)
        bb_states = run.acc.states
        gshards = [(root, i * D_SHARDS_PER_NAME + j, nme, j, {"modes": g_modes})
                   for i, nme in enumerate(gnames) for j in range(D_SHARDS_PER_NAME)]
        gshards += [(root, i * D_SHARDS_PER_NAME + j, f, j, {"prefix": "e", "dname": d, "cwds": g_pair_cwds})
                    for i, (d, f) in enumerate(g_pairs) for j in range(D_SHARDS_PER_NAME)]
        core.pmap(shard_graphs, gshards, run.acc)
    finally:
        shutil.rmtree(root, ignore_errors=True)
    acc = run.acc
    expected_strings = sum(len(ALPHABET) ** k for k in range(n + 1))
    extra = sum((len(SCHEME_CASES) + (1 if 5 + k > n else 0)) * len(ALPHABET) ** k for k in range(m + 1))
    run.require(a_ev == expected_strings + extra,
                "part (a) explored %d strings, expected %d" % (a_ev, expected_strings + extra))
    run.require(b_states == len(nm) * len(lay) * len(KINDS) * len(CWDS),
                "part (b) explored %d states, expected %d" % (
                    b_states, len(nm) * len(lay) * len(KINDS) * len(CWDS)))
    b2_expected = len(pairs) * len(pair_lay) * len(KINDS) * len(pair_cwds)
    run.require(bb_states - b_states == b2_expected,
                "part (b2) explored %d states, expected %d" % (bb_states - b_states, b2_expected))
    # wave-3 axis really exercised
    d_expected = len(gcases) * (len(gnames) * len(CWDS) + len(g_pairs) * len(g_pair_cwds))
    X = acc.extra
    run.require(acc.states - bb_states == d_expected and X.get("d:states", 0) == d_expected,
                "part (d) explored %d states, expected %d" % (acc.states - bb_states, d_expected))
    run.require(X.get("d:spelling:" + BASE_MODE, 0) == d_expected,
                "part (d): the first spelling ran in %d of %d states" % (X.get("d:spelling:" + BASE_MODE, 0), d_expected))
    run.require(acc.clauses.get("d:graph-gives-the-constructed-result", 0) >= d_expected,
                "part (d): the graph clause decided only %d cases" % acc.clauses.get("d:graph-gives-the-constructed-result", 0))
    for k, least in (("d:ok:same-text-in-two-resources-names-two-files", 50000),
                     ("d:ok:files-of-one-name-in-several-directories", 10000),
                     ("d:ok:hops-of-mixed-kinds", 20000), ("d:ok:one-file-included-twice", 3000),
                     ("d:ok:shape:fork", 50000), ("d:ok:shape:chain", 3000), ("d:ok:shape:diamond", 3000)):
        run.require(X.get(k, 0) >= least, "class %s: only %d loads gave the constructed result" % (k, X.get(k, 0)))
    for prof in sorted({c.profile for c in gcases}):
        run.require(X.get("d:ok:profile:" + prof, 0) >= 1000,
                    "part (d): kinds %s: only %d loads gave the constructed result" % (prof, X.get("d:ok:profile:" + prof, 0)))
    for way in WAYS:
        run.require(X.get("d:ok:way:" + way, 0) >= d_expected,
                    "part (d): way %s: only %d loads gave the constructed result" % (way, X.get("d:ok:way:" + way, 0)))
    for mode in g_modes[1:]:
        run.require(X.get("d:spelling:" + mode, 0) >= 100,
                    "part (d): spelling %s gave a distinct text in only %d states" % (mode, X.get("d:spelling:" + mode, 0)))
    for k in ("url:scheme", "path:drive-letter", "path:colon-but-no-scheme", "normalize:single-slash",
              "normalize:already-normal", "defrag:split-then-normalize", "join:rfc3986-5.2",
              "normalizeURL:url-with-fragment", "normalizeURL:path:drive-letter",
              "b:equal-and-expected", "b:fragment-rejected", "b:error-url-is-file-url-of-leaf"):
        run.require(acc.clauses.get(k, 0) > 0, "reference clause %s never decided" % k)
    for kind in KINDS:
        run.require(acc.classes.get("b:%s:good:ok" % kind, 0) > 0, "no successful %s load" % kind)
    # wave-2 axes really exercised
    total_states = b_states + b2_expected
    run.require(acc.extra.get("b:spelling:" + BASE_MODE, 0) == total_states,
                "the first spelling ran in %d of %d states" % (acc.extra.get("b:spelling:" + BASE_MODE, 0), total_states))
    for mode in MODES[1:]:
        run.require(acc.extra.get("b:spelling:" + mode, 0) >= 100,
                    "reference spelling %s gave a distinct text in only %d states"
                    % (mode, acc.extra.get("b:spelling:" + mode, 0)))
        for kind in KINDS:
            run.require(acc.classes.get("b:%s:good[%s]:ok" % (kind, mode), 0) > 0,
                        "no successful %s load with references spelled %s" % (kind, mode))
        for variant in EXTRA_MODE_VARIANTS:
            if variant != "good":
                run.require(acc.clauses.get("b:fragment-rejected[%s]" % mode, 0) > 0,
                            "variant %s never judged for spelling %s" % (variant, mode))
    for way in WAYS:
        run.require(acc.extra.get("b:ok:way:" + way, 0) >= 1000, "way %s: only %d successful loads of the good tree"
                    % (way, acc.extra.get("b:ok:way:" + way, 0)))
    for k in ("b:ok:literal-non-ascii-ref-in-file-below-encoded-dir", "b:ok:ref-mixing-literal-non-ascii-and-pct",
              "b:ok:dir-name-differs-from-file-stem"):
        run.require(acc.extra.get(k, 0) >= 500, "class %s: only %d successful loads" % (k, acc.extra.get(k, 0)))
    run.notes["part_a_strings"] = a_ev
    run.notes["part_b_states"] = b_states
    run.notes["part_b2_states"] = bb_states - b_states
    run.notes["part_d_states"] = acc.states - bb_states
    run.notes["part_d_spelled_cases"] = {m_: X.get("d:spelling:" + m_, 0) for m_ in g_modes}
    run.notes["part_b_loads"] = acc.transitions
    run.notes["part_b_spelled_cases"] = {m_: acc.extra.get("b:spelling:" + m_, 0) for m_ in MODES}
    return run


def replay(body):
    from ZConfig import url as U
    case = body["case"]
    acc = core.Acc()
    root = tempfile.mkdtemp(prefix="vz-c18-replay-", dir="/dev/shm")
    old = os.getcwd()
    try:
        for i in range(2):
            if case.get("part") == "a":
                cwd = enter_a_cwd(root)
                os.chdir(cwd)
                try:
                    check_string(case["s"], acc, _loader(), cwd, U)
                finally:
                    os.chdir(old)
            elif "base1" in case:
                shard_extends_multi((root, i, case["name"]), acc)
            elif case.get("part") == "d":
                base = os.path.join(root, "r%d" % i)
                tree = Tree(base, case["name"], case.get("dname"))
                check_graph(tree, G.from_key(case), [case["cwd"]], acc, config_schema(),
                            modes=(case.get("spelling") or BASE_MODE,))
            else:
                base = os.path.join(root, "r%d" % i)
                tree = Tree(base, case["name"], case.get("dname"))
                check_state(tree, case["kind"], tuple(case["layout"]), case["cwd"], acc, config_schema())
    finally:
        os.chdir(old)
        shutil.rmtree(root, ignore_errors=True)
    for v in acc.violations.values():
        print("REPLAY violation:", v["kind"], "case=", v["case"], "observed=", v["observed"],
              "expected=", v["expected"])
    if acc.samples:
        print("REPLAY case as executed:", acc.samples[-1])
    print("REPLAY outcome classes:", dict(acc.classes))
    print("replayed: %d violation signature(s)" % len(acc.violations))
    return 1 if acc.violations else 0
