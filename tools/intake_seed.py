#!/usr/bin/env python3
"""intake_seed.py CNN X [extra check ids...]

Takes change X (A or B) that an independent sub-agent left in /tmp/seedwork/CNN/_seed/, verifies it in a fresh
scratch worktree of /repo (demo passes without the patch; with the patch the repository suite still passes and
the demo fails), runs ./check CNN (+ extras) against the patched tree, and files everything under
/verif/seeded/CNN-X/ (patch.diff, demo.py, notes.md, meta.json).  /repo is never modified."""
import json, os, re, shutil, subprocess, sys, time
pid, x = sys.argv[1], sys.argv[2]
extra = sys.argv[3:]
src = "%s/%s/_seed" % (os.environ.get("SEEDWORK", "/tmp/seedwork"), pid)
dst = "/verif/seeded/%s-%s" % (pid, x)
def sh(*a, **k):
    return subprocess.run(a, capture_output=True, text=True, stdin=subprocess.DEVNULL, **k)
for need in ("%s.diff" % x, "%s_demo.py" % x):
    assert os.path.exists(os.path.join(src, need)), "missing " + need
wt = "/dev/shm/seedwt-%d" % os.getpid()
r = sh("git", "-C", "/repo", "worktree", "add", "--detach", wt, "HEAD")
assert r.returncode == 0, r.stderr
res = {"property": pid, "change": x}
try:
    env = dict(os.environ, PYTHONPATH=wt + "/src")
    env.pop("VZ_SRC", None)
    demo = os.path.join(src, "%s_demo.py" % x)
    r = sh("/venv/bin/python", demo, env=env, cwd="/dev/shm")
    res["demo_without_patch"] = {"rc": r.returncode, "tail": (r.stdout + r.stderr).strip()[-300:]}
    r = sh("git", "-C", wt, "apply", os.path.join(src, "%s.diff" % x))
    res["patch_applies"] = r.returncode == 0
    if r.returncode != 0:
        res["apply_error"] = r.stderr[-400:]
    else:
        d = sh("git", "-C", wt, "diff", "--stat").stdout
        res["files_touched"] = re.findall(r"^\s*(\S+)\s+\|", d, re.M)
        r = sh("/venv/bin/python", "-m", "pytest", "-q", "-p", "no:cacheprovider", "--timeout=900", cwd=wt, env=env)
        failed = [l.split()[1] for l in r.stdout.splitlines() if l.startswith(("FAILED", "ERROR"))]
        failed = [f for f in failed if not f.endswith("test_validator.py::TestValidator::test_schema_only")]
        res["suite_with_patch"] = {"summary": r.stdout.strip().splitlines()[-1] if r.stdout.strip() else r.stderr[-200:],
                                   "unexpected_failures": failed}
        r = sh("/venv/bin/python", demo, env=env, cwd="/dev/shm")
        res["demo_with_patch"] = {"rc": r.returncode, "tail": (r.stdout + r.stderr).strip()[-400:]}
        cenv = dict(os.environ, VZ_SRC=wt + "/src", VZ_OUT=wt + "/_out")
        cenv.pop("PYTHONPATH", None)
        res["checks"] = {}
        for c in [pid] + extra:
            t = time.time()
            r = sh("/verif/check", c, "--tier", "quick", cwd="/verif", env=cenv)
            lines = r.stdout.strip().splitlines()
            v = [l for l in lines if l.startswith("VIOLATION")]
            kinds = sorted(set(re.findall(r"kind=([\w-]+)", r.stdout)))
            res["checks"][c] = {"rc": r.returncode, "violation_lines": len(v), "kinds": kinds[:4],
                                "secs": round(time.time() - t), "first": next((l.strip()[:400] for l in lines if l.strip().startswith("kind=")), "")}
finally:
    sh("git", "-C", "/repo", "worktree", "remove", "--force", wt)
    shutil.rmtree(wt, ignore_errors=True)
    sh("git", "-C", "/repo", "worktree", "prune")
ok = (res.get("patch_applies") and res["demo_without_patch"]["rc"] == 0 and res.get("demo_with_patch", {}).get("rc") not in (0, None)
      and not res["suite_with_patch"]["unexpected_failures"])
res["confirmed"] = bool(ok)
print(json.dumps(res, indent=1))
if ok:
    os.makedirs(dst, exist_ok=True)
    shutil.copy(os.path.join(src, "%s.diff" % x), os.path.join(dst, "patch.diff"))
    shutil.copy(os.path.join(src, "%s_demo.py" % x), os.path.join(dst, "demo.py"))
    notes = os.path.join(src, "%s.md" % x)
    if os.path.exists(notes):
        shutil.copy(notes, os.path.join(dst, "notes.md"))
    meta = {"property": pid, "id": "%s-%s" % (pid, x), "origin": "independent sub-agent given only the property text and a scratch worktree",
            "needs_to_manifest": "see notes.md", "confirmed_by_lead": {
                "demo_without_patch_rc": res["demo_without_patch"]["rc"], "demo_with_patch_rc": res["demo_with_patch"]["rc"],
                "suite_with_patch": res["suite_with_patch"]["summary"], "files_touched": res.get("files_touched")},
            "checks": [pid] + extra, "check_results_at_intake": res["checks"]}
    json.dump(meta, open(os.path.join(dst, "meta.json"), "w"), indent=1)
    print("filed under", dst)
else:
    print("NOT CONFIRMED - not filed")
