"""C16 - the composite handler delivers every handled value exactly once, all or nothing.

Engine E2 (the C01 search, merge key extended by the shared handler list) over
schemas with `handler=` on every subset of {schema, each item of the container
under test, wrapper slots, a leaf key}.  On every accepted node the returned
handler object is exercised with complete / incomplete / None-holding /
case-duplicate / upper-cased maps and compared with the entry list the reference
model predicts (own items in schema order after all nested sections, nested
sections in closing order, schema handler last).
"""
import itertools

from vz import core
from vz.engine import bfs
from vz.gen import schema as M
from vz.harness import load as H
from vz.harness.dt import Wrapped
from vz.ref import match as R
from dataclasses import replace


def family(tier):
    fam = []
    sel1 = M.selections(1)
    sel2 = M.selections(2)
    for placement in (0, 1, 2):
        for lab, items in sel1:
            sites = ["schema"] + ["item%d" % i for i in range(len(items))] + ["lk"]
            if placement >= 1:
                sites.append("cuts")
            if placement >= 2:
                sites.append("mids")
            if tier == "quick" and placement == 2:
                subsets = [tuple(sites)]
            else:
                subsets = [c for k in range(1, len(sites) + 1) for c in itertools.combinations(sites, k)]
            for sub in subsets:
                fam.append((lab, items, placement, sub, 3 if tier == "quick" else 4))
    for placement in ((1,) if tier == "quick" else (0, 1, 2)):
        for lab, items in sel2:
            sites = ["schema", "item0", "item1", "lk"] + (["cuts"] if placement >= 1 else []) + \
                    (["mids"] if placement >= 2 else [])
            subsets = [tuple(sites)]
            if tier != "quick":
                subsets += [("item0", "item1"), ("item1", "lk", "schema")]
                subsets += [tuple(x for x in sites if x != s) for s in sites]
            for sub in subsets:
                fam.append((lab, items, placement, sub, 3))
    return fam


def hname(site):
    # mixed case in the schema text: handler names are normalised as basic-keys
    return "H_%s" % site


def build(member):
    lab, items, placement, sub, depth = member
    items = tuple(replace(it, handler=hname("item%d" % i)) if ("item%d" % i) in sub else it
                  for i, it in enumerate(items))
    env = M.type_env(lk_handler=hname("lk") if "lk" in sub else None, l1_datatype=M.SECT_DT_WRAP)
    return M.place(items, placement, env, cut_datatype=M.SECT_DT_WRAP, schema_datatype=M.SECT_DT_WRAP,
                   schema_handler=hname("schema") if "schema" in sub else None,
                   cuts_handler=hname("cuts") if "cuts" in sub else None,
                   mids_handler=hname("mids") if "mids" in sub else None)


def object_ids(v, out):
    """ids of every attribute value / section object reachable in a result."""
    out.add(id(v))
    if isinstance(v, Wrapped):
        object_ids(v.inner, out)
    elif hasattr(v, "getSectionAttributes"):
        for a in v.getSectionAttributes():
            object_ids(getattr(v, a), out)
    elif isinstance(v, list):
        for x in v:
            object_ids(x, out)
    elif isinstance(v, dict):
        for x in v.values():
            object_ids(x, out)


class Recorder:
    def __init__(self):
        self.calls = []

    def make(self, name):
        def cb(value, name=name):
            self.calls.append((name, value))
        return cb


# ---------------------------------------------------------------------------
# axis "what kind of object is mapped" (wave 2).  The statement speaks of "the callable" of an
# entry and exempts only entries mapped to None, so nothing about the callable but the fact that
# it can be called may influence delivery: not its truth value, its length, its equality with
# None or with other callables, its hashability, its type, nor what it returns.

LOG = []          # (name, value) in the order of the calls, whatever kind of callable was called


def _rec(name, value):
    LOG.append((name, value))


class _Obj:
    def __init__(self, name):
        self.name = name

    def __call__(self, value):
        _rec(self.name, value)

    def method(self, value):
        _rec(self.name, value)


class _BoolFalse(_Obj):
    def __bool__(self):
        return False


class _LenZero(_Obj):
    def __len__(self):
        return 0


class _BoolRaises(_Obj):
    def __bool__(self):
        raise RuntimeError("the truth value of a handler callable was asked for")


class _EqAnything(_Obj):
    """equal to everything (None, every other callable), with one common hash"""

    def __eq__(self, other):
        return True

    def __ne__(self, other):
        return False

    def __hash__(self):
        return 7


class _Unhashable(_Obj):
    __hash__ = None


class _ListRecorder(list):
    """keeps what it received in itself: empty (falsy, equal to []) until first called"""
    name = None

    def __call__(self, value):
        self.append(value)
        _rec(self.name, value)


def _returning(name, ret):
    def cb(value):
        _rec(name, value)
        return ret
    return cb


def _function(name):
    def cb(value):
        _rec(name, value)
    return cb


def _class(name):
    def __init__(self, value):
        _rec(name, value)
    return type("HandlerClass", (), {"__init__": __init__})


def _listrec(name):
    r = _ListRecorder()
    r.name = name
    return r


def _partial(name):
    import functools
    return functools.partial(_rec, name)


CALLABLE_KINDS = (
    ("function", _function),
    ("bound-method", lambda name: _Obj(name).method),
    ("partial", _partial),
    ("class", _class),
    ("object", _Obj),
    ("object-bool-false", _BoolFalse),
    ("object-len-zero", _LenZero),
    ("object-bool-raises", _BoolRaises),
    ("object-equal-to-anything", _EqAnything),
    ("object-unhashable", _Unhashable),
    ("empty-list-subclass", _listrec),
    ("returns-true", lambda name: _returning(name, True)),
    ("returns-false", lambda name: _returning(name, False)),
    ("returns-string", lambda name: _returning(name, "stop")),
)
KIND_NAMES = tuple(k for k, _ in CALLABLE_KINDS)
# one callable object mapped to every name: the values must still arrive once per entry, in order
SHARED_KINDS = ("function", "builtin-list-append", "empty-list-subclass", "object-bool-false",
                "object-equal-to-anything")
_CACHE = {}
_LISTRECS = []


def callable_of(kind, name):
    """the callable of this kind for this name (made once per process: the objects carry no state
    but the empty-list-subclass, which reset_log empties again)"""
    c = _CACHE.get((kind, name))
    if c is None:
        c = _CACHE[(kind, name)] = dict(CALLABLE_KINDS)[kind](name)
        if kind == "empty-list-subclass":
            _LISTRECS.append(c)
    return c


def reset_log():
    del LOG[:]
    for c in _LISTRECS:
        if c:
            del c[:]


def shared_callable(kind):
    """one callable object to be mapped to every name -> (callable, records_names)"""
    if kind == "builtin-list-append":
        return LOG.append, False              # a built-in bound method: records the bare values
    return callable_of(kind, "*"), True


_MK = []


def map_kinds():
    if not _MK:
        _MK.extend(_map_kinds())
    return _MK


def _map_kinds():
    import collections
    import collections.abc
    import types

    class PairsMapping(collections.abc.Mapping):
        def __init__(self, d):
            self._pairs = list(d.items())

        def __getitem__(self, k):
            for a, b in self._pairs:
                if a == k:
                    return b
            raise KeyError(k)

        def __iter__(self):
            return iter([a for a, _ in self._pairs])

        def __len__(self):
            return len(self._pairs)

    return (
        ("dict-reversed-insertion", lambda d: dict(reversed(list(d.items())))),
        ("ordered-dict-reversed", lambda d: collections.OrderedDict(reversed(list(d.items())))),
        ("mappingproxy", lambda d: types.MappingProxyType(dict(d))),
        ("abc-mapping", PairsMapping),
        ("userdict", collections.UserDict),
    )


def none_subsets(uniq, tier):
    """which sets of names are mapped to None (the empty set is the complete map and the sets of
    size 1 are variant 4 of the older part)"""
    n = len(uniq)
    full = n <= (3 if tier == "quick" else 6)
    sizes = (n - 1, n) + ((2,) if tier != "quick" or n <= 4 else ())
    for k in range(2 if n > 1 else 1, n + 1):
        if full or k in sizes:
            for c in itertools.combinations(uniq, k):
                yield c


def call(handler, mapping):
    import ZConfig
    try:
        handler(mapping)
        return ("ok",)
    except ZConfig.ConfigurationError as e:
        return ("config-error", str(e)[:120])
    except Exception as e:
        return ("internal", core.exc_desc(e))


TIER = "quick"        # set by run() before the workers are forked / by replay from the case


def check_callables(handler, exp, uniq, tier, bad, acc):
    """the wave-2 axes on one accepted node whose older variants all passed.
    exp = [(name, value object delivered to the plain function of variant 1)]."""
    names = [n for n, _ in exp]
    n_maps = 0

    def delivered(r, want, named=True):
        """did exactly the entries `want` (pairs of exp, in order) arrive?"""
        if r != ("ok",) or len(LOG) != len(want):
            return False
        for got, (nm, val) in zip(LOG, want):
            if named:
                if got[0] != nm or got[1] is not val:
                    return False
            elif got is not val:
                return False
        return True

    def seen(named=True):
        return [c[0] for c in LOG] if named else len(LOG)

    K = len(KIND_NAMES)
    # a. every name mapped to its own callable of one kind
    for k in KIND_NAMES:
        reset_log()
        r = call(handler, {nm: callable_of(k, nm) for nm in uniq})
        n_maps += 1
        acc.extra["callable-kind/" + k] += 1
        if not delivered(r, exp):
            return bad("callable-kind-changes-delivery", [r, seen()], names, callable=k, layout="uniform")
    # b. the kinds mixed: name i gets kind (i + r) mod K, for every r - each name meets each kind
    #    once, next to names that hold other kinds
    if len(uniq) >= 2:
        for rot in range(K):
            reset_log()
            m = {nm: callable_of(KIND_NAMES[(i + rot) % K], nm) for i, nm in enumerate(uniq)}
            r = call(handler, m)
            n_maps += 1
            if not delivered(r, exp):
                return bad("callable-kind-changes-delivery", [r, seen()], names,
                           callable="+".join(KIND_NAMES[(i + rot) % K] for i in range(len(uniq))),
                           layout="mixed")
        acc.extra["mixed-kind-nodes"] += 1
    # c. one callable object mapped to every name
    for k in SHARED_KINDS:
        reset_log()
        c, named = shared_callable(k)
        r = call(handler, {nm: c for nm in uniq})
        n_maps += 1
        want = [("*", v) for _, v in exp]
        if not delivered(r, want, named):
            return bad("shared-callable-changes-delivery", [r, seen(named)], len(exp), callable=k, layout="shared")
    # d. one name holds a callable of the kind, every other name is mapped to None
    if tier != "quick" and len(uniq) >= 2:
        for k in KIND_NAMES:
            for p in uniq:
                reset_log()
                r = call(handler, {nm: (callable_of(k, nm) if nm == p else None) for nm in uniq})
                n_maps += 1
                want = [e for e in exp if e[0] == p]
                if not delivered(r, want):
                    return bad("callable-kind-changes-delivery", [r, seen()], [e[0] for e in want],
                               callable=k, layout="single-among-none")
    # e. sets of names mapped to None
    for sub in none_subsets(uniq, tier):
        reset_log()
        r = call(handler, {nm: (None if nm in sub else callable_of("function", nm)) for nm in uniq})
        n_maps += 1
        want = [e for e in exp if e[0] not in sub]
        if not delivered(r, want):
            return bad("none-set-mishandled", [r, seen()], [e[0] for e in want], none_count=min(len(sub), 3),
                       all_none=len(sub) == len(uniq))
        acc.extra["none-sets"] += 1
    # f. all or nothing when the names that are mapped hold None / falsy callables / the duplicate holds None
    for miss in (uniq if tier != "quick" else sorted(set((uniq[0], uniq[-1])))):
        for k in (None, "object-bool-false", "empty-list-subclass"):
            reset_log()
            r = call(handler, {nm: (callable_of(k, nm) if k else None) for nm in uniq if nm != miss})
            n_maps += 1
            if r[0] != "config-error" or LOG:
                return bad("incomplete-map-not-all-or-nothing", [r, seen()], ["config-error", []],
                           others=k or "None")
            reset_log()
            m = {nm: (callable_of(k, nm) if k else None) for nm in uniq}
            m[miss.upper()] = callable_of(k, miss) if k else None
            r = call(handler, m)
            n_maps += 1
            if r[0] != "config-error" or LOG:
                return bad("duplicate-name-not-all-or-nothing", [r, seen()], ["config-error", []],
                           others=k or "None")
    # g. the kind of the mapping object and the order of its items
    for mk, make in map_kinds():
        reset_log()
        r = call(handler, make({nm: callable_of("function", nm) for nm in uniq}))
        n_maps += 1
        if not delivered(r, exp):
            return bad("mapping-kind-changes-delivery", [r, seen()], names, mapping=mk)
        if uniq:
            for miss in ((uniq[0], uniq[-1]) if tier != "quick" else (uniq[0],)):
                reset_log()
                r = call(handler, make({nm: callable_of("function", nm) for nm in uniq if nm != miss}))
                n_maps += 1
                if r[0] != "config-error" or LOG:
                    return bad("incomplete-map-not-all-or-nothing", [r, seen()], ["config-error", []], mapping=mk)
    reset_log()
    acc.extra["wave2_maps_checked"] += n_maps
    if len(exp) >= 2:
        acc.extra["falsy-callable-nodes-2+entries"] += 1
    return True


def check_case(S, sch, hist, text, acc, mid):
    obs = H.load(sch, text)
    ref = R.decide(S, hist)
    acc.ev()
    case = {"member": mid, "events": [list(e) for e in hist], "text": text}
    if obs[0] == "internal":
        d = core.exc_desc(obs[1])
        acc.violation("internal-error", case, d, ref.verdict,
                      tags={"kind": "internal-error", "exc": d["class"], "where": d["where"]})
        return False
    o = "A" if obs[0] == "ok" else "R"
    if ref.verdict == "U":
        acc.cls("unspecified")
        return False
    if o != ref.verdict:
        acc.cls("verdict-disagreement(C01's)")
        acc.extra["verdict_disagreements"] += 1
        return False
    if o == "R":
        acc.cls("rejected")
        return True
    cfg, handler = obs[1], obs[2]
    exp = ref.entries
    names = [n for n, _ in exp]
    acc.cls("accepted-%d-entries" % min(len(exp), 6))
    levels = set()
    if len(exp) >= 2:
        acc.nt()
    acc.sample(lambda: dict(case, entries=names))

    def bad(kind, observed, expected, **tags):
        acc.violation(kind, case, observed, expected, tags=dict(tags, kind=kind))
        return False

    try:
        n = len(handler)
    except Exception as e:
        return bad("len-raises", core.exc_desc(e), len(exp))
    if n != len(exp):
        return bad("wrong-length", n, len(exp))
    uniq = sorted(set(names))
    ids = set()
    object_ids(cfg, ids)
    # 1. complete map
    rec = Recorder()
    r = call(handler, {nm: rec.make(nm) for nm in uniq})
    if r != ("ok",):
        return bad("complete-map-refused", r, "ok")
    first_calls = list(rec.calls)
    got = [c[0] for c in rec.calls]
    if got != names:
        return bad("wrong-call-sequence", got, names)
    for (nm, val), (_, want) in zip(rec.calls, exp):
        if H.tree(val) != want:
            return bad("wrong-value-delivered", [nm, repr(H.tree(val))], [nm, repr(want)])
        if isinstance(val, (list, dict, Wrapped)) or hasattr(val, "getSectionAttributes"):
            if id(val) not in ids:
                return bad("delivered-object-not-in-tree", [nm, repr(H.tree(val))], "the tree's own object")
    # 2. keys written in upper case are matched after basic-key normalisation
    rec = Recorder()
    r = call(handler, {nm.upper(): rec.make(nm) for nm in uniq})
    if r != ("ok",) or [c[0] for c in rec.calls] != names:
        return bad("upper-case-map-mishandled", [r, [c[0] for c in rec.calls]], names)
    for miss in uniq:
        # 3. one name unmapped: configuration error, nothing called
        rec = Recorder()
        r = call(handler, {nm: rec.make(nm) for nm in uniq if nm != miss})
        if r[0] != "config-error" or rec.calls:
            return bad("incomplete-map-not-all-or-nothing", [r, [c[0] for c in rec.calls]],
                       ["config-error", []])
        # 4. one name mapped to None: skipped, the others called once, in order
        rec = Recorder()
        r = call(handler, {nm: (None if nm == miss else rec.make(nm)) for nm in uniq})
        want = [x for x in names if x != miss]
        if r != ("ok",) or [c[0] for c in rec.calls] != want:
            return bad("none-entry-mishandled", [r, [c[0] for c in rec.calls]], want)
        # 5. a case-variant duplicate of one name: configuration error, nothing called
        rec = Recorder()
        m = {nm: rec.make(nm) for nm in uniq}
        m[miss.upper()] = rec.make(miss)
        r = call(handler, m)
        if r[0] != "config-error" or rec.calls:
            return bad("duplicate-name-not-all-or-nothing", [r, [c[0] for c in rec.calls]],
                       ["config-error", []])
    # 6. names no entry of this load uses: a single surplus name is harmless, two surplus names that
    #    normalise to the same key are refused, nothing called
    rec = Recorder()
    m = {nm: rec.make(nm) for nm in uniq}
    m["zz-unused"] = rec.make("zz-unused")
    r = call(handler, m)
    if r != ("ok",) or [c[0] for c in rec.calls] != names:
        return bad("surplus-name-mishandled", [r, [c[0] for c in rec.calls]], names)
    rec = Recorder()
    m = {nm: rec.make(nm) for nm in uniq}
    m["zz-unused"] = rec.make("zz-unused")
    m["ZZ-Unused"] = rec.make("zz-unused")
    r = call(handler, m)
    if r[0] != "config-error" or rec.calls:
        return bad("duplicate-unused-name-not-all-or-nothing", [r, [c[0] for c in rec.calls]], ["config-error", []])
    if not uniq:
        r = call(handler, {})
        if r != ("ok",):
            return bad("empty-map-refused", r, "ok")
    acc.extra["handler_calls_checked"] += 3 * len(uniq) + 5
    if not uniq:
        return True
    return check_callables(handler, [(c[0], c[1]) for c in first_calls], uniq, mid.get("tier", TIER), bad, acc)


def shard(member, acc):
    S, root = build(member)
    xml = M.render(S)
    sch = H.load_schema(xml)
    mid = {"label": list(member[0]), "placement": member[2], "handlers_on": list(member[3]),
           "depth": member[4], "schema": xml, "tier": TIER}
    bfs.explore(S, sch, root, member[4], acc, lambda h, t: check_case(S, sch, h, t, acc, mid),
                with_handlers=True)
    acc.extra["schemas"] += 1
    return acc


def run(tier):
    global TIER
    TIER = tier
    fam = family(tier)
    run = core.Run(
        "C16", tier, "model_checking",
        rule="the C01 breadth-first search (merge key = open-matcher state + the shared handler list) over "
             "schemas with handler= on every subset of {schema, items of the container under test, wrapper "
             "slots, leaf key} (all subsets for <= 1 item, selected subsets for 2 items); every accepted node: "
             "len(handler), call sequence and delivered values for the complete map, the upper-cased map, each "
             "single name missing / mapped to None / duplicated in another letter case, against the entry list of "
             "the reference model.  On every accepted node with >= 1 entry additionally the axis WHAT IS MAPPED: "
             "(a) every name mapped to its own callable of one kind, for every kind of the alphabet "
             "callable_kinds (plain function / bound method / partial / class / callable object; objects that are "
             "falsy by __bool__ or by __len__, whose __bool__ raises, that compare equal to None and to each other, "
             "that are unhashable, a list subclass that is empty until called; functions returning True / False / a "
             "string); (b) the kinds mixed, name i holding kind (i + r) mod K for every rotation r; (c) one "
             "shared callable object (shared_kinds) mapped to every name; (d, thorough) one name holding each kind "
             "while all others hold None; (e) every set of names mapped to None (bounds.none_sets); (f) each name "
             "missing / case-duplicated while the remaining names hold None, falsy objects or empty list "
             "subclasses; (g) the mapping object being each of mapping_kinds (reversed insertion order, "
             "OrderedDict (a dict subclass), mappingproxy, a non-dict collections.abc.Mapping, UserDict), complete and "
             "with the first (thorough: also the last) name missing.  Expected in every case: exactly the reference entries whose "
             "name holds a non-None object are called, once, in order, with the identical value objects; on "
             "missing / duplicate names a configuration error and no call.  "
             "Non-trivial = accepted sequence with >= 2 handler entries.",
        bounds={"schemas": len(fam), "depth": sorted(set(m[4] for m in fam)),
                "callable_kinds": list(KIND_NAMES), "shared_kinds": list(SHARED_KINDS),
                "mapping_kinds": [k for k, _ in map_kinds()],
                "none_sets": "all subsets of the distinct names for <= %d names, else sizes 1, %sn-1, n"
                             % ((3, "2 (<= 4 names), ") if tier == "quick" else (6, "2, ")),
                "all_or_nothing_with_none_or_falsy_others": "first and last name" if tier == "quick" else "every name",
                "single_among_none": tier != "quick"},
        assumptions=["reference entry order from vz/ref/match.py (finish order of containers)",
                     "map keys that are not valid basic-keys are not generated (statement silent)",
                     "mapped objects that are neither None nor callable, and callables that raise, are not "
                     "generated (statement silent)"])
    core.pmap(shard, fam, run.acc, shard_budget=1800.0)
    a = run.acc
    run.require(sum(v for k, v in a.classes.items() if k.startswith("accepted-") and k != "accepted-0-entries"
                    and k != "accepted-1-entries") > 500, "too few accepted nodes with >= 2 entries")
    run.require(a.extra.get("handler_calls_checked", 0) > 1000, "few handler calls")
    run.require(min(a.extra.get("callable-kind/" + k, 0) for k in KIND_NAMES) > 5000,
                "some kind of callable was mapped on too few accepted nodes")
    run.require(a.extra.get("falsy-callable-nodes-2+entries", 0) > 500,
                "the callable-kind axis ran on too few nodes with >= 2 entries")
    run.require(a.extra.get("mixed-kind-nodes", 0) > 500, "too few nodes with >= 2 distinct names for mixed kinds")
    run.require(a.extra.get("none-sets", 0) > 5000, "too few sets of None-mapped names")
    run.require(a.extra.get("wave2_maps_checked", 0) > 100000, "few maps of the what-is-mapped axis")
    return run


def replay(body):
    case = body["case"]
    m = case["member"]
    member = (tuple(m["label"]), M.items_from_labels(m["label"]), m["placement"], tuple(m["handlers_on"]), m["depth"])
    S, root = build(member)
    assert M.render(S) == m["schema"], "schema of the replay file cannot be rebuilt"
    hist = tuple(tuple(e) for e in case["events"])
    rc = 0
    for _ in range(2):
        acc = core.Acc()
        sch = H.load_schema(m["schema"])
        check_case(S, sch, hist, case["text"], acc, dict(m, tier=m.get("tier", "quick")))
        print("text:\n" + case["text"])
        print("reference entries:", [n for n, _ in R.decide(S, hist).entries])
        for v in acc.violations.values():
            print("REPLAY violation:", v["kind"], "tags=", v["tags"], "observed=", v["observed"],
                  "expected=", v["expected"])
            rc = 1
    return rc
