"""C13 - a schema object can be reused indefinitely: loads neither depend on nor alter it.

Engine E2: operations {load valid text (defaults only / everything supplied), load
invalid text with the fault at each stage (syntax, matching, key conversion, value
conversion, section datatype, top-level finish), load with '%import', load with
overrides (convertible / unconvertible), mutate every list/dict reachable from the
last returned configuration} against ONE schema object.  All sequences up to depth
d explicitly, each step compared with the same operation on a freshly loaded
schema (differential) and with the structural digest of the schema before; then a
breadth-first search to depth 8 with state = digest(schema).
"""
import itertools

from vz import core
from vz.gen import schema as M
from vz.harness import load as H
from vz.harness import pkgs
from vz.harness.dt import Wrapped
from vz.props import c12

SINT = "vz.harness.dt.strict_int"


def schema_model():
    leaf = M.SType("leaf", (M.Key("lk", default="d"), M.MultiKey("lm", defaults=("x", "y"))),
                   datatype="vz.harness.dt.reject_section")
    impl = M.SType("impl", (M.Key("ik", SINT, default="3"),), implements="a")
    box = M.SType("box", (M.Key("+", attribute="opts", default=(("Da", "1"), ("db", "2"))),
                          M.MultiKey("bm", SINT, defaults=("1", "2")),
                          # defaults whose CONVERTED value is mutable (a list per default)
                          M.MultiKey("bl", "string-list", defaults=("a b", "c")),
                          M.Key("bs", "string-list", default="x y"),
                          M.Sect("*", "leaf", attribute="leaves", multi=True)))
    derived = M.SType("dbox", (M.Key("extra", default="e"),), extends="box", keytype="identifier")
    # a type with keyed wildcard defaults that NOTHING in the schema itself derives from (a component does, at load
    # time, under another key type)
    wbox = M.SType("wbox", (M.Key("+", attribute="wopts", default=(("Da", "1"), ("db", "2"))),))
    return M.Schema(
        types=(M.AType("a"), leaf, impl, box, derived, wbox),
        items=(M.Key("k1", SINT, default="7"), M.MultiKey("m1", defaults=("dv", "dw")),
               M.MultiKey("+", "string-list", attribute="wild", defaults=(("Da", "x y"), ("da", "y"), ("db", "z"))),
               M.Key("req", required=True),
               M.Sect("*", "box", attribute="boxes", multi=True),
               M.Sect("*", "dbox", attribute="dboxes", multi=True),
               M.Sect("*", "wbox", attribute="wboxes", multi=True),
               M.Sect("*", "a", attribute="impls", multi=True),
               M.Sect("n1", "leaf"),
               # a catch-all slot of the same type AFTER the named one: which slot a section lands in depends on
               # its name only, never on what earlier sections / loads did
               M.Sect("*", "leaf", attribute="leaves", multi=True)))


def make_packages(P):
    """C12's packages plus a component whose type EXTENDS a section type of the application schema under another
    key type: deriving it at load time must not touch the application schema's own (shared) infos."""
    plist = list(c12.make_packages(P))
    plist.append(P.add_component("px", [M.SType("pxbox", (M.Key("xk", default="x"),), extends="wbox",
                                                keytype="identifier")]))
    return plist


def operations(plist):
    pa, pb, pc = plist[:3]
    px = plist[-1]
    ops = [
        ("valid-defaults", "req r\n", ()),
        ("valid-everything", "req r\nk1 9\nm1 a\nm1 b\nzz 1\nZZ 2\n<box b1>\n  xx 5\n  bm 4\n  <leaf/>\n  <leaf l2>\n    lm q\n  </leaf>\n</box>\n"
                             "<dbox>\n  Key v\n</dbox>\n<impl/>\n<leaf n1>\n  lk v\n</leaf>\n", ()),
        ("fault-syntax", "req r\n<box\n", ()),
        ("fault-matching", "req r\n<box>\n  <impl/>\n</box>\n", ()),
        ("fault-key-conversion", "req r\n1x v\n", ()),
        ("fault-value-conversion", "req r\n<box>\n  bm 1O\n</box>\n", ()),
        ("fault-default-after-value", "req r\nk1 x\n", ()),
        ("fault-section-datatype", "req r\n<box>\n  <leaf>\n    lk x\n  </leaf>\n</box>\n", ()),
        ("fault-top-level-finish", "k1 1\n", ()),
        ("import-and-use", "req r\n%%import %s\n<pa1/>\n" % pa, ()),
        ("import-other-definition", "req r\n%%import %s\n<pa1/>\n" % pc, ()),
        ("leaf-into-catch-all", "req r\n<leaf other>\n  lk w\n</leaf>\n<leaf/>\n", ()),
        ("leaf-into-named-slot", "req r\n<leaf n1>\n  lk v\n</leaf>\n<leaf other/>\n", ()),
        ("import-extender-of-own-type", "req r\n%%import %s\n<wbox/>\n" % px, ()),
        ("wildcard-defaults-of-that-type", "req r\n<wbox/>\n", ()),
        ("use-without-import", "req r\n<pa1/>\n", ()),
        # a second, different component: what one load imported must not be there for the next
        ("import-second-and-use", "req r\n%%import %s\n<pb1/>\n" % pb, ()),
        ("import-second-use-first", "req r\n%%import %s\n<pa1/>\n" % pb, ()),
        ("import-both-and-use", "req r\n%%import %s\n%%import %s\n<pa1/>\n<pb1/>\n" % (pa, pb), ()),
        ("overrides-valid", "req r\n<box b1>\n  bm 4\n</box>\n", ("b1/bm=9", "k1=5", "m1=o")),
        ("overrides-unconvertible", "req r\n<box b1>\n</box>\n", ("b1/bm=zz",)),
        ("mutate-last-result", None, ()),
    ]
    return ops


def containers(v, out):
    if isinstance(v, Wrapped):
        containers(v.inner, out)
    elif hasattr(v, "getSectionAttributes"):
        for a in v.getSectionAttributes():
            containers(getattr(v, a), out)
    elif isinstance(v, list):
        out.append(v)
        for x in list(v):
            containers(x, out)
    elif isinstance(v, dict):
        out.append(v)
        for x in list(v.values()):
            containers(x, out)


def mutate(cfg):
    cs = []
    containers(cfg, cs)
    for c in cs:
        if isinstance(c, list):
            c.append("<mutated>")
            if len(c) > 1:
                c[0] = "<mutated>"
        else:
            c["<mutated>"] = "<mutated>"
            for k in list(c):
                c[k] = "<mutated>"
    return len(cs)


def outcome(sch, text, overrides):
    r = H.load(sch, text, overrides=list(overrides))
    if r[0] == "ok":
        return ("A", H.tree(r[1])), r[1]
    if r[0] == "rejected":
        return ("R", type(r[1]).__name__), None
    return ("I", core.exc_desc(r[1])), None


IMPORT_OPS = ("import-extender-of-own-type", "import-and-use", "import-other-definition", "import-second-and-use", "import-second-use-first",
              "import-both-and-use")


def run_sequence(xml, ops, seq, acc, mid, fresh_outcomes):
    """Apply the operation sequence to one schema object; compare every step."""
    sch = H.load_schema(xml)
    d0 = H.schema_digest(sch)
    last = None
    imported_before = False
    for step, oi in enumerate(seq):
        name, text, ovr = ops[oi]
        acc.ev()
        acc.transitions += 1
        case = {"member": mid, "sequence": [ops[i][0] for i in seq[:step + 1]],
                "texts": [ops[i][1] for i in seq[:step + 1]], "overrides": [list(ops[i][2]) for i in seq[:step + 1]]}
        if text is None:
            if last is not None:
                mutate(last)
            obs = ("mutated",)
        else:
            obs, cfg = outcome(sch, text, ovr)
            if cfg is not None:
                last = cfg
            want = fresh_outcomes[oi]
            acc.cls("step:%s" % obs[0])
            if obs[0] == "I":
                acc.violation("internal-error", case, obs[1], want[0],
                              tags={"kind": "internal-error", "exc": obs[1]["class"], "op": name})
                return d0
            if obs != want:
                acc.violation("outcome-differs-from-fresh-schema", case, [obs[0], repr(obs[1])[:300]],
                              [want[0], repr(want[1])[:300]],
                              tags={"kind": "history-outcome", "after_import_load": imported_before,
                                    "uses_type_imported_earlier": imported_before and "pa1" in text,
                                    "op": name})
                return d0
        d1 = H.schema_digest(sch)
        if d1 != d0:
            diff = [a[:2] for a, b in zip(d0, d1) if a != b]
            acc.violation("schema-changed-by-operation", case, repr(diff)[:300], "digest unchanged",
                          tags={"kind": "schema-digest", "with_import": name in IMPORT_OPS,
                                "what": sorted(set(x[0] for x in diff))})
            d0 = d1
        if name in IMPORT_OPS:
            imported_before = True
    return d0


def shard(arg, acc):
    kind, prefix, depth, tier = arg
    P = pkgs.Packages()
    try:
        plist = make_packages(P)
        S = schema_model()
        xml = M.render(S)
        ops = operations(plist)
        mid = {"schema": xml}
        fresh = {}
        for i, (name, text, ovr) in enumerate(ops):
            if text is not None:
                fresh[i] = outcome(H.load_schema(xml), text, ovr)[0]
        if kind == "self-test":
            # the fresh outcomes themselves: every fault op must be rejected, every valid op accepted
            for i, (name, text, ovr) in enumerate(ops):
                if text is None:
                    continue
                want = "A" if name.startswith(("valid", "overrides-valid", "import-and-use", "import-second-and-use",
                                               "leaf-into", "import-extender-of-own-type", "wildcard-defaults-of-that-type",
                                               "import-both-and-use")) else "R"
                if fresh[i][0] != want:
                    raise core.HarnessError("operation %s: fresh outcome %r, designed to be %s" % (name, fresh[i], want))
            return acc
        if kind == "explicit":
            for n in range(1, depth + 1):
                if n <= len(prefix):
                    continue
                for tail in itertools.product(range(len(ops)), repeat=n - len(prefix)):
                    seq = tuple(prefix) + tail
                    run_sequence(xml, ops, seq, acc, mid, fresh)
                    if len(seq) >= 2 and any(ops[i][0].startswith("fault") or ops[i][1] is None for i in seq[:-1]):
                        acc.nt()
                    acc.sample(lambda: {"sequence": [ops[i][0] for i in seq]})
            if len(prefix) <= depth:
                run_sequence(xml, ops, tuple(prefix), acc, mid, fresh)
        else:
            # BFS to depth 8, state = digest of the schema after the sequence
            seen = {}
            sch0 = H.load_schema(xml)
            frontier = [()]
            norm = lambda d: core.digest(_strip_ids(d))
            seen[norm(H.schema_digest(sch0))] = ()
            for level in range(8):
                nxt = []
                for hist in frontier:
                    for oi in range(len(ops)):
                        seq = hist + (oi,)
                        d = run_sequence(xml, ops, seq, acc, mid, fresh)
                        k = norm(d)
                        if k not in seen:
                            seen[k] = seq
                            nxt.append(seq)
                frontier = nxt
                if not frontier:
                    acc.extra["bfs_closed_at_level"] = max(acc.extra.get("bfs_closed_at_level", 0), level + 1)
                    break
            acc.states += len(seen)
    finally:
        P.close()
    acc.traces = acc.transitions
    return acc


def _strip_ids(d):
    """Digest with object identities replaced by their rank of first appearance, so
    that digests of different schema objects are comparable."""
    table = {}

    def walk(x):
        if isinstance(x, tuple):
            return tuple(walk(y) for y in x)
        if isinstance(x, int) and x > 10 ** 9:
            return "id%d" % table.setdefault(x, len(table))
        return x
    return walk(d)


def run(tier):
    depth = 4 if tier == "quick" else 5
    nops = 22
    run = core.Run(
        "C13", tier, "model_checking",
        rule="%d operations on one schema object (2 valid loads, 7 invalid loads with the fault at the syntax / "
             "matching / key-conversion / value-conversion / section-datatype / top-level-finish stage, 6 loads around "
             "'%%import' of two different components and of a third one that defines a type name differently, 2 loads "
             "with overrides, mutation of every list/dict of the last result); every sequence of "
             "<= %d operations explicitly, each step compared with the same load on a fresh schema and with the "
             "schema's structural digest; then a breadth-first search to depth 8 with state = digest(schema) "
             "(object identities normalised).  Non-trivial = sequence with a failed load or a mutation followed by "
             "another step." % (nops, depth),
        bounds={"explicit_depth": depth, "bfs_depth": 8, "operations": nops,
                "depth_5_only_below_prefixes_of": "12 of the 22 operations (thorough tier)"},
        assumptions=["completeness of vz.harness.load.schema_digest (guarded by the differential oracle of the explicit "
                     "sequences)", "schema: defaults of every kind, derived type with another key type, abstract slot, "
                     "rejecting section datatype, datatypes loaded by dotted name, defaults whose converted value is a "
                     "mutable list (string-list) in single, multi and wildcard keys"])
    shards = [("self-test", (), 0, tier)]
    # depth 5 (thorough) only below prefixes drawn from the operations that leave something behind or depend on
    # what was left (imports, failed loads, mutation, catch-all vs named slot); other prefixes go to depth 4
    core_ops = (0, 2, 5, 7, 9, 11, 12, 13, 14, 17, 19, 21)
    shards += [("explicit", (i, j), depth if (depth <= 4 or (i in core_ops and j in core_ops)) else 4, tier)
               for i in range(nops) for j in range(nops)]
    shards += [("explicit", (i,), 1, tier) for i in range(nops)]
    shards += [("bfs", (), 8, tier)]
    core.pmap(shard, shards, run.acc, shard_budget=3000.0)
    a = run.acc
    run.require(a.classes.get("step:A", 0) > 100 and a.classes.get("step:R", 0) > 100, "few steps")
    run.require(a.states >= 1, "BFS did not run")
    return run


def replay(body):
    case = body["case"]
    P = pkgs.Packages()
    rc = 0
    try:
        plist = make_packages(P)
        ops = operations(plist)
        byname = {o[0]: i for i, o in enumerate(ops)}
        seq = tuple(byname[n] for n in case["sequence"])
        xml = case["member"]["schema"]
        for _ in range(2):
            acc = core.Acc()
            fresh = {i: outcome(H.load_schema(xml), o[1], o[2])[0] for i, o in enumerate(ops) if o[1] is not None}
            run_sequence(xml, ops, seq, acc, case["member"], fresh)
            print("sequence:", case["sequence"])
            for v in acc.violations.values():
                print("REPLAY violation:", v["kind"], v["observed"], "expected", v["expected"])
                rc = 1
    finally:
        P.close()
    return rc
