"""C12 - abstract slots accept exactly their implementers, including %import-ed ones.

Engine E2 over (a) texts and (b) load histories:
 schemas = abstract types a (and b) x up to 3 (quick) / 4 (thorough) concrete types,
 each implementing any one / extending any earlier one / both, in every
 combination; generated component packages add implementers (two of them define
 the same type name differently); texts = all sequences of <= d events over
 {'%import P' for every package incl. non-packages, '<t/>' for every type name};
 histories = all sequences of <= h loads of representative texts against ONE
 schema object.  Oracle: reference admission (vz.ref.match with per-load imports)
 and a structural digest of the schema that must not change.
 Wave 5, the component-REFERENCE axis: a component is (package, file); every way of
 denoting one (package alone, default file name spelled out, another file of the
 package, dotted sub-package, sub-package relative to the prefix, a file that does not
 exist) at every site that can denote one (<import> in the application schema, <import>
 in a component, <import> in a schema pulled in with <import src=...>, '%import' in the
 text), all sequences of <= 2 schema-level references x text BFS.
"""
import itertools
import os

from dataclasses import replace

from vz import core
from vz.gen import schema as M
from vz.harness import load as H
from vz.harness import pkgs
from vz.ref import match as R


def schemas(nconc, two_abstract):
    """Every combination of implements / extends for nconc concrete types."""
    abstracts = ["a", "b"] if two_abstract else ["a"]
    names = ["c%d" % i for i in range(1, nconc + 1)]
    opts = []
    for i, n in enumerate(names):
        o = []
        for impl in [None] + abstracts:
            for ext in [None] + names[:i]:
                o.append((impl, ext))
        opts.append(o)
    for combo in itertools.product(*opts):
        types = [M.AType(x) for x in abstracts]
        for n, (impl, ext) in zip(names, combo):
            items = () if ext else (M.Key("k"),)
            types.append(M.SType(n, items, extends=ext, implements=impl))
        items = [M.Sect("*", "a", attribute="sa", multi=True)]
        if two_abstract:
            items.append(M.Sect("*", "b", attribute="sb", multi=True))
        yield M.Schema(types=tuple(types), items=tuple(items))


def make_packages(P):
    pa = P.add_component("pa", [M.SType("pa1", (M.Key("pk"),), implements="a")])
    pb = P.add_component("pb", [M.SType("pb1", (M.Key("pk"),), implements="a"),
                                M.SType("pb2", (), extends="pb1")])
    # same type name as pa's, defined differently (implements nothing)
    pc = P.add_component("pc", [M.SType("pa1", (M.Key("other"),))])
    pd = P.add_component("pd", [M.SType("pd1", (), implements="b")])     # needs abstract type b
    # two components that import EACH OTHER (and one that imports itself): a component is read once per load
    pe_name, pf_name, pg_name = P.name("pe"), P.name("pf"), P.name("pg")
    P.add_component("pe", [M.SType("pe1", (M.Key("pk"),), implements="a")], imports=(pf_name,))
    P.add_component("pf", [M.SType("pf1", (M.Key("pk"),), implements="a")], imports=(pe_name,))
    P.add_component("pg", [M.SType("pg1", (), implements="a")], imports=(pg_name,))
    nocomp = P.add_package_without_component("nocomp")
    mod = P.add_module("mod")
    missing = P.missing("missing")
    P.cref = make_cref_packages(P)
    # wave 6: the WHOLE argument of '%import' is the name: a component package followed by another word (a second
    # package, junk) is not the name of an importable package
    return [pa, pb, pc, pd, nocomp, mod, missing, pa + " " + pb, pb + " x"]


def alphabet(S, plist, tier):
    evs = [("i", p) for p in plist]
    tnames = [t.name for t in S.types] + ["pa1", "pb1", "pb2", "pd1", "qq"]
    for t in tnames:
        evs.append(("e", t, None))
    return evs


PRE = [()]        # packages imported by the schema under exploration


def observe(sch, text):
    r = H.load(sch, text)
    if r[0] == "ok":
        return ("A", H.tree(r[1]))
    if r[0] == "rejected":
        return ("R", type(r[1]).__name__)
    return ("I", core.exc_desc(r[1]))


MAIN, INC = "file:///v/c12/main.conf", "file:///v/c12/inc.conf"


def observe_mem(sch, files):
    r = H.load_mem(sch, files, MAIN)
    if r[0] == "ok":
        return ("A", H.tree(r[1]))
    if r[0] == "rejected":
        return ("R", type(r[1]).__name__)
    return ("I", core.exc_desc(r[1]))


def explore_texts(S, sch, P, plist, depth, acc, mid, d0, tier, A=None, hook=None):
    """BFS over event sequences; reference state = (container state, imports).
    hook(h2, ref, obs) -> further tags for the violations of this case (and counts what it likes)."""
    A = A or alphabet(S, plist, tier)
    xml = mid["schema"]
    seen = set()
    frontier = [()]
    for level in range(depth):
        nxt = []
        for hist in frontier:
            for ev in A:
                h2 = hist + (ev,)
                ref = R.decide(S, h2, want_state=True, packages=P.types, preimported=PRE[0], package_imports=P.imports)
                text = H.render_events(h2)
                acc.current = text
                obs = observe(sch, text)
                acc.ev()
                acc.transitions += 1
                uses = [e for e in h2 if e[0] == "e"]
                imps = [e for e in h2 if e[0] == "i"]
                case = {"member": mid, "text": text}
                acc.clause(ref.clause)
                # non-trivial: admission depends on an implements / import fact
                if uses and ref.verdict != "U" and ref.clause not in ("unknown-type",):
                    acc.nt()
                acc.sample(lambda: dict(case, reference=[ref.verdict, ref.clause], observed=obs[0]))
                acc.cls("ref=%s impl=%s" % (ref.verdict, obs[0]))
                more = hook(h2, ref, obs) if hook else {}
                if obs[0] == "I":
                    acc.violation("internal-error", case, obs[1], ref.verdict,
                                  tags=dict(more, kind="internal-error", exc=obs[1]["class"]))
                    continue
                if ref.verdict == "U":
                    continue
                if obs[0] != ref.verdict or (obs[0] == "A" and obs[1] != ref.tree):
                    acc.violation("admission-differs-from-reference", case,
                                  [obs[0], repr(obs[1])[:200]], [ref.verdict, ref.clause, repr(ref.tree)[:200]],
                                  tags=dict(more, kind="admission", clause=ref.clause, ref=ref.verdict,
                                            with_import=bool(imps)))
                    continue
                # the same events cut into two resources at every point, tail included from the head and
                # head included ahead of the tail: imports made on either side of an '%include' boundary
                # count for the rest of the load, whichever resource holds the rest
                if imps and uses and len(h2) >= 2:
                    for k in range(1, len(h2)):
                        head, tail = H.render_events(h2[:k]), H.render_events(h2[k:])
                        for lay, files in (("tail-included", {MAIN: head + "%include inc.conf\n", INC: tail}),
                                           ("head-included", {MAIN: "%include inc.conf\n" + tail, INC: head})):
                            obs2 = observe_mem(sch, files)
                            acc.ev()
                            acc.transitions += 1
                            acc.cls("include-split impl=%s" % obs2[0])
                            if obs2 != obs:
                                acc.violation("include-split-differs", dict(case, files=files, layout=lay),
                                              [obs2[0], repr(obs2[1])[:200]], [obs[0], repr(obs[1])[:200]],
                                              tags={"kind": "include-split", "layout": lay, "single": obs[0],
                                                    "split": obs2[0]})
                d1 = H.schema_digest(sch)
                if d1 != d0:
                    diff = [a[:2] for a, b in zip(d0, d1) if a != b]
                    acc.violation("schema-changed-by-load", case, repr(diff)[:300], "digest unchanged",
                                  tags={"kind": "schema-digest", "with_import": bool(imps),
                                        "what": sorted(set(x[0] for x in diff))})
                    # continue on a fresh schema object so that one changed schema does not
                    # colour the remaining texts (carry-over is the histories' subject)
                    sch = H.load_schema(xml)
                    d0 = H.schema_digest(sch)
                if ref.state is not None and level + 1 < depth and ref.state not in seen:
                    seen.add(ref.state)
                    nxt.append(h2)
        frontier = nxt
    acc.states += len(seen) + 1
    return True


def history_texts(S, plist):
    pa, pb, pc, pd = plist[:4]
    impl_a = M.implementers(S, "a")
    c = impl_a[0] if impl_a else "c1"
    texts = [
        [("e", c, None)],
        [("i", pa), ("e", "pa1", None)],
        [("e", "pa1", None)],
        [("i", pc), ("e", "pa1", None)],
        [("i", pb), ("e", "pb1", None), ("e", "pb2", None)],
        [("e", "pb1", None), ("i", pb)],
        [("i", pa), ("i", pc)],
        [("i", plist[6]), ("e", c, None)],
    ]
    # every (import X, use a type of Y): what an EARLIER load imported must not be usable in this one
    for x in (pa, pb, pc):
        for y in ("pa1", "pb1", c):
            t = [("i", x), ("e", y, None)]
            if t not in texts:
                texts.append(t)
    texts.append([("e", "pb1", None)])
    return texts


def provided(P, pkg, seen=None):
    """Types a '%import pkg' makes available: its own and, transitively, those of the components it imports."""
    seen = set() if seen is None else seen
    if pkg in seen or not P.types.get(pkg):
        return []
    seen.add(pkg)
    out = list(P.types[pkg])
    for sub in P.imports.get(pkg, ()):
        out += provided(P, sub, seen)
    return out


def uses_imported(texts, hist, step, P):
    """Does the text of this step use a type name that an EARLIER load of the history imported?"""
    imported = set()
    for i in hist[:step]:
        for e in texts[i]:
            if e[0] == "i" and P.types.get(e[1]):
                imported |= {t.name for t in provided(P, e[1])}
    return any(e[0] == "e" and e[1] in imported for e in texts[hist[step]])


def redefines_earlier_type(texts, hist, step, P):
    """Does this step's text import a package that defines a type NAME which an earlier load of the history
    imported from a different package?"""
    earlier = {}
    for i in hist[:step]:
        for e in texts[i]:
            if e[0] == "i" and P.types.get(e[1]):
                for t in P.types[e[1]]:
                    earlier.setdefault(t.name, set()).add(e[1])
    for e in texts[hist[step]]:
        if e[0] == "i" and P.types.get(e[1]):
            for t in P.types[e[1]]:
                if earlier.get(t.name, set()) - {e[1]}:
                    return True
    return False


def explore_histories(S, xml, P, plist, hlen, acc, mid):
    texts = history_texts(S, plist)
    rendered = [H.render_events(t) for t in texts]
    refs = [R.decide(S, t, packages=P.types, preimported=PRE[0], package_imports=P.imports) for t in texts]
    fresh = H.load_schema(xml)
    fresh_digest = None
    for n in range(1, hlen + 1):
        for hist in itertools.product(range(len(texts)), repeat=n):
            sch = H.load_schema(xml)
            d0 = H.schema_digest(sch)
            leaked = False
            for step, ti in enumerate(hist):
                obs = observe(sch, rendered[ti])
                acc.ev()
                acc.transitions += 1
                ref = refs[ti]
                case = {"member": mid, "history": [rendered[i] for i in hist[:step + 1]]}
                earlier_import = any(any(e[0] == "i" for e in texts[i]) for i in hist[:step])
                if step >= 1:
                    acc.nt()
                acc.cls("history ref=%s impl=%s" % (ref.verdict, obs[0]))
                if obs[0] == "I":
                    acc.violation("internal-error", case, obs[1], ref.verdict,
                                  tags={"kind": "internal-error", "exc": obs[1]["class"]})
                    break
                if ref.verdict != "U" and (obs[0] != ref.verdict or (obs[0] == "A" and obs[1] != ref.tree)):
                    acc.violation("outcome-depends-on-earlier-loads", case, [obs[0], repr(obs[1])[:200]],
                                  [ref.verdict, ref.clause],
                                  tags={"kind": "history-outcome", "after_import_load": earlier_import,
                                        "uses_type_imported_earlier": uses_imported(texts, hist, step, P),
                                        "this_load_redefines_that_type": redefines_earlier_type(texts, hist, step, P),
                                        "clause": ref.clause})
                    break
                d1 = H.schema_digest(sch)
                if d1 != d0:
                    diff = [a[:2] for a, b in zip(d0, d1) if a != b]
                    acc.violation("schema-changed-by-load", case, repr(diff)[:300], "digest unchanged",
                                  tags={"kind": "schema-digest",
                                        "with_import": any(e[0] == "i" for e in texts[ti]),
                                        "what": sorted(set(x[0] for x in diff))})
                    d0 = d1        # keep going: later steps show whether the change matters
            acc.sample(lambda: {"member": mid, "history": [rendered[i] for i in hist]})
    acc.states += 1


# ---------------------------------------------------------------------------
# wave 5: the component-reference axis
#
# A schema component is identified by (package, file), file defaulting to 'component.xml'
# (docs/writing-schema.rst, <import>): whatever way a reference is written, and wherever it
# is written, the component it denotes is read at most once per schema / per load, and two
# references denote the same component iff package and (defaulted) file agree.

SPELLINGS = ("bare", "deffile", "extra", "sub", "relsub", "nofile")
SITES = ("D", "I")       # D: <import> written in the application schema; I: in a component that the schema imports


def cref_attrs(pq, k):
    """-> (attributes of the <import>, prefix the enclosing document element needs, key of the component denoted)"""
    return {
        "bare": ('package="%s"' % pq, None, pq),
        "deffile": ('package="%s" file="component.xml"' % pq, None, pq),
        "extra": ('package="%s" file="extra.xml"' % pq, None, pq + ":extra.xml"),
        "sub": ('package="%s.sub"' % pq, None, pq + ".sub"),
        "relsub": ('package=".sub"', pq, pq + ".sub"),
        "nofile": ('package="%s" file="absent.xml"' % pq, None, pq + ":absent.xml"),
    }[k]


class CRef:
    """The component universe of the reference axis.  types / imports are keyed by COMPONENT: a real package
    name stands for its component.xml (that is what '%import' can name), 'package:file' for another file."""

    def __init__(self):
        self.types, self.imports, self.pr, self.src = {}, {}, {}, {}

    def closure(self, keys):
        out, todo = set(), list(keys)
        while todo:
            k = todo.pop()
            if k not in out:
                out.add(k)
                todo += self.imports.get(k, ())
        return out


def _write(path, text):
    with open(path, "w") as f:
        f.write(text)


def make_cref_packages(P):
    Q = CRef()
    Q.dir = P.dir
    q1 = M.SType("q1", (M.Key("pk"),), implements="a")
    q2 = M.SType("q2", (), implements="a")
    q3 = M.SType("q3", (), implements="a")
    comp = lambda types: "<component>\n" + "\n".join(sum((M.render_type(t) for t in types), [])) + "\n</component>\n"
    pq = Q.pq = P.add_component("pq", [q1], extra_files={"extra.xml": comp([q2])})
    os.makedirs(os.path.join(P.dir, pq, "sub"))
    _write(os.path.join(P.dir, pq, "sub", "__init__.py"), "# generated sub-package\n")
    _write(os.path.join(P.dir, pq, "sub", "component.xml"), comp([q3]))
    P.real["pq.sub"] = pq + ".sub"
    P.types[pq + ".sub"] = (q3,)
    P.imports[pq + ".sub"] = ()
    Q.types.update({pq: (q1,), pq + ":extra.xml": (q2,), pq + ".sub": (q3,), pq + ":absent.xml": None})
    for k in SPELLINGS:
        attrs, prefix, key = cref_attrs(pq, k)
        rt = M.SType("r" + k, (), implements="a")
        # a component whose <import> is written in spelling k
        real = Q.pr[k] = P.add_component("pr" + k, [rt], prefix=prefix)
        _write(os.path.join(P.dir, real, "component.xml"),
               "<component%s>\n  <import %s/>\n%s\n</component>\n"
               % (' prefix="%s"' % prefix if prefix else "", attrs, "\n".join(M.render_type(rt))))
        Q.types[real] = (rt,)
        Q.imports[real] = (key,)
        # a SCHEMA (for <import src=...>) that defines the abstract type and imports in spelling k
        path = os.path.join(P.dir, "vzsrc_%s.xml" % k)
        _write(path, "<schema%s>\n  <abstracttype name=\"a\"/>\n  <import %s/>\n</schema>\n"
               % (' prefix="%s"' % prefix if prefix else "", attrs))
        Q.src[k] = "file://" + path
    return Q


CREF_OWN = (M.SType("c1", (M.Key("k"),), implements="a"), M.SType("c2", (), extends="c1"))
CREF_SLOT = M.Sect("*", "a", attribute="sa", multi=True)


def cref_member(Q, src_k, refs):
    """Application schema with the given references -> (xml, reference schema | None, refusal clause | None,
    components the reference holds, components held through the src schema).
    src_k: None = the schema defines the abstract type itself; else it gets it from '<import src=S_k>' where
    schema S_k defines it and imports in spelling src_k.  refs: sequence of (site, spelling)."""
    prefix = Q.pq if any(s == "D" and cref_attrs(Q.pq, k)[1] for s, k in refs) else None
    lines = ["<schema%s>" % (' prefix="%s"' % prefix if prefix else "")]
    lines.append('  <abstracttype name="a"/>' if src_k is None else '  <import src="%s"/>' % Q.src[src_k])
    keys = []
    for site, k in refs:
        if site == "D":
            lines.append("  <import %s/>" % cref_attrs(Q.pq, k)[0])
            keys.append(cref_attrs(Q.pq, k)[2])
        else:
            lines.append('  <import package="%s"/>' % Q.pr[k])
            keys.append(Q.pr[k])
    for t in CREF_OWN:
        lines += M.render_type(t)
    lines += M.render_item(CREF_SLOT)
    lines.append("</schema>")
    xml = "\n".join(lines) + "\n"
    # the reference: fold the references over the model, each component read once
    S = M.Schema(types=(M.AType("a"),))
    held, via_src = set(), set()
    try:
        if src_k is not None:
            S = R.import_component(S, held, cref_attrs(Q.pq, src_k)[2], Q.types, Q.imports)
            via_src = set(held)
        for key in keys:
            S = R.import_component(S, held, key, Q.types, Q.imports)
    except R._Reject as r:
        return xml, None, r.clause, held, via_src
    S = replace(S, types=tuple(S.types) + CREF_OWN, items=(CREF_SLOT,))
    return xml, S, None, held, via_src


def cref_variants(tier):
    """(src_k, refs, text depth): every sequence of <= 2 schema-level references over SITES x SPELLINGS, with the
    abstract type defined by the schema itself or obtained through a src-imported schema in every spelling."""
    alpha = [(s, k) for s in SITES for k in SPELLINGS]
    seqs = [()] + [(a,) for a in alpha] + [(a, b) for a in alpha for b in alpha]
    out = []
    for refs in seqs:
        out.append((None, refs, (3 if len(refs) < 2 else 2) if tier == "quick" else 3))
    for src_k in SPELLINGS:
        for refs in seqs:
            if tier == "quick" and len(refs) > 1:
                continue
            out.append((src_k, refs, 2 if tier == "quick" or len(refs) > 1 else 3))
    return out


def load_schema_obs(xml):
    import ZConfig
    try:
        return ("A", H.load_schema(xml))
    except ZConfig.ConfigurationError as e:
        return ("R", type(e).__name__ + ": " + str(e).split("\n")[0][:120])
    except Exception as e:
        return ("I", core.exc_desc(e))


def explore_cref(Q, variant, acc, tier):
    src_k, refs, depth = variant
    xml, Sref, clause, held, via_src = cref_member(Q, src_k, refs)
    label = {"abstract_from": "src-schema:" + src_k if src_k else "schema", "refs": ["%s:%s" % r for r in refs]}
    mid = {"schema": xml, "packages": {k: None for k in Q.types if ":" not in k}, "pkgdir": Q.dir,
           "preimported": sorted(held), "component_references": label}
    base_tags = {"axis": "component-reference", "abstract_from": "src-schema" if src_k else "schema"}
    # do two schema-level references reach one component (by different routes / spellings)?
    keys = [cref_attrs(Q.pq, k)[2] if s == "D" else Q.pr[k] for s, k in refs]
    again_src = bool(via_src & Q.closure(keys))
    allkeys = ([cref_attrs(Q.pq, src_k)[2]] if src_k else []) + keys
    twice = sum(len(Q.closure([k])) for k in allkeys) > len(Q.closure(allkeys))
    acc.current = xml
    so = load_schema_obs(xml)
    acc.ev()
    acc.extra["cref_schema_variants"] += 1
    acc.cls("cref schema ref=%s impl=%s" % ("A" if Sref is not None else "R", so[0]))
    if Sref is not None and twice:
        acc.extra["cref_schemas_reaching_a_component_twice"] += 1
    if Sref is not None and again_src:
        acc.extra["cref_schemas_reaching_a_component_of_the_src_schema_again"] += 1
    if so[0] == "I":
        acc.violation("internal-error", {"member": mid}, so[1], "schema loads" if Sref is not None else clause,
                      tags=dict(base_tags, kind="internal-error", exc=so[1]["class"], stage="schema"))
        return
    if Sref is None:
        acc.clause("schema:" + clause)
        if so[0] != "R":
            acc.violation("schema-accepted-reference-refuses", {"member": mid}, "schema loaded", ["R", clause],
                          tags=dict(base_tags, kind="schema-accepted", clause=clause))
        return
    if so[0] == "R":
        acc.violation("schema-refused-reference-accepts", {"member": mid}, so[1], "schema loads",
                      tags=dict(base_tags, kind="schema-refused",
                                schema_references_component_of_src_schema_again=again_src))
        return
    sch = so[1]
    d0 = H.schema_digest(sch)
    A = [("i", Q.pq), ("i", Q.pq + ".sub")] + [("i", Q.pr[k]) for k in SPELLINGS] + \
        [("e", t, None) for t in ("q1", "q2", "q3") + tuple("r" + k for k in SPELLINGS) + ("c1",)]
    site_labels = sorted(set(["S:" + src_k] if src_k else []) | set("%s:%s" % r for r in refs))

    def hook(h2, ref, obs):
        names = [e[1] for e in h2 if e[0] == "i"]
        clo = Q.closure(names) if ref.clause != "import-refused-not-a-component-package" else set()
        re_held = bool(clo & held)
        re_src = bool(clo & via_src)
        if re_held and ref.verdict == "A" and any(e[0] == "e" for e in h2):
            acc.extra["cref_accepted_texts_importing_a_component_the_schema_holds"] += 1
            for lab in site_labels:
                acc.extra["cref reimport after " + lab] += 1
        if len(clo) < sum(len(Q.closure([n])) for n in set(names)) and ref.verdict == "A":
            acc.extra["cref_accepted_texts_reaching_a_component_twice"] += 1
        return dict(base_tags, text_imports_component_schema_holds=re_held,
                    text_imports_component_of_src_schema=re_src)

    old = PRE[0]
    PRE[0] = tuple(sorted(held))
    try:
        explore_texts(Sref, sch, Q, None, depth, acc, mid, d0, tier, A=A, hook=hook)
    finally:
        PRE[0] = old


def shard_cref(arg, acc):
    _, i, n, tier = arg
    P = pkgs.Packages()
    try:
        make_packages(P)
        for v in cref_variants(tier)[i::n]:
            explore_cref(P.cref, v, acc, tier)
    finally:
        P.close()
    acc.traces = acc.transitions
    return acc


def shard(arg, acc):
    if arg[0] == "cref":
        return shard_cref(arg, acc)
    lo, hi, nconc, two, depth, hlen, tier = arg
    P = pkgs.Packages()
    try:
        plist = make_packages(P)
        for idx, S in enumerate(schemas(nconc, two)):
            if idx < lo or idx >= hi:
                continue
            variants = [(S, S, ())]
            if nconc == 2:
                # the schema itself imports package pb: its types are part of the schema, and a
                # later '%import pb' in a text is a no-op
                pb = plist[1]
                variants.append((replace(S, imports=(pb,), import_pos=1), replace(S, types=S.types + P.types[pb]), (pb,)))
            for Sx, Sref, pre in variants:
                xml = M.render(Sx)
                sch = H.load_schema(xml)
                mid = {"schema": xml, "packages": {k: [t.name for t in v] if v else None for k, v in P.types.items()},
                       "preimported": list(pre)}
                d0 = H.schema_digest(sch)
                PRE[0] = pre
                explore_texts(Sref, sch, P, plist, depth if not pre else min(depth, 3), acc, mid, d0, tier)
                if nconc == 2 and not two and not pre:
                    # components importing each other / themselves, reached through '%import'
                    Am = [("i", P.real[x]) for x in ("pe", "pf", "pg", "pa")] + \
                         [("e", t, None) for t in ("pe1", "pf1", "pg1", "pa1", "c1")]
                    explore_texts(Sref, sch, P, plist, 3 if tier == "quick" else 4, acc, mid, d0, tier, A=Am)
                    acc.extra["mutual_import_explorations"] += 1
                if nconc == 2 and not pre:
                    # a NAMED slot of the abstract type (and of b): admission goes through another branch of the
                    # slot search than for '*' slots, incl. for implementers that only an '%import' brings
                    extra = [M.Sect("nm", "a", attribute="named_a")]
                    if two:
                        extra.append(M.Sect("nb", "b", attribute="named_b"))
                    Sn = replace(Sref, items=tuple(Sref.items) + tuple(extra))
                    xml_n = M.render(Sn)
                    sch_n = H.load_schema(xml_n)
                    mid_n = dict(mid, schema=xml_n)
                    tn = [t.name for t in Sn.types] + ["pa1", "pb1", "pb2", "qq"]
                    An = [("i", P.real[x]) for x in ("pa", "pb")] + \
                         [("e", t, nm) for t in tn for nm in (["nm", "nb"] if two else ["nm"])] + \
                         [("e", "pa1", None), ("e", "c1", None)]
                    explore_texts(Sn, sch_n, P, plist, 3, acc, mid_n, H.schema_digest(sch_n), tier, A=An)
                    acc.extra["named_abstract_slot_explorations"] += 1
                if hlen:
                    explore_histories(Sref, xml, P, plist, hlen if not pre else min(hlen, 2), acc, mid)
                acc.extra["schemas"] += 1
            PRE[0] = ()
    finally:
        P.close()
    acc.traces = acc.transitions
    return acc


def run(tier):
    shards = []
    if tier == "quick":
        fam = [(2, False, 4, 3), (2, True, 4, 2), (3, False, 3, 0)]
    else:
        fam = [(2, False, 5, 4), (2, True, 4, 3), (3, False, 4, 2), (3, True, 3, 2), (4, False, 3, 0)]
    total = 0
    for nconc, two, depth, hlen in fam:
        n = sum(1 for _ in schemas(nconc, two))
        total += n
        step = max(1, n // 16 + (1 if n % 16 else 0))
        for lo in range(0, n, step):
            shards.append((lo, min(n, lo + step), nconc, two, depth, hlen, tier))
    nvar = len(cref_variants(tier))
    ncref = 16 if tier == "quick" else 48
    for i in range(ncref):
        shards.append(("cref", i, ncref, tier))
    run = core.Run(
        "C12", tier, "model_checking",
        rule="schemas: abstract types a (and b) x 2..%d concrete types, each implementing none / a / b and extending "
             "none / any earlier one, in every combination (%d schemas); 7 generated component packages (two importing each "
             "other, one importing itself - explored in their own text BFS -, pa, pb with "
             "an extender of an implementer, pc defining pa's type name differently, pd needing abstract type b) and 3 "
             "non-components (package without component.xml, plain module, missing); for the two-concrete-type schemas also a "
             "variant with NAMED slots of the abstract types, explored with every type under those names; texts: breadth-first search over "
             "all sequences of '%%import P' (7 names) and '<t/>' (every type name, abstract ones, unknown) up to the "
             "depth bound, reference state = (container state, imports seen); histories: all sequences of <= h loads "
             "of 17 representative texts (every 'import X, use a type of Y' combination over three components) against one "
             "schema object; every explored text with an import and a use is also cut into two resources at every point "
             "(tail included from the head / head included ahead of the tail) and must give the same outcome.  Every load: outcome == reference admission; schema "
             "digest unchanged.  Non-trivial = text with >= 1 section use decided by a clause other than unknown-type; "
             "history steps after the first.  "
             "COMPONENT-REFERENCE axis (w5): a component is (package, file), file defaulting to component.xml; one base schema "
             "(a; c1 implements a; c2 extends c1) gets every sequence of <= 2 schema-level references over 2 sites (D: "
             "<import> written in the schema, I: <import package=R/> of a component R whose own <import> is written that way) "
             "x 6 spellings (package alone; file=\"component.xml\" spelled out; file=\"extra.xml\", another component of the "
             "same package; dotted sub-package; '.sub' relative to the prefix; a file that does not exist), the abstract type "
             "either defined by the schema or obtained through <import src=S/> of a schema S that defines it and imports in "
             "each of the 6 spellings (%d schema variants; quick: <= 1 further reference after a src import); reference: "
             "each component is read once however it is reached, a reference to a missing file is refused (schema not "
             "loadable / '%%import' refused); per variant a text BFS over '%%import' of the package, of its sub-package and of "
             "the 6 referring components and '<t/>' of every type they define, to depth 2-3, every text with an import and a "
             "use also cut into two resources."
             % (max(f[0] for f in fam), total, nvar),
        bounds={"families": fam, "schemas": total,
                "component_reference_axis": {"sites": ["D", "I", "S(src schema)", "T('%import')"], "spellings": list(SPELLINGS),
                                             "schema_level_reference_sequences": "<= 2 (after a src import: <= %d)"
                                                                                 % (1 if tier == "quick" else 2),
                                             "schema_variants": nvar,
                                             "text_depth": "3 for <= 1 reference, else 2" if tier == "quick"
                                                           else "3 (2 for src import + 2 references)",
                                             "text_alphabet": "8 '%import' names + 10 type names"}},
        assumptions=["reference admission model vz/ref/match.py (imports extend the model of this load only)",
                     "generated packages on a scratch sys.path entry"])
    core.pmap(shard, shards, run.acc, shard_budget=3000.0)
    a = run.acc
    need = ["accepted", "no-slot-admits-type", "abstract-type-named-directly", "unknown-type",
            "import-refused-not-a-component-package", "import-redefines-type"]
    missing = [c for c in need if not a.clauses.get(c)]
    run.require(not missing, "reference clauses never decided: %s" % missing)
    # the component-reference axis was really walked: every variant, and for every valid spelling at every site
    # accepted texts that '%import' (directly or through a component) a component the schema already holds
    x = a.extra
    run.require(x["cref_schema_variants"] == nvar, "component-reference variants explored: %d of %d"
                % (x["cref_schema_variants"], nvar))
    thin = ["%s:%s" % (site, k) for site in ("D", "I", "S") for k in SPELLINGS if k != "nofile"
            and x["cref reimport after %s:%s" % (site, k)] < 100]
    run.require(not thin, "fewer than 100 accepted texts re-importing a component the schema holds through: %s" % thin)
    run.require(x["cref_schemas_reaching_a_component_twice"] >= 40,
                "schemas whose references reach one component twice: %d" % x["cref_schemas_reaching_a_component_twice"])
    run.require(x["cref_accepted_texts_reaching_a_component_twice"] >= 1000,
                "accepted texts whose imports reach one component twice: %d"
                % x["cref_accepted_texts_reaching_a_component_twice"])
    run.require(a.clauses.get("schema:import-refused-not-a-component-package", 0) >= 60,
                "schemas referring to a component file that does not exist")
    return run


def replay(body):
    case = body["case"]
    print("replay of C12 cases needs the generated packages; re-creating them")
    P = pkgs.Packages()
    rc = 0
    try:
        plist = make_packages(P)
        # package names are process-unique: map the recorded names onto the fresh ones by suffix
        def remap(text):
            for real in case["member"]["packages"]:
                logical = real.rsplit("_", 1)[1]
                text = text.replace(real, P.real[logical])
            if case["member"].get("pkgdir"):
                text = text.replace(case["member"]["pkgdir"], P.dir)
            return text
        for _ in range(2):
            so = load_schema_obs(remap(case["member"]["schema"]))
            if so[0] != "A" or body["kind"] in ("schema-refused-reference-accepts", "schema-accepted-reference-refuses"):
                print("schema:\n" + remap(case["member"]["schema"]) + "->", so[0], so[1] if so[0] != "A" else "loaded",
                      "; expected:", body["expected"])
                rc = 1 if (so[0] == "A") == (body["kind"] == "schema-accepted-reference-refuses") else 0
                continue
            sch = so[1]
            d0 = H.schema_digest(sch)
            texts = case.get("history") or [case["text"]]
            for t in texts:
                t = remap(t)
                obs = observe(sch, t)
                print("load:\n" + t + "->", obs[0], repr(obs[1])[:200])
            d1 = H.schema_digest(sch)
            print("schema digest changed:", d1 != d0, "; expected:", body["expected"])
            if body["kind"] == "schema-changed-by-load":
                rc = 1 if d1 != d0 else 0
            else:
                rc = 1
    finally:
        P.close()
    return rc
