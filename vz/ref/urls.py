"""Reference model for C18: path/URL classification, 'file:///' normalisation,
fragment splitting, RFC 3986 reference resolution, path -> file URL.

Written from the property statement, the ZConfig documentation and RFC 3986
(sections 3, 3.1, 5.2, 5.3) - not from ZConfig/url.py, ZConfig/loader.py or urllib.
Nothing here imports urllib or os.path.

Every function that judges an observed value returns (verdict, clause):
verdict is None when the observation is acceptable, else a short string naming
what is wrong; clause names the reference clause that decided.
"""

ALPHA = frozenset("abcdefghijklmnopqrstuvwxyzABCDEFGHIJKLMNOPQRSTUVWXYZ")
DIGIT = frozenset("0123456789")
SCHEME_TAIL = ALPHA | DIGIT | frozenset("+-.")
UNRESERVED = ALPHA | DIGIT | frozenset("-._~")
SUB_DELIMS = frozenset("!$&'()*+,;=")
PCHAR = UNRESERVED | SUB_DELIMS | frozenset(":@")     # plus pct-encoded
HEX = frozenset("0123456789abcdefABCDEF")


# ---------------------------------------------------------------------------
# scheme scanner / isPath

def scheme_of(s):
    """The RFC 3986 scheme of s (without the colon) if s starts with
    ALPHA *( ALPHA / DIGIT / "+" / "-" / "." ) ":", else None."""
    if not s or s[0] not in ALPHA:
        return None
    i = 1
    n = len(s)
    while i < n and s[i] in SCHEME_TAIL:
        i += 1
    if i < n and s[i] == ":":
        return s[:i]
    return None


def is_path(s):
    """(expected isPath, clause).  A string is a file-system path unless it
    starts with a scheme of two or more characters (a one-letter scheme is a
    Windows drive letter)."""
    if ":" not in s:
        return True, "path:no-colon"
    sch = scheme_of(s)
    if sch is None:
        return True, "path:colon-but-no-scheme"
    if len(sch) == 1:
        return True, "path:drive-letter"
    return False, "url:scheme"


# ---------------------------------------------------------------------------
# 'file:///' normalisation

def _lower_ascii(s):
    return "".join(chr(ord(c) + 32) if "A" <= c <= "Z" else c for c in s)


def is_file_url(s):
    return _lower_ascii(s[:5]) == "file:"


def judge_normalized(inp, out):
    """Is `out` an acceptable urlnormalize(inp)?

    Specified:   not a file URL                 -> unchanged
                 already 'file:///...'          -> unchanged
                 'file:/P', P not starting '/'  -> 'file:///P' (scheme case free)
    Unspecified: 'file://X' with X not starting '/' (a host part): only the
                 'file:///' form of the result is demanded;
                 'file:' not followed by '/' (relative/opaque): unchanged or some
                 'file:///' form.
    """
    if not isinstance(out, str):
        return "not a string", "normalize:type"
    if not is_file_url(inp):
        return (None if out == inp else "non-file URL changed"), "normalize:non-file-unchanged"
    rest = inp[5:]
    lo = _lower_ascii(out[:5])
    if rest.startswith("///"):
        return (None if out == inp else "'file:///' URL changed"), "normalize:already-normal"
    if rest.startswith("//"):
        ok = lo == "file:" and out[5:].startswith("///")
        return (None if ok else "result not in 'file:///' form"), "normalize:host-form(unspecified-path)"
    if rest.startswith("/"):
        ok = lo == "file:" and out[5:] == "//" + rest
        return (None if ok else "single-slash file URL not rewritten to 'file:///' + path"), \
            "normalize:single-slash"
    ok = out == inp or (lo == "file:" and out[5:].startswith("///"))
    return (None if ok else "relative file URL mangled"), "normalize:file-no-slash(unspecified)"


def normalize(inp):
    """The specified result where there is one, else None."""
    if not is_file_url(inp):
        return inp
    rest = inp[5:]
    if rest.startswith("///"):
        return inp
    if rest.startswith("//"):
        return None
    if rest.startswith("/"):
        return "file://" + rest
    return None


# ---------------------------------------------------------------------------
# fragments

def split_fragment(s):
    """(reference-without-fragment, fragment or None when there is no '#')."""
    i = s.find("#")
    if i < 0:
        return s, None
    return s[:i], s[i + 1:]


def same_modulo_scheme_case(a, b):
    """RFC 3986 6.2.2.1: the scheme is case-insensitive."""
    if a == b:
        return True
    sa, sb = scheme_of(a), scheme_of(b)
    if sa is None or sb is None or len(sa) != len(sb):
        return False
    return _lower_ascii(sa) == _lower_ascii(sb) and a[len(sa):] == b[len(sb):]


def judge_defrag(inp, out):
    """Is `out` an acceptable urldefrag(inp) = (url, fragment)?

    The fragment is the text after the first '#' ('' when there is none or it
    is empty).  The url part is the normalised text before the '#', compared
    modulo the case of the scheme.  Unspecified url part (only its 'file:///'
    form is judged): network-path references ('//...' without scheme), non-file
    URLs with an empty authority ('x://', 'x:///p') and file URLs outside the
    specified normalisation cases.
    """
    if not (isinstance(out, tuple) and len(out) == 2
            and isinstance(out[0], str) and isinstance(out[1], str)):
        return "not a (str, str) pair", "defrag:type"
    head, frag = split_fragment(inp)
    if out[1] != (frag or ""):
        return "wrong fragment", "defrag:fragment"
    if "#" in out[0]:
        return "url part still has a fragment", "defrag:url-has-no-hash"
    if frag is None:
        v, c = judge_normalized(inp, out[0])
        return v, "defrag:no-hash/" + c
    if scheme_of(head) is None and head.startswith("//"):
        return None, "defrag:network-path(unspecified)"
    sch, auth, _p, _q, _f = parse_ref(head)
    if sch is not None and auth == "" and not is_file_url(head):
        # 'x://' + path: an empty authority on a non-file URL; whether a recomposed
        # URL keeps the empty '//' is not something the property speaks about
        return None, "defrag:empty-authority-non-file(unspecified)"
    exp = normalize(head)
    if exp is None:
        v, c = judge_normalized(head, out[0])
        if v is None or c.endswith("(unspecified)"):
            # recomposition may turn 'file:a' into some other file URL; demand the form only
            lo = _lower_ascii(out[0][:6])
            if lo == "file:/" and not out[0][5:].startswith("///"):
                return "result not in 'file:///' form", "defrag:" + c
            return None, "defrag:" + c
        return v, "defrag:" + c
    if same_modulo_scheme_case(out[0], exp):
        return None, "defrag:split-then-normalize"
    return "url part differs from normalised text before '#'", "defrag:split-then-normalize"


# ---------------------------------------------------------------------------
# RFC 3986 reference resolution (5.2, strict)

def parse_ref(s):
    """-> (scheme, authority, path, query, fragment); absent components are None
    (path is always a string).  RFC 3986 appendix B, done by hand."""
    scheme = scheme_of(s)
    rest = s[len(scheme) + 1:] if scheme is not None else s
    fragment = None
    i = rest.find("#")
    if i >= 0:
        rest, fragment = rest[:i], rest[i + 1:]
    query = None
    i = rest.find("?")
    if i >= 0:
        rest, query = rest[:i], rest[i + 1:]
    authority = None
    if rest.startswith("//"):
        j = rest.find("/", 2)
        if j < 0:
            authority, rest = rest[2:], ""
        else:
            authority, rest = rest[2:j], rest[j:]
    return scheme, authority, rest, query, fragment


def remove_dot_segments(path):
    """RFC 3986 5.2.4."""
    inp = path
    out = []
    while inp:
        if inp.startswith("../"):
            inp = inp[3:]
        elif inp.startswith("./"):
            inp = inp[2:]
        elif inp.startswith("/./"):
            inp = inp[2:]
        elif inp == "/.":
            inp = "/"
        elif inp.startswith("/../"):
            inp = inp[3:]
            if out:
                out.pop()
        elif inp == "/..":
            inp = "/"
            if out:
                out.pop()
        elif inp in (".", ".."):
            inp = ""
        else:
            j = inp.find("/", 1)
            if j < 0:
                out.append(inp)
                inp = ""
            else:
                out.append(inp[:j])
                inp = inp[j:]
    return "".join(out)


def recompose(scheme, authority, path, query, fragment):
    r = ""
    if scheme is not None:
        r += scheme + ":"
    if authority is not None:
        r += "//" + authority
    r += path
    if query is not None:
        r += "?" + query
    if fragment is not None:
        r += "#" + fragment
    return r


_BASES = {}


def resolve(base, ref):
    """RFC 3986 5.2.2 with a strict parser."""
    b = _BASES.get(base)
    if b is None:
        b = _BASES[base] = parse_ref(base)
    bs, ba, bp, bq, _bf = b
    rs, ra, rp, rq, rf = parse_ref(ref)
    if rs is not None:
        t = (rs, ra, remove_dot_segments(rp), rq)
    elif ra is not None:
        t = (bs, ra, remove_dot_segments(rp), rq)
    elif rp == "":
        t = (bs, ba, bp, rq if rq is not None else bq)
    elif rp.startswith("/"):
        t = (bs, ba, remove_dot_segments(rp), rq)
    else:
        if ba is not None and bp == "":
            merged = "/" + rp
        else:
            k = bp.rfind("/")
            merged = bp[:k + 1] + rp
        t = (bs, ba, remove_dot_segments(merged), rq)
    return recompose(t[0], t[1], t[2], t[3], rf)


def judge_join(base, ref, out):
    """Is `out` an acceptable urljoin(base, ref) for a 'file:///...' base?

    Specified: a relative reference with a path made of non-empty segments (what
    '%include' / 'src' / 'extends' carry) resolves as RFC 3986 5.2 says; whatever
    comes out, a 'file:/' result is in 'file:///' form.
    Unspecified (form only): network-path references '//host...'; references
    whose resolution involves an empty segment ('//' inside the merged path,
    which is not a file name); references that carry the scheme 'file' themselves
    (RFC 3986 5.2.2 lets a resolver treat a same-scheme reference as relative).
    A reference with another scheme of two or more letters is absolute: it
    comes back unchanged, or with dot segments removed.
    """
    if not isinstance(out, str):
        return "not a string", "join:type"
    lo = _lower_ascii(out[:6])
    if lo == "file:/" and not out[5:].startswith("///"):
        return "file URL result not in 'file:///' form", "join:file-form"
    sch = scheme_of(ref)
    if sch is not None:
        if _lower_ascii(sch) == "file":
            return None, "join:file-scheme-ref(unspecified)"
        ok = out == ref or out == resolve(base, ref)
        return (None if ok else "absolute reference changed"), "join:absolute-ref"
    if ref.startswith("//"):
        return None, "join:network-path(unspecified)"
    exp = resolve(base, ref)
    # empty segments in the part of the result that comes from the reference
    _s, _a, p, _q, _f = parse_ref(exp)
    _rs, _ra, rp, _rq, _rf = parse_ref(ref)
    if "//" in rp or "//" in p:
        return None, "join:empty-segment(unspecified)"
    if out == exp:
        return None, "join:rfc3986-5.2"
    if _rf == "" and out + "#" == exp:
        # an empty fragment carries nothing; keeping or dropping the bare '#' is free
        return None, "join:rfc3986-5.2/empty-fragment-dropped"
    return "relative reference not resolved against the base", "join:rfc3986-5.2"


# ---------------------------------------------------------------------------
# path -> file URL

def abspath(cwd, p):
    """POSIX absolute, normalised path of p seen from cwd (cwd is absolute and
    normalised).  The number of leading slashes is not significant here (POSIX
    keeps exactly two); callers compare with collapse_root()."""
    full = p if p.startswith("/") else cwd.rstrip("/") + "/" + p
    out = []
    for seg in full.split("/"):
        if seg == "" or seg == ".":
            continue
        if seg == "..":
            if out:
                out.pop()
            continue
        out.append(seg)
    return "/" + "/".join(out)


def collapse_root(p):
    return "/" + p.lstrip("/")


def pct_decode(s):
    """-> (decoded str, problem or None).  Every '%' must start a %XX triplet and
    the octets must be UTF-8; every other character must be an ASCII pchar or '/'."""
    b = bytearray()
    i = 0
    n = len(s)
    while i < n:
        c = s[i]
        if c == "%":
            if i + 2 < n and s[i + 1] in HEX and s[i + 2] in HEX:
                b.append(int(s[i + 1:i + 3], 16))
                i += 3
                continue
            return None, "stray '%'"
        if c not in PCHAR and c != "/":
            return None, "character %r must be percent-encoded in a URL path" % c
        b.append(ord(c))
        i += 1
    try:
        return b.decode("utf-8"), None
    except UnicodeDecodeError:
        return None, "percent-encoded octets are not UTF-8"


def judge_file_url_of_path(url, path):
    """Is `url` the 'file:///' URL of the absolute path `path`?  How many of
    the characters that may stay literal are nevertheless percent-encoded is not
    specified; what is: the form, that nothing with URL meaning stays literal and
    that decoding gives back the path."""
    if not isinstance(url, str):
        return "not a string"
    if not url.startswith("file:///"):
        return "not in 'file:///' form"
    dec, problem = pct_decode(url[7:])
    if problem:
        return problem
    if collapse_root(dec) != collapse_root(path):
        return "decodes to %r, not to %r" % (dec, path)
    return None


def quote_path(p):
    """Percent-encode everything but unreserved characters and '/' (used by the
    harness to WRITE references; never compared with ZConfig output)."""
    out = []
    for byte in p.encode("utf-8"):
        c = chr(byte)
        if byte < 128 and (c in UNRESERVED or c == "/"):
            out.append(c)
        else:
            out.append("%%%02X" % byte)
    return "".join(out)


def needs_quoting(name):
    return any(not (c in UNRESERVED) for c in name)


# ---------------------------------------------------------------------------
# normalizeURL

def judge_normalize_url(cwd, inp, outcome):
    """outcome = ("ok", url) | ("config-error", msg) | ("other", description).

    path                      -> 'file:///' URL of the absolute path
    URL, non-empty fragment   -> ConfigurationError
    URL, no/empty fragment    -> the normalised URL without fragment
    """
    if outcome[0] == "other":
        return "exception other than ConfigurationError", "normalizeURL:totality"
    path, clause = is_path(inp)
    if path:
        if outcome[0] != "ok":
            return "path rejected", "normalizeURL:" + clause
        return judge_file_url_of_path(outcome[1], abspath(cwd, inp)), "normalizeURL:" + clause
    head, frag = split_fragment(inp)
    if frag:
        return (None if outcome[0] == "config-error" else "fragment accepted"), \
            "normalizeURL:url-with-fragment"
    if outcome[0] != "ok":
        return "URL without fragment rejected", "normalizeURL:url"
    if "#" in outcome[1]:
        return "result has a fragment", "normalizeURL:url"
    v, c = judge_defrag(inp, (outcome[1], ""))
    return v, "normalizeURL:url/" + c
