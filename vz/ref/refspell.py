"""Spellings of one URL reference / file URL (C18, wave 2).

The same file can be written in a '%include' argument, a 'src' / 'extends'
attribute or a top-level file: URL in more than one way: every character that is
not RFC 3986 'unreserved' may be percent-encoded (upper- or lower-case hex
digits) or - when it has no URL meaning, which holds for the whole name alphabet
of C18 - written literally (RFC 3987 IRI reference for the non-ASCII letters).
All spellings denote the same resource, so a loader has to reach the same file.

spell(text, mode) writes `text` (an unquoted relative or absolute POSIX path) in
one of the modes below.  '/' and unreserved characters are always literal.  A
SPACE is never written literally: white space delimits the '%include' argument
and separates the entries of an 'extends' list, and a URL reference is stripped
of surrounding white space, so the surrounding syntax cannot carry it.

Nothing here imports urllib or os.path; nothing here is compared with ZConfig
output except through decode_lenient(), which is the inverse of every mode.
"""

UNRESERVED = frozenset("abcdefghijklmnopqrstuvwxyzABCDEFGHIJKLMNOPQRSTUVWXYZ0123456789-._~")
HEX = frozenset("0123456789abcdefABCDEF")

# mode -> what the k-th character that is not unreserved (k counted over the whole
# reference, directory part included) becomes
MODES = ["pct-upper", "pct-lower", "literal", "alt-LQ", "alt-QL"]
NEVER_LITERAL = frozenset(" ")


def _pct(ch, upper=True):
    fmt = "%%%02X" if upper else "%%%02x"
    return "".join(fmt % b for b in ch.encode("utf-8"))


def spell(text, mode):
    out = []
    k = 0
    for ch in text:
        if ch in UNRESERVED or ch == "/":
            out.append(ch)
            continue
        if mode == "pct-upper":
            lit = False
        elif mode == "pct-lower":
            out.append(_pct(ch, upper=False))
            k += 1
            continue
        elif mode == "literal":
            lit = True
        elif mode == "alt-LQ":
            lit = k % 2 == 0
        elif mode == "alt-QL":
            lit = k % 2 == 1
        else:
            raise ValueError("unknown spelling mode %r" % (mode,))
        k += 1
        if lit and ch not in NEVER_LITERAL:
            out.append(ch)
        else:
            out.append(_pct(ch))
    return "".join(out)


def has_literal_nonascii(s):
    return any(ord(c) > 127 for c in s)


def has_pct(s):
    return "%" in s


def decode_lenient(s):
    """-> (decoded str, problem or None): '%XX' triplets are octets, every other
    character stands for itself (UTF-8).  A '%' that does not start a triplet is a
    problem, and so are octets that are not UTF-8."""
    b = bytearray()
    i = 0
    n = len(s)
    while i < n:
        c = s[i]
        if c == "%":
            if i + 2 < n and s[i + 1] in HEX and s[i + 2] in HEX:
                b.append(int(s[i + 1:i + 3], 16))
                i += 3
                continue
            return None, "stray '%'"
        b.extend(c.encode("utf-8"))
        i += 1
    try:
        return b.decode("utf-8"), None
    except UnicodeDecodeError:
        return None, "percent-encoded octets are not UTF-8"


def judge_file_url_of_path_lenient(url, path):
    """Is `url` a 'file:///' URL that denotes the absolute path `path`?  Used where
    the caller handed ZConfig a literally spelled URL / reference: the property
    demands the 'file:///' form and the right resource, not that ZConfig
    re-encodes what the caller wrote."""
    if not isinstance(url, str):
        return "not a string"
    if not url.startswith("file:///"):
        return "not in 'file:///' form"
    if "#" in url:
        return "carries a fragment"
    dec, problem = decode_lenient(url[7:])
    if problem:
        return problem
    if "/" + dec.lstrip("/") != "/" + path.lstrip("/"):
        return "decodes to %r, not to %r" % (dec, path)
    return None
